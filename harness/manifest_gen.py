"""Regenerates MANIFEST.json from the table below (single source of truth for check registration)."""
import json
import os

VERIF = os.path.dirname(os.path.dirname(os.path.abspath(__file__)))

NOTE_COMMON = ('Trusted base: TLC 1.8 + CommunityModules, the abstraction function harness/absval.py, openpyxl as '
               'workbook writer/reader, CPython. ')

CHECKS = {
    'C09': dict(
        category='model_checking',
        text=('TLC checks exhaustively that the code-shaped facade model (cache + dirty flags + entry Cell object state, '
              'parser.py line by line) refines the ideal facade (out = T(path, entry, safety)) for 3 workbooks x 3 entries x '
              '2 Cell objects, and that every interleaving of the lazy token-table initialisation gives users the complete '
              'table. Binding: every call history TLC enumerates from the ideal facade is replayed on a real Parser and each '
              'result compared with a brand-new Parser for the settings in force; long random histories recorded from the '
              'real Parser are validated by TLC against the ideal facade (Trace_C09); subprocess sweeps over hash seeds, '
              'earlier translations and threads compare the text byte for byte. The pipeline specification E2PW (a workbook file replaced '
              'under its path, the Parser\'s cache, the written class file, executors made from the file or the text) is model-checked '
              '(with a code-shaped refinement and three deviating variants); every TLC-enumerated pipeline history is replayed on the real code '
              'and random pipeline histories of the real code are validated against it (Trace_E2PW); the version bookkeeping of the pipeline has an '
              'inductive invariant discharged by Apalache (ApaPipeline).'),
        design_ref='§7 C09',
        note=NOTE_COMMON + 'Thread interleavings of the real interpreter are sampled, not enumerated; sha256 prefixes identify texts.',
        technique='TLA+ refinement (TLC) + history replay + trace validation'),
    'C04': dict(
        category='model_checking',
        text=('TLC checks the ideal executor laws (LastWriteWins as an action property, OverriddenIsConstant, UntouchedKeepMeaning, '
              'SizesGrow) and that the code-shaped executor model (set of (uid,value) cells, lazy replay into the instance, '
              'default evaluation order) refines the ideal one; the pinned-commit variant is kept as a failing census. Binding: '
              'every sequence of override batches TLC enumerates is replayed on a real Executor under several PYTHONHASHSEEDs '
              'and every coordinate, grid and size is compared after each batch with the snapshot the specification computes by '
              'evaluating (workbook (+) overrides) itself; a sample is compared with a fresh translation of the edited workbook; '
              'random long histories recorded from the real Executor are validated by TLC (Trace_C04). The session specification E2P '
              '(several executors over one translation, class object or file) is model-checked with a code-shaped refinement and '
              'three deviating variants; every TLC-enumerated session history is replayed on real executors and random '
              'interleavings are validated by TLC (Trace_E2P).'),
        design_ref='§7 C04',
        note=NOTE_COMMON + 'The generator workbook (exported from the spec) uses + * / on integers; other formula semantics are covered by C01/C10-C17.',
        technique='TLA+ refinement (TLC) + history replay + trace validation'),
    'C08': dict(
        category='model_checking',
        text=('TLC checks QueriesArePure (action property), GridIsBox and SizesGrow on the ideal executor and enumerates every '
              'schedule of up to N queries (single cell / list / whole sheet) for three override sets; each schedule is replayed '
              'on one real Executor with random addressing spellings: every reply must equal the ideal (schedule-independent) '
              'reply and sizes and override map must be unchanged after every query. Query-heavy random traces are validated '
              'by TLC (Trace_C04).'),
        design_ref='§7 C08',
        note=NOTE_COMMON + 'The override map is observed through instance._arguments when that attribute exists.',
        technique='TLA+ action properties (TLC) + schedule replay + trace validation'),
    'C03': dict(
        category='model_checking',
        text=('TLC checks the translation state machine (memoised depth-first walk with in-progress marker, shaped like '
              'CellTranslator._set_cell_to_context) for every dependency graph on N nodes x every entry: Closed (members = '
              'closure), RejectIffCyclic, NoForeignOutcome, StackDiscipline, Terminates (liveness under weak fairness); the '
              'pinned-commit variant is a failing census. Binding: every graph TLC enumerates (with the closure / cyclic verdict '
              'computed by the spec) is realised as a two-sheet workbook with rotating reference forms and translated by the '
              'real code: member set = closure, slice values = whole-workbook values, cyclic => parser exception; random '
              'graphs on 5-8 nodes are judged by TLC from recorded events (Trace_C03).'),
        design_ref='§7 C03',
        note=NOTE_COMMON + 'Member set read from the generated text; values compared metamorphically (slice vs whole workbook).',
        technique='TLA+ state machine + invariants/liveness (TLC), graph enumeration replay, trace validation'),
    'C05': dict(
        category='model_checking',
        text=('The library\'s token sets are committed as TLA+ data and read twice: as a context-free grammar (Accept = the whole '
              'token sequence is derived: the "supported grammar") and by a code-shaped first-match interpreter with the '
              'control-construction flag and the AstBuilder step. TLC checks on every enumerated sequence that the code-shaped '
              'parser ends in whole-or-parser-exception and that whole => Accept (pinned variant: failing census), and exports '
              'every sequence (all soups up to a bound over 18 token classes, all single-token mutations of seed formulas, every '
              'function keyword x 0..N arguments) with the verdict. Binding: each is concretised to text and run through the real '
              'lexer/parser/translator; not Accept => the outcome must be the parser exception. Whitespace/separator spellings of '
              'accepted formulas must agree; random damaged formulas are lexed by the real Lexer and judged by TLC (Trace_C05).'),
        design_ref='§7 C05',
        note=NOTE_COMMON + 'Token level: texts are built from canonical lexemes separated by blanks; the reference grammar is the committed transcription of the token sets (drift is reported, not alarmed).',
        technique='TLA+ grammar model (CFG + first-match interpreter) enumerated by TLC, replayed; trace validation'),
    'C06': dict(
        category='model_checking',
        text=('TLC checks on the translation state machine that every behaviour ends in done or the library exception and terminates '
              '(NoForeignOutcome, Terminates), and on the grammar model that the parser step is whole-or-exception; it enumerates '
              'C05\'s token sequences and the adversarial workbook descriptors (Gen_C06: title kind x constant kind x formula kind x '
              'placement, with the admissible outcome set per descriptor). Binding: every enumerated case goes through the real '
              'code (xlsx -> Parser.write_translation -> Executor(class_file) for descriptors): outcome class must be ok or lib, '
              'and every ok result must compile, report the workbook\'s titles and sizes, define one callable member per '
              'translated cell without undefined names, and behave identically when loaded from the written file; nesting-depth '
              'sweep under a wall-clock limit; random damaged formulas judged by TLC (Trace_C05).'),
        design_ref='§7 C06',
        note=NOTE_COMMON + '"never hangs" is a wall-clock bound; finding C06-F1 (exponential backtracking for nesting depth >= 7) is recorded in known_findings.txt.',
        technique='TLA+ state machine + grammar model (TLC), descriptor/token enumeration replayed through the public file path'),
    'C01': dict(
        category='model_checking',
        text=('The ideal operator grammar (XlFormula: precedence-climbing parser + exact rational / text / boolean evaluation) is '
              'checked by TLC for self-consistency (Grouping, UnaryScope, BlankIsZero over all operator pairs and valuations) and '
              'then used as generator and oracle: every chain of k binary operators out of 11 with operand decorations and one '
              'bracket pair is a TLC state carrying its value under 5 valuations and the Guard set of the open findings. Binding: '
              'every chain is translated and evaluated by the real pipeline with operands as literals, workbook cells and overrides '
              'and compared exactly (rationals, texts, booleans); numeric literal texts are compared in exact decimal mode; random '
              'deeper formulas are re-parsed and re-evaluated by TLC from recorded events (Trace_C01).'),
        design_ref='§7 C01',
        note=NOTE_COMMON + 'No open finding (C01-F1/F2 - right-recursive grouping of comparisons and & - were repaired in the expression translator). Text-versus-number comparisons are not pinned.',
        technique='TLA+ executable grammar/evaluator as oracle, TLC-enumerated chains replayed, trace validation'),
    'C10': dict(
        category='model_checking',
        text=('TLC checks on the comparison oracle (XlCompare.Cmp3 over exact rationals, date-times, pure dates, texts, blank, FALSE) '
              'that it obeys the laws it demands (trichotomy, negation laws, a<b <=> b>a), is transitive and reflexive, orders numbers '
              'exactly and states the blank / midnight clauses, over every pair (and triple) of the value grid; it enumerates every '
              'in-scope ordered pair. Binding: each pair is evaluated by the real pipeline for all six operators in both operand orders '
              'with operands as overrides, workbook cells, literals and through the public file path, and TLC (Trace_C10) judges every '
              'observation: pinned pairs must show exactly Six(Cmp3), every in-scope pair must satisfy the laws; seeded random pairs '
              'beyond the grid are judged the same way.'),
        design_ref='§7 C10',
        note=NOTE_COMMON + 'Cross-kind pairs and blank vs TRUE are out of scope; for two texts and blank vs a negative number only the laws are demanded.',
        technique='TLA+ comparison oracle with TLC-checked laws, TLC-enumerated pairs replayed, trace validation of all observations'),
    'C16': dict(
        category='model_checking',
        text=('TLC checks the property\'s own algebra on the exact-decimal oracle (XlRounding: ROUND half away from zero, ROUNDUP away from zero, '
              'ROUNDDOWN toward zero on scaled integers): idempotence, monotonicity, half-quantum bound, bracket, odd symmetry, representable => '
              'unchanged, ties away from zero, for every m in -M..M at scale 4 x digit counts -3..6; it enumerates the decimal grid sign x integer '
              'part x 4 fractional digits with the exact result of each function for each digit count and of x%. Binding: every grid decimal is '
              'supplied to the real pipeline as an override (all), workbook cell, literal, with the digit count from a cell (samples) and through '
              'the public file path; results are compared in exact decimal mode (the shortest repr of the returned double must be the exact decimal '
              'result); random decimals up to 9 significant digits are recomputed by TLC from recorded events (Trace_C16), and decimals of 10 to 15 significant '
              'digits (ties, runs of nines, neighbours of grid points) by the digit-level operators of XlRoundingBig (Trace_C16B; AgreeSmall ties them to XlRounding).'),
        design_ref='§7 C16',
        note=NOTE_COMMON + 'TLC integers are 32-bit: grid |x| < 1235 with 4 fractional digits, random decimals <= 9 significant digits; the nearest-double clause is carried by the abstraction function (repr round trip).',
        technique='TLA+ exact-decimal oracle with TLC-checked laws, TLC-enumerated grid replayed, trace validation'),
    'C15': dict(
        category='model_checking',
        text=('TLC validates the calendar oracle (XlCalendar: era arithmetic for serial <-> civil date, DATE normalisation, EDATE/EOMONTH, '
              'DATEDIF D/M/Y/YM, NETWORKDAYS with a holiday set) against definitions that step day by day and month by month '
              '(CivilRoundTrip, ConsecutiveDays, Anchors, DateNormLaws, YmdInvert, EoMonthIsLast, EDateClamps, EDateStepwise, '
              'DateDifDefinitions, NetworkDaysLaws) for every day of a year window x month offsets -14..27, and enumerates the grids: DATE over '
              'years x months -14..27 x days -70..99, EDATE/EOMONTH over start dates x offsets -60..60, DATEDIF over ordered date pairs of a '
              'multi-year grid, NETWORKDAYS over all pairs of a window x all subsets of 4 holidays. Binding: every row is replayed on the real '
              'pipeline by overrides (YEAR/MONTH/DAY of every DATE result included), samples as cells, literals and through the public file '
              'path; random arguments far outside the grid (years 1901..9990) are recomputed by TLC from recorded events (Trace_C15).'),
        design_ref='§7 C15',
        note=NOTE_COMMON + 'TODAY is compared with the system clock (before/after), not by TLC. Results outside 1900-03-01..9999-12-31, two-digit years and the Jan 31 -> Feb 28 month-count ambiguity are out of scope.',
        technique='TLA+ calendar oracle validated by TLC against stepwise definitions, TLC-enumerated grids replayed, trace validation'),
    'C17': dict(
        category='model_checking',
        text=('TLC checks the substring algebra of the statement on the text oracle (XlText, texts as sequences of character codes): '
              'LeftMidRebuild, LeftLen, RightMirror, MidBounds, NegativeIsError, SEARCH against a naive definition (plain, *, ?, ~ escapes, start '
              'range), VALUE inverting the text form, for every text up to length L over a mixed-case alphabet with wildcard characters x counts / '
              'positions -1..L+2 x every find text up to length 2; it enumerates LEFT/RIGHT/MID rows for every text, SEARCH for every (pattern, text) x '
              'start, &/CONCATENATE operand vectors (text, integer, decimal, date, blank) and VALUE on a numeric grid. Binding: every row is '
              'replayed on the real pipeline by overrides, samples as literals (wildcard literals as SEARCH patterns included) and through the '
              'public file path; random longer texts with regex metacharacters are recomputed by TLC from recorded events (Trace_C17), incl. the '
              'rebuild identity.'),
        design_ref='§7 C17',
        note=NOTE_COMMON + 'An empty text delivered as the library\'s blank is accepted as equal to ""; a ~ not followed by ? * ~, SEARCH inside an empty text and non-text first arguments are out of scope.',
        technique='TLA+ text oracle with TLC-checked substring algebra, TLC-enumerated rows replayed, trace validation'),
    'C11': dict(
        category='model_checking',
        text=('TLC checks the statement\'s algebra on the aggregate oracle (XlAggregates: ordered bag of the numeric cells of every argument, in quarter '
              'units): SplitInvariance (SUM(X,Y)=SUM(X)+SUM(Y) for every split of the block, also for count/min/max), OncePerMention, '
              'NonNumericIgnored, ScalarCounts, CountBlankExact, MinLeMax, AndOrFold, for every assignment of 9 content kinds to a 2x2 block; it '
              'enumerates every assignment of kinds to an R x 2 block with the folds of 13 formula shapes (row, column, rectangle, whole column(s), '
              'several areas, same area twice, other sheet, scalars, single cells, overlap) exported by the specification itself. Binding: '
              'SUM/AVERAGE/MIN/MAX/COUNT/COUNTBLANK of every shape are evaluated by the real pipeline with block contents as overrides and compared '
              'with the folds (plus SUM(X,Y) vs SUM(X)+SUM(Y) inside the same workbook); AND/OR over all operand vectors as cells and literals; samples '
              'through the public file path; random 4x3 blocks with random rectangles are judged by TLC from recorded events (Trace_C11).'),
        design_ref='§7 C11',
        note=NOTE_COMMON + 'Dates inside areas, folds over no numeric cell (AVERAGE/MIN/MAX), text/blank operands of AND/OR are out of scope (the statement or Excel leave them open).',
        technique='TLA+ aggregate oracle with TLC-checked algebra, TLC-enumerated content assignments x shapes replayed, trace validation'),
    'C14': dict(
        category='model_checking',
        text=('TLC checks the lookup oracle (XlLookup) against the statement: ExactIsFirst, ExactLastIsLast, ApproxIsMaxLE, ApproxAboveAll, '
              'ApproxExtendsExact, IndexMatchPartner over all key columns up to length L over 4 key values x 9 lookup values, and the column-letter '
              'bijection (letters <-> number, ColLetters = spelling of the digit sequence) for every column 1..16384; it enumerates every key column '
              '(numbers: ascending, unsorted, duplicates; texts) x lookup value with the row each mode must return, INDEX over all (r, c) in '
              '-1..rows+1 x -1..cols+1 for 9 area shapes, ADDRESS/column letters for all 16384 columns. Binding: VLOOKUP (3 spellings per mode, 2 '
              'result columns), MATCH (with / without match type), XMATCH (forward, from the end), INDEX(MATCH) are replayed by overrides on probe '
              'workbooks, INDEX with indices as literals and cells, ADDRESS with literals and cells, COLUMN of spec-spelled references and of the '
              'formula\'s own cell; a sample through the public file path; random longer key columns are judged by TLC (Trace_C14).'),
        design_ref='§7 C14',
        note=NOTE_COMMON + 'Quick tier replays ADDRESS/COLUMN on column blocks around the letter-count boundaries, thorough on all 16384 columns. Approximate matching on non-ascending keys, MATCH type -1, case-variant text keys, INDEX with a zero index are out of scope.',
        technique='TLA+ lookup oracle with TLC-checked laws, TLC-enumerated key columns / index grids / column letters replayed, trace validation'),
    'C13': dict(
        category='model_checking',
        text=('The specification contains a lazy evaluator with error values for IF/3, IF/2, IFS and IFERROR nests (XlLogic.Eval). TLC enumerates '
              'every nest of depth <= 1 and the depth-2 nests with one nested child over leaves {7, 9, failing expression, #N/A value} and three '
              'condition kinds, checks on every enumerated nest the laws of the statement as invariants (UntakenBranchIrrelevant: replacing the branch '
              'not taken by a failing expression never changes the value; IfErrorPassThrough; IfsFirstTrue / none => #N/A), and exports the value '
              'under all 8 truth assignments, bare and embedded (T+1, 1+T, -T, T%, SUM(T,1), ROUND(T,0), 2*T). Binding: every nest is concretised to '
              'formula text, translated by the real pipeline and evaluated under every truth assignment (conditions supplied by overrides: boolean '
              'cell, numeric cell, comparison); a sample through the public file path; random depth-3 nests are evaluated by TLC from recorded '
              'events (Trace_C13).'),
        design_ref='§7 C13',
        note=NOTE_COMMON + 'Embedded positions are compared only when the nest yields a number; a raised exception during evaluation counts as an error value. Function-argument embeddings only for depth <= 1 (parser cost).',
        technique='TLA+ lazy evaluator with TLC-checked laws as invariants over all enumerated nests, nests replayed, trace validation'),
    'C12': dict(
        category='model_checking',
        text=('TLC checks the criteria oracle (XlCriteria.Accepts over numeric / text / blank cells, 6 operators, wildcard patterns with whole-cell '
              'case-insensitive matching) for Complement, OrderingOnlyNumbers, NumberCriterionRejectsText, TextCriterionRejectsNumbers, '
              'PlainIsCaseInsensitiveEquality, WildcardLaws and SelectionIsConjunction, and enumerates every criteria column of 3 cells x 36 criteria with '
              'the selected positions (alone and with a fixed second pair) and, per spelling of the criterion in the formula, the open findings whose '
              'Guard holds. Binding: SUMIF (2/3 arguments), SUMIFS, COUNTIFS, AVERAGEIFS with one and two pairs in both orders and the mis-sized variants '
              '(must be an error outcome) are evaluated by the real pipeline with column contents as overrides and compared with select-then-fold over '
              'the spec\'s selection; random longer columns with 1..3 pairs are observed through SUMIFS over a power-of-two target column and judged by '
              'TLC (Trace_C12).'),
        design_ref='§7 C12',
        note=NOTE_COMMON + 'Open findings C12-F1 (operator prefixes only parsed in "<op><number>" literals), C12-F2 (ordering criterion vs text cell raises), C12-F3 (blank counted as 0), C12-F4 (truth values compared as 1 / 0) with spec-computed guards; in the enumerated part the deviant outcome is modelled exactly (XlCriteria!ImplAccepts): a case inside a guard whose observation is neither the ideal nor the modelled deviation is a VIOLATION; the random trace part attributes by guard only. Numeric-looking and calendar-word texts are kept out (dateutil clock hazard).',
        technique='TLA+ criteria oracle with TLC-checked laws, TLC-enumerated columns x criteria x spellings replayed, trace validation'),
    'C07': dict(
        category='model_checking',
        text=('The specification states the obligation on any emitter of Python text on a model of Python\'s short string literal (PyString: Quote = ideal '
              'emitter, Unquote = lexer with backslash escapes, closing quote, raw newline): TLC checks QuoteIsInert and NoPrefixCloses for every text up to '
              'length L over {a \' " \\ newline # { } % * ? ~ ( ) + n} and that the naive emitter (quotes around the raw text) fails on the anchors; it '
              'enumerates every such text. Binding: each text is planted raw and wrapped in letters in a constant cell, a plain formula literal, a literal next to '
              'another literal, a criterion, a SEARCH pattern and a sheet title, with the safety check on and off, plus a payload corpus that calls a canary '
              'builtin; per case the outcome class, the canary count after load and after evaluating every member, the AST shape of the module against the '
              'same workbook with a benign text, and the evaluated value are recorded and judged by TLC (Trace_C07, PyString.Verdict); payloads also go '
              'through real xlsx files, Parser with safety on/off and Executor(class_file).'),
        design_ref='§7 C07',
        note=NOTE_COMMON + 'CPython compile/exec is the trusted model of "executable"; taint is an AST-shape comparison (constants normalised); for formula positions it is applied only to texts without a double quote (which ends the Excel literal).',
        technique='TLA+ model of Python string-literal lexing with TLC-checked emitter obligation, TLC-enumerated texts planted and observed, trace validation'),
    'C02': dict(
        category='model_checking',
        text=('The specification contains the reference language twice: a printer (structured reference -> text: optional word / quoted title prefix, $ '
              'markers, bijective base-26 column letters, rows, cell / area / whole-column forms) and a character-level parser of reference text, plus the '
              'denotation (coordinates in row-major order; the own sheet of the formula without prefix; whole columns over the used rows). TLC enumerates '
              'references over columns A..XFD x rows 1..99999 x shapes x prefixes x $ combinations x own sheet and checks on every one RoundTrip (parse(print) '
              '= reference) and AreaCardinality (size, strict row-major order, single sheet). Binding: each reference is read through =ref, INDEX at every '
              'position, SUM, COUNT, SUMIFS, VLOOKUP / MATCH argument positions on a three-sheet workbook whose cells hold numbers encoding their own '
              'coordinate (neighbours planted too, blanks inside whole-column areas): the coordinates read must be exactly the denotation, in order; '
              'references to titles that do not exist must be rejected; random reference texts over random title sets and sheet orders are parsed and '
              'denoted by the specification itself (Trace_C02); a sample goes through a real xlsx file.'),
        design_ref='§7 C02',
        note=NOTE_COMMON + 'Titles containing a quote character are out of scope. The in-memory workbook mirrors the structure Excel.parse delivers (C18 checks the reader).',
        technique='TLA+ reference printer + parser + denotation with TLC-checked round trip, TLC-enumerated references replayed on coordinate-encoding workbooks, trace validation'),
    'C18': dict(
        category='model_checking',
        text=('The specification states what the reader must deliver (Workbook: content at every coordinate, size = bounding box of the stored cells, titles in '
              'workbook order). TLC enumerates workbook layouts - 1..3 sheets, subsets of a 3x3 corner grid plus beacons at D7, AA1, A100, XFD3, ten content kinds '
              'rotated over the cells - and checks WellFormed and SizesAreBoundingBox on each. Binding: every layout is written to a real xlsx file and read '
              'through Parser.write_translation + Executor(class_file); titles, sizes, and the value and type at every coordinate of the bounding box plus one '
              'ring are recorded and judged by TLC (Trace_C18: At / SizeOf / title order).'),
        design_ref='§7 C18',
        note=NOTE_COMMON + 'openpyxl is both writer and decoder: dates come back as date-times at midnight, array formulas are compared by their value, floats carry a fractional part.',
        technique='TLA+ reader specification, TLC-enumerated layouts written to real files, trace validation of what the public path delivers'),
    'C19': dict(
        category='model_checking',
        text=('The specification contains the gate at character level (Workbook.Judge: call-syntax fragments found left to right, upper-case exemption, mixed cells '
              'out of scope) and the report key (quoted title + A1 address of the true coordinate, letters by the bijective base-26 printer). TLC enumerates '
              'placements of 1..2 fragments out of 11 on a 4x5 grid of two sheets with the verdict per cell. Binding: every placement is written to a real xlsx '
              'file and the gate is exercised enabled and disabled (Excel.parse + is_safe for all, Parser.get_translation for a sample); exception type and the '
              'suspicious_cells mapping are judged by TLC (Trace_C19: raised <=> enabled and something listed; keys and fragments exact).'),
        design_ref='§7 C19',
        note=NOTE_COMMON + 'Placements are a fixed residue class of the coordinate grid (quick 1/40, thorough 1/4).',
        technique='TLA+ character-level gate specification, TLC-enumerated placements written to real files, trace validation of exception and report'),
    'C20': dict(
        category='model_checking',
        text=('The two runtime copies are two renderings of one helper interface (Runtime2: SameHelpers, Agree). The argument vectors are the ones the '
              'specification generates for the other properties, taken at helper level - Gen_C10 pairs x 6 operators, Gen_C16 decimals x digit counts, Gen_C15 '
              'rows (DATE, EDATE/EOMONTH, DATEDIF incl. MD/YD, NETWORKDAYS), Gen_C17 rows (LEFT/RIGHT/MID, SEARCH, VALUE, text forms), Gen_C11 blocks, Gen_C14 key '
              'columns (all match / search modes incl. binary search, VLOOKUP columns beyond the table), all INDEX index pairs, ADDRESS columns, Gen_C12 columns x '
              'criteria as callables - plus listed vectors for the remaining helpers (every helper of the base class has at least one). Each vector is applied to '
              'AbstractExcelInPython() and to an instance of a class generated from the working tree; the helper-name sets and the digests of each pair of '
              'outcomes (canonical value text or exception type) are judged by TLC (Trace_C20).'),
        design_ref='§7 C20',
        note=NOTE_COMMON + 'Agreement only: what the helpers should return is decided by C10-C17. Blank cells inside vectors are instantiated per copy from its own EmptyCell class.',
        technique='TLC-generated helper-level vectors applied to both runtime copies, agreement judged by TLC trace validation (Runtime2.Agree)'),
}

NOT_APPLICABLE = {}


def main():
    props = [json.loads(l)['id'] for l in open(os.path.join(VERIF, 'properties.jsonl'))]
    checks = []
    for pid in props:
        if pid not in CHECKS:
            continue
        c = CHECKS[pid]
        checks.append({
            'property_id': pid,
            'quick_cmd': f'./check {pid} --tier quick',
            'thorough_cmd': f'./check {pid} --tier thorough',
            'evidence_file': f'evidence/{pid}.json',
            'replay_cmd_template': f'./check {pid} --replay {{path}}',
            'engine': 'tlc+harness',
            'level_claimed': {'category': c['category'], 'text': c['text'], 'design_ref': c['design_ref']},
            'level_note': c['note'],
            'technique': c['technique'],
        })
    na = []
    for pid in props:
        if pid not in CHECKS:
            na.append({'property_id': pid, 'reason': NOT_APPLICABLE.get(pid, 'check under construction in this round - not claimed yet')})
    man = {
        'version': 1,
        'setup_cmd': './check setup',
        'hooks': {
            'guard': 'EXCEL2PYCL_VERIF',
            'enable': 'environment variable EXCEL2PYCL_VERIF=1 (set by ./check); python package, nothing to build',
            'baseline_off_cmd': 'cd /repo && env -u EXCEL2PYCL_VERIF /venv/bin/python -m pytest -ra -q -p no:cacheprovider --timeout=900 --continue-on-collection-errors',
            'source_commits': [],
            'add_only': True,
        },
        'engines': [
            {'name': 'tlc', 'path': '/opt/veriftools/tla/tla2tools.jar', 'serves_properties': sorted(CHECKS),
             'kind_free_text': 'TLC 1.8 explicit-state model checker: exhaustive checks of the TLA+ specification, generation of behaviours, validation of recorded traces'},
            {'name': 'harness', 'path': 'harness/', 'serves_properties': sorted(CHECKS),
             'kind_free_text': 'python (/venv): replays TLC behaviours into /repo working tree, records traces, abstraction function, verdict rule'},
        ],
        'checks': checks,
        'notes': 'See DESIGN.md. exit 0 = held; exit 1 + VIOLATION line = violation; exit 2 = machinery failure. known_findings.txt lists recorded defects and fix commits.',
        'not_applicable': na,
    }
    with open(os.path.join(VERIF, 'MANIFEST.json'), 'w') as f:
        json.dump(man, f, indent=1)
    print('MANIFEST.json:', len(checks), 'checks,', len(na), 'not claimed')


if __name__ == '__main__':
    main()
