"""Abstraction function: Python results <-> JSON form of the spec's value universe (XlValues).

  {"k":"blank"} {"k":"num","n":N,"d":D} {"k":"dec","m":M,"s":S} {"k":"text","c":[codes]}
  {"k":"bool","b":..} {"k":"date","d":serial,"t":secs} {"k":"err","e":CODE} {"k":"list","v":[..]}
  {"k":"other","t":pytype}

Deliberately small: it is part of the trusted base (DESIGN §4).
"""
import datetime
import math
from decimal import Decimal
from fractions import Fraction

EPOCH = datetime.datetime(1899, 12, 30)
ERRS = {'#N/A': 'NA', '#VALUE!': 'VALUE', '#REF!': 'REF', '#DIV/0!': 'DIV0', '#NUM!': 'NUM', '#NAME?': 'NAME',
        '#NULL!': 'NULL', '#ERROR!': 'ERROR', '#DIV0!': 'DIV0'}
INT_LIMIT = 2 ** 31 - 1


def is_empty_cell(v):
    return type(v).__name__ == 'EmptyCell'


def text(s):
    return {'k': 'text', 'c': [ord(ch) for ch in s]}


def to_spec(v, mode='rat', max_den=10 ** 4):
    """mode 'rat': floats snapped to small rationals; mode 'dec': floats by shortest repr decimal."""
    if is_empty_cell(v):
        return {'k': 'blank'}
    if v is None:
        return {'k': 'blank'}
    if isinstance(v, bool):
        return {'k': 'bool', 'b': v}
    if isinstance(v, int):
        if abs(v) > INT_LIMIT:
            return {'k': 'other', 't': 'bigint'}
        return {'k': 'num', 'n': v, 'd': 1} if mode == 'rat' else {'k': 'dec', 'm': v, 's': 0}
    if isinstance(v, float):
        if math.isnan(v) or math.isinf(v):
            return {'k': 'other', 't': 'nonfinite'}
        if mode == 'dec':
            return dec_of_float(v)
        f = Fraction(v).limit_denominator(max_den)
        if abs(f.numerator) > INT_LIMIT:
            return {'k': 'other', 't': 'bigfloat'}
        if v == 0 or abs(float(f) - v) <= 1e-12 * max(1.0, abs(v)):
            return {'k': 'num', 'n': f.numerator, 'd': f.denominator}
        return {'k': 'other', 't': 'float:' + repr(v)}
    if isinstance(v, str):
        if v in ERRS:
            return {'k': 'err', 'e': ERRS[v]}
        return text(v)
    if isinstance(v, datetime.datetime):
        d = v - EPOCH
        return {'k': 'date', 'd': d.days, 't': d.seconds}
    if isinstance(v, datetime.date):
        d = datetime.datetime(v.year, v.month, v.day) - EPOCH
        return {'k': 'date', 'd': d.days, 't': 0}
    if isinstance(v, (list, tuple)):
        return {'k': 'list', 'v': [to_spec(x, mode, max_den) for x in v]}
    return {'k': 'other', 't': type(v).__name__}


def dec_of_float(v):
    """Exact decimal mode: the shortest repr of a double identifies it, and for every decimal
    with <= 15 significant digits, repr(double nearest to it) is that decimal."""
    d = Decimal(repr(v))
    sign, digits, exp = d.as_tuple()
    m = int(''.join(map(str, digits))) * (-1 if sign else 1)
    s = -exp
    if s < 0:
        m *= 10 ** (-s)
        s = 0
    while s > 0 and m % 10 == 0:
        m //= 10
        s -= 1
    if abs(m) > INT_LIMIT:
        return {'k': 'other', 't': 'dec:' + repr(v)}
    return {'k': 'dec', 'm': m, 's': s}


def norm_dec(m, s):
    while s > 0 and m % 10 == 0:
        m //= 10
        s -= 1
    return {'k': 'dec', 'm': m, 's': s}


def from_spec(j):
    """Spec JSON value -> Python value suitable as a workbook constant / override."""
    k = j['k']
    if k == 'blank':
        return None
    if k == 'num':
        return j['n'] if j['d'] == 1 else j['n'] / j['d']
    if k == 'dec':
        if j['s'] == 0:
            return j['m']
        return float(Decimal(j['m']).scaleb(-j['s']))
    if k == 'text':
        return ''.join(chr(c) for c in j['c'])
    if k == 'bool':
        return j['b']
    if k == 'date':
        return EPOCH + datetime.timedelta(days=j['d'], seconds=j.get('t', 0))
    if k == 'err':
        inv = {v: k2 for k2, v in ERRS.items() if k2 not in ('#DIV0!',)}
        return inv[j['e']]
    if k == 'list':
        return [from_spec(x) for x in j['v']]
    raise ValueError(j)


def same(a, b):
    """Equality of two spec JSON values; 'num' and 'dec' compare by exact value; err ANY matches any err."""
    if a is None or b is None:
        return a is b
    ka, kb = a['k'], b['k']
    if ka == 'other' or kb == 'other':
        return False
    if ka in ('num', 'dec') and kb in ('num', 'dec'):
        return _frac(a) == _frac(b)
    if ka != kb:
        return False
    if ka == 'err':
        return a['e'] == b['e'] or 'ANY' in (a['e'], b['e'])
    if ka == 'list':
        return len(a['v']) == len(b['v']) and all(same(x, y) for x, y in zip(a['v'], b['v']))
    if ka == 'date':
        return a['d'] == b['d'] and a.get('t', 0) == b.get('t', 0)
    if ka == 'text':
        return a['c'] == b['c']
    if ka == 'bool':
        return a['b'] == b['b']
    return True


def _frac(j):
    if j['k'] == 'num':
        return Fraction(j['n'], j['d'])
    return Fraction(j['m'], 10 ** j['s'])


def show(j):
    if j is None:
        return 'None'
    k = j.get('k')
    if k == 'text':
        return repr(''.join(chr(c) for c in j['c']))
    if k == 'num':
        return str(j['n']) if j['d'] == 1 else f"{j['n']}/{j['d']}"
    if k == 'dec':
        return str(Decimal(j['m']).scaleb(-j['s']))
    if k == 'err':
        return '#' + j['e']
    if k == 'list':
        return '[' + ', '.join(show(x) for x in j['v']) + ']'
    if k == 'date':
        return f"date({j['d']},{j.get('t', 0)})"
    if k == 'bool':
        return 'TRUE' if j['b'] else 'FALSE'
    return str(j)


def obs_outcome(kind, payload, mode='rat'):
    """Project a raw harness result ('val'|'eexc'|'texc', payload) to an Outcome record."""
    from harness.repo import outcome_of_exception
    if kind == 'val':
        return {'o': 'value', 'v': to_spec(payload, mode)}
    if kind == 'eexc':
        return {'o': 'value', 'v': {'k': 'err', 'e': 'ANY'}, 'exc': type(payload).__name__}
    return outcome_of_exception(payload)
