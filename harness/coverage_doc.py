"""python -m harness.coverage_doc  ->  /verif/spec/COVERAGE.md

Clause checklist of DESIGN Appendix E, ticked: for every clause of every property the specification operator(s) that state it,
the TLC obligation (invariant / property / generator law) and the binding that carries it to the real code. The second half of
each section is generated from the evidence files of the last run (TLC runs with their state counts and per-action coverage,
the parts of the conformance run, what was exhaustive)."""
import json
import os
import re

VERIF = os.path.dirname(os.path.dirname(os.path.abspath(__file__)))

# clause -> (specification, binding)
CLAUSES = {
    'C01': [
        ('precedence table, left associativity, brackets', 'XlFormula: PCmp / PCat / PAdd / PMul / PUn / PPct (precedence climbing); MC_XlFormula: Grouping', 'A: Gen_C01 every token sequence up to the bound x C01Envs; B: Trace_C01 random longer formulas'),
        ('unary sign scope, postfix %', 'XlFormula: PUn, PPct; law UnaryScope', 'A: Gen_C01'),
        ('& text forms (numbers, truth values, blanks, dates)', 'XlFormula: XAmp / TextForm', 'A: Gen_C01 (text operands), C17 CONCAT part'),
        ('numeric literal = nearest double', 'Gen_C01Lit: decimal texts with their exact rational value', 'A: literal part (38 k literals), compared with fractions.Fraction'),
        ('operands from workbook / override, blank = 0', 'C01Envs; law BlankIsZero', 'A: every case replayed in cell mode and override mode'),
    ],
    'C02': [
        ('relative / $, bare / unquoted / quoted prefix', 'XlRefs: RefCodes (printer), ParseRef (character-level parser); invariant RoundTrip', 'A: Gen_C02 NEAR'),
        ('cell, row, column, rectangle, whole column; row-major order', 'XlRefs: Denote, Rows / ColsOf; invariant AreaCardinality', 'A: NEAR / WCOL / BEYOND: INDEX at every position, SUM, COUNT, SUMIFS, VLOOKUP, MATCH'),
        ('columns A..XFD, rows to 5 digits', 'Gen_C02 coordinates (1-3 letters, 1-5 digits)', 'A: far workbooks; B: Trace_C02 random references'),
        ('blanks inside areas; cells beyond the used range', 'Denote on planted rings', 'A: BEYOND'),
        ('unknown title rejected; two prefixed references in one formula', 'XlRefs: ParseRef on unknown titles -> reject', 'A: unknown_titles; cell-then-area formulas'),
    ],
    'C03': [
        ('closure through every reference form and across sheets', 'Translator: Closure; invariants Closed, SliceClosed, SliceMinimal', 'A: Gen_C03 every graph on the node set x every entry; member set read from the class text'),
        ('slice value = whole-workbook value', 'Translator (memoised DFS) refines the closure', 'A: values of every slice member vs whole translation; twin sheets; 0 / FALSE leaves, COUNT over areas'),
        ('cycles => parser exception, bounded', 'Translator: RejectIffCyclic, NoForeignOutcome, Terminates; pinned-variant census', 'A: cyclic graphs; B: Trace_C03 random graphs'),
    ],
    'C04': [
        ('last write wins across and inside batches', 'Executor: LastWriteWins; ExecutorImpl Refines (fixed) / pinned census', 'A: Gen_C04 every batch sequence up to the bound; hash seeds'),
        ('overridden formula (errors included) is its constant; typed values; cleared cells', 'Executor: OverriddenIsConstant; Workbook4: OvVal', 'A: Gen_C04_types, Gen_C04_cleared'),
        ('blank and out-of-range targets; untouched cells keep meaning', 'Executor: UntouchedKeepMeaning; Workbook4: SizeOf', 'A: Gen_C04_far; fresh-translation oracle sample'),
        ('a rejected call changes nothing', 'Executor: RejectedSet; ExecutorImpl: marks, MarksAreOverrides; eager_sizes census', 'A: rejected calls inside replays; B: Trace_C04 rejected events'),
        ('"an executor": several executors over one translation (class object shared / file loads separate) do not see each other; a new executor and a bare instance report the workbook', 'E2P: Isolation, NewStartsFromWorkbook, QueriesArePure, UntoldReportsWorkbook, WholeColumnFollowsOwnRows; E2PImpl Refines (fixed) / class_sizes, executor_copies, class_args censuses', 'A: Gen_E2P every history of new / drop / set steps with the snapshot of every live executor; B: Trace_E2P random interleavings over three executors'),
    ],
    'C05': [
        ('whole text consumed or parser exception', 'ImplGrammar: Accept (CFG) vs Get (first match): InvWholeOrLib; pinned census', 'A: Gen_C05 token soups and mutations'),
        ('no extra / missing arguments', 'ImplGrammar + TokenSetsData (the token sets as data)', 'A: arity part (Gen_C05M)'),
        ('which bracket closes which: groups joined by an operator or a separator, nested and wrapped', 'Gen_C05M mode groups with the CFG verdict (Accept)', 'A: groups part (4 contexts, thorough 7)'),
        ('no part of an accepted formula is dropped (also inside criteria); the reader hands the text on unchanged', 'marker literals (7000 + position) in every generated text; FOREIGN runs', 'A: dropped_literals oracle on every accepted case; foreign_runs through a workbook file'),
        ('whitespace, , vs ;', 'Gen_C05: spellings of one token sequence', 'A: whitespace part; B: Trace_C05'),
    ],
    'C06': [
        ('terminates; library exception or loadable text; no foreign exception', 'Gen_C06: Expected(descriptor) within {ok, lib}; invariant Total', 'A: descriptors (titles x constants x formulas x placement); token soups'),
        ('titles, sizes, one member per cell; file load = class object', 'Gen_C06 + check_ok_text', 'A: every ok outcome is loaded from file and as object'),
        ('no hang', 'wall-clock bound; finding C06-F1', 'A: nesting part'),
        ('facade state machine', 'ParserFacade / ParserFacadeImpl', 'A: repeated rejected requests'),
    ],
    'C07': [
        ('constants, literals, criterion / pattern positions, titles; gate on / off', 'PyString: Quote / Unquote / Verdict; invariants QuoteIsInert, NoPrefixCloses', 'A: Gen_C07 every text up to L over 16 characters x 6 positions x gate'),
        ('exact string round-trip; nothing executed', 'Trace_C07: value, taint (AST shape), canary', 'B: every observation; public path with real files; twin formula / text cells'),
    ],
    'C08': [
        ('order / repetition independence; three APIs; addressing spellings', 'Executor: QueriesArePure, GridIsBox', 'A: Gen_C08 schedules replayed under 4 addressing styles, warm-up, lazy replays'),
        ('queries never change overrides or sizes; grid = used range + overrides', 'Executor: SizesGrow, GridIsBox; RejectedSet', 'A + B: Trace_C04 (ovmap, sizes events)'),
    ],
    'C09': [
        ('path, entry, safety take effect on the next call; idempotent repeat; file = text', 'ParserFacade (ideal) / ParserFacadeImpl (cache flags) refinement', 'A: Gen_C09 histories on real files'),
        ('processes, hash seeds, earlier translations, threads', 'TokenTables: lazy initialisation interleavings', 'A: subprocess sweeps, thread part; B: Trace_C09'),
        ('the whole pipeline: a file replaced under its path, the cached text, the written class file, executors from file / text while the file keeps changing', 'E2PW: ExecutorKeepsItsWorkbook, PipelineLeavesOverridesAlone, TextStableUntilAnnounced, TextIsCurrentAfterAnnounce, FileEqualsText, VersionsDiffer; E2PWImpl Refines + 3 censuses; ApaPipeline: IndInv inductive (Apalache)', 'A: Gen_E2PW every pipeline history of 5 / 6 steps; B: Trace_E2PW random pipeline histories (version observed through a marker cell)'),
    ],
    'C10': [
        ('exact numeric order; trichotomy; negations; a<b <=> b>a', 'XlCompare: Cmp3; laws as predicates on six observed booleans (MC_XlCompare)', 'A: Gen_C10 grid pairs (literal, cell, override); B: Trace_C10'),
        ('blank clauses; date = date-time at midnight', 'XlCompare: blank rows of the table; C10Grid', 'A: grid incl. dates with times of day'),
    ],
    'C11': [
        ('five folds over any area mix + scalars; ignored kinds; once per mention', 'XlAggregates: Bag, folds; MC_XlAggregates laws', 'A: Gen_C11 contents x argument shapes (scalar first, other sheet, whole column)'),
        ('COUNTBLANK, AND / OR, split invariance', 'XlAggregates: CountBlank, AndOr, SplitInvariance', 'A: shapes; B: Trace_C11 random blocks'),
    ],
    'C12': [
        ('three criterion forms x four functions; conjunction; alignment', 'XlCriteria: Accepts, Sel; MC_XlCriteria laws', 'A: Gen_C12 columns x criteria x spellings x 16 formula shapes; truth values'),
        ('size mismatch is an error', 'formula shapes with unequal ranges', 'A: shapes 9-14'),
        ('open findings', 'XlCriteria: Guards, GuardsSum', 'verdict rule'),
    ],
    'C13': [
        ('IF/3, IF/2, laziness; IFS first true, #N/A; IFERROR', 'XlLogic: Eval (lazy), Laws on generator states', 'A: Gen_C13 nests x environments x embeddings; error constants'),
        ('any depth, any position', 'XlLogic: OneNestedOf, embeddings', 'B: Trace_C13 random nests; sessions on one Executor'),
    ],
    'C14': [
        ('exact / from the end / approximate', 'XlLookup: ExactFirst, ExactLast, ApproxRow (+B variants for blanks, T variants for texts)', 'A: Gen_C14 LOOKUP / LOOKUPB / TEXT'),
        ('INDEX, INDEX(MATCH)', 'XlLookup: Index, ValueAt', 'A: INDEX all (r, c)'),
        ('COLUMN, ADDRESS 1..16384', 'XlLookup: ColLetters, Address, ColumnOfArea', 'A: ADDRESS blocks, COLAREA, COLUMN()'),
    ],
    'C15': [
        ('DATE normalisation; YEAR / MONTH / DAY inverse', 'XlCalendar: Serial, Civil, DateOf; MC laws', 'A: Gen_C15 grid; B: Trace_C15; sessions'),
        ('EDATE, EOMONTH, DATEDIF, NETWORKDAYS, TODAY', 'XlCalendar: EDate, EoMonth, DateDif, NetworkDays', 'A + B'),
    ],
    'C16': [
        ('ROUND / ROUNDUP / ROUNDDOWN, ties, representable unchanged; %', 'XlRounding on scaled decimals; MC_XlRounding laws', 'A: Gen_C16 grid x digits; B: Trace_C16 (sessions)'),
    ],
    'C17': [
        ('LEFT / RIGHT / MID, rebuild identity', 'XlText: Left, Right, Mid; law Rebuild', 'A: Gen_C17; B: Trace_C17'),
        ('SEARCH, wildcards, #VALUE!; & / CONCATENATE; VALUE', 'XlText: Search, MatchAt, TextForm, ValueOf', 'A + B'),
    ],
    'C18': [
        ('coordinates under gaps, types, sheet order, titles, sizes, array formulas, empty sheets, chart sheets', 'Workbook: SizeOf, At, WellFormed, Tabs / WorksheetTitles; Gen_C18 Laws', 'A: layouts written to real files; B: Trace_C18'),
    ],
    'C19': [
        ('listed <=> call syntax without upper-case call; title and A1 address; fragments', 'Workbook: Fragments, HasUpperCall, Judge', 'A: Gen_C18 GATE placements in real files; B: Trace_C19'),
        ('innocent workbooks pass; disabled => never raised', 'Trace_C19: raised <=> enabled and listed', 'A + B; toggled Parser'),
    ],
    'C20': [
        ('same helper set; same result or exception type', 'Runtime2: SameHelpers, Agree; vectors from the function specifications', 'A: vectors from Gen_C10..C17 fed to both copies; B: Trace_C20'),
    ],
}


def main():
    out = ['# Specification coverage', '',
           'Generated by `python -m harness.coverage_doc` from the clause table in that file and from `/verif/evidence/*.json` (last run).',
           'A = specification -> code (TLC-enumerated cases replayed into the real code); B = code -> specification (recorded events judged by a `Trace_*` module).', '']
    for pid in sorted(CLAUSES):
        out += [f'## {pid}', '', '| clause | specification | binding |', '|---|---|---|']
        for c, s, b in CLAUSES[pid]:
            out.append(f'| {c} | {s} | {b} |')
        ev_path = os.path.join(VERIF, 'evidence', pid + '.json')
        if os.path.exists(ev_path):
            ev = json.load(open(ev_path))
            cov = ev.get('coverage', {})
            out += ['', f"Last run: tier {ev.get('tier')}, {cov.get('evaluations')} evaluations ({cov.get('distinct_nontrivial')} non-trivial), "
                        f"{cov.get('states')} TLC states, {cov.get('traces_validated_against_impl')} conformance items, "
                        f"{sum(cov['known_finding_cases'].values()) if isinstance(cov.get('known_finding_cases'), dict) else cov.get('known_finding_cases', 0)} cases attributed to open findings, {ev.get('violations') if isinstance(ev.get('violations'), int) else len(ev.get('violations', []))} violations.", '']
            out += ['| TLC run | module | distinct states | exported cases | actions taken (count) |', '|---|---|---|---|---|']
            for r in cov.get('tlc_runs', [])[:40]:
                acts = ', '.join(f"{k} {v[0]}" for k, v in sorted((r.get('coverage') or {}).items()) if k != 'Init')
                out.append(f"| {r.get('tag')} | {r.get('module')} | {r.get('distinct')} | {r.get('records')} | {acts or '-'}{' **violated as expected (census)**' if r.get('violated') else ''} |")
            parts = cov.get('parts') or {}
            if parts:
                out += ['', 'Conformance parts: ' + ', '.join(f'{k} {v}' for k, v in sorted(parts.items())) + '.']
            ex = cov.get('exhaustive_parts') or cov.get('exhaustive')
            if isinstance(ex, dict) and ex:
                out += ['', 'Exhaustive within the bound: ' + '; '.join(k for k, v in ex.items() if v) + '.']
        # invariants named in the harness source
        src = open(os.path.join(VERIF, 'harness', 'props', pid.lower() + '.py')).read()
        invs = sorted(set(re.findall(r"(?:INVARIANT|PROPERTY) (\w+)", src)) | set(x for lst in re.findall(r"inv = \[([^\]]*)\]", src) for x in re.findall(r"'(\w+)'", lst)))
        if invs:
            out += ['', 'TLC obligations named by the check: ' + ', '.join(f'`{i}`' for i in invs) + '.']
        out.append('')
    open(os.path.join(VERIF, 'spec', 'COVERAGE.md'), 'w').write('\n'.join(out) + '\n')
    print('spec/COVERAGE.md written')


if __name__ == '__main__':
    main()
