"""TLC runner: every invocation is bounded by a timeout, uses a private metadir,
parses statistics, coverage, PrintT-exported JSON records and error traces.

Exit-code policy of the framework: a TLC crash / timeout is a *machinery* failure
(TlcError -> exit 2), never a verdict about the code.
"""
import json
import os
import re
import shutil
import subprocess
import time

JAR = '/opt/veriftools/tla/tla2tools.jar'
DEPS = '/opt/veriftools/tla/CommunityModules-deps.jar'
SPEC_DIR = os.path.join(os.path.dirname(os.path.dirname(os.path.abspath(__file__))), 'spec')


class TlcError(Exception):
    pass


class TlcResult:
    def __init__(self):
        self.generated = 0        # "states generated"  (= transitions explored + initial states)
        self.distinct = 0         # "distinct states found"
        self.depth = 0
        self.records = []         # JSON values exported with PrintT(ToJson(..))
        self.tuples = []          # raw lines of PrintT(<<...>>) tuples
        self.violated = None      # name of violated invariant / property, if any
        self.error_trace = []     # list of state dicts (text) of a counterexample
        self.coverage = {}        # action name -> (distinct, generated)
        self.wall = 0.0
        self.stdout = ''
        self.cmd = ''
        self.ok = False           # "No error has been found" / simulation finished

    def stats(self):
        return {'states': self.distinct, 'transitions': self.generated}


_STATS = re.compile(r'(\d+) states generated, (\d+) distinct states found')
_DEPTH = re.compile(r'The depth of the complete state graph search is (\d+)')
_INV = re.compile(r'Error: Invariant (\S+) is violated')
_PROP = re.compile(r'Error: (?:Action property|Temporal properties?) (\S+)?')
_COV = re.compile(r'^<(\w+) line \d+, col \d+ to line \d+, col \d+ of module (\w+)>: (\d+):(\d+)')
_STATE_HDR = re.compile(r'^State (\d+): <(.*)>$')


def write_cfg(path, lines):
    with open(path, 'w') as f:
        f.write('\n'.join(lines) + '\n')
    return path


def run(module, cfg_lines, scratch, *, workers=4, timeout=600, simulate=None, depth=None,
        seed=None, coverage=False, env=None, heap='4g', deadlock=False, extra=None, dfs=False,
        allow_violation=False, tag=None):
    """Run TLC on spec/<module>.tla with a cfg assembled from cfg_lines.

    Returns TlcResult. Raises TlcError when TLC neither completes nor reports a
    property violation (parse error, evaluation error, timeout...).
    """
    tag = tag or module
    os.makedirs(scratch, exist_ok=True)
    cfg = os.path.join(scratch, f'{tag}.cfg')
    lines = list(cfg_lines)
    if not deadlock and not any(l.startswith('CHECK_DEADLOCK') for l in lines):
        lines.append('CHECK_DEADLOCK FALSE')
    write_cfg(cfg, lines)
    meta = os.path.join(scratch, f'meta_{tag}_{int(time.time() * 1000) % 10 ** 9}')
    jvm = ['java', '-XX:+UseParallelGC', f'-Xmx{heap}', '-Xss64m', '-Djava.io.tmpdir=' + scratch]
    if dfs:
        jvm.append('-Dtlc2.tool.queue.IStateQueue=StateDeque')
    cmd = jvm + ['-cp', f'{JAR}:{DEPS}', 'tlc2.TLC', '-workers', str(workers), '-metadir', meta,
                 '-noGenerateSpecTE', '-config', cfg]
    if coverage:
        cmd += ['-coverage', '1']
    if simulate:
        cmd += ['-simulate', simulate]
    if depth:
        cmd += ['-depth', str(depth)]
    if seed is not None:
        cmd += ['-seed', str(seed)]
    if extra:
        cmd += list(extra)
    cmd.append(os.path.join(SPEC_DIR, module + '.tla'))
    e = dict(os.environ)
    e.pop('JAVA_TOOL_OPTIONS', None)
    if env:
        e.update({k: str(v) for k, v in env.items()})
    last = None
    for attempt in range(2):      # one retry for transient JVM failures (never for verdicts)
        res = TlcResult()
        res.cmd = ' '.join(cmd)
        t0 = time.time()
        try:
            p = subprocess.run(cmd, cwd=SPEC_DIR, env=e, stdout=subprocess.PIPE, stderr=subprocess.STDOUT,
                               timeout=timeout, text=True, errors='replace')
        except subprocess.TimeoutExpired as ex:
            shutil.rmtree(meta, ignore_errors=True)
            raise TlcError(f'TLC timeout after {timeout}s: {module}') from ex
        finally:
            res.wall = time.time() - t0
        shutil.rmtree(meta, ignore_errors=True)
        out = p.stdout
        res.stdout = out
        _parse(out, res)
        if 'No error has been found' in out or (simulate and 'Finished in' in out and 'Error:' not in out):
            res.ok = True
            return res
        if res.violated is not None:
            return res
        errs = [l for l in out.splitlines() if 'rror' in l or 'xception' in l][:12]
        last = f'TLC failed on {module} (exit {p.returncode}):\n' + '\n'.join(errs) + '\n...\n' + \
               '\n'.join(l for l in out.splitlines()[-12:] if not l.startswith('"'))
        try:
            with open(os.path.join(scratch, f'{tag}.fail{attempt}.out'), 'w') as f:
                f.write(out)
        except OSError:
            pass
    raise TlcError(last)


def _parse(out, res):
    _parse_lines(out, res)
    # TLC's workers export the cases in any order: a canonical order makes every sample drawn from them reproducible
    res.records.sort(key=lambda r: json.dumps(r, sort_keys=True))


def _parse_lines(out, res):
    cur = None
    in_trace = False
    pending = None
    for line in out.splitlines():
        if line.startswith('"') and line.endswith('"') and len(line) > 1:
            try:
                s = json.loads(line)
                if s[:1] in '{[':
                    res.records.append(json.loads(s))
                else:
                    res.tuples.append(s)
            except ValueError:
                pass
            continue
        if pending is not None:                      # TLC wraps tuples wider than 80 columns over several lines
            pending += ' ' + line.strip()
            if _balanced(pending):
                res.tuples.append(pending)
                pending = None
            continue
        if line.startswith('<<'):
            if line.endswith('>>') and _balanced(line):
                res.tuples.append(line)
            else:
                pending = line.strip()
            continue
        m = _STATS.search(line)
        if m:
            res.generated, res.distinct = int(m.group(1)), int(m.group(2))
            continue
        m = _DEPTH.search(line)
        if m:
            res.depth = int(m.group(1))
            continue
        m = _INV.search(line)
        if m:
            res.violated = m.group(1)
            in_trace = True
            continue
        if line.startswith('Error: Action property') or line.startswith('Error: Temporal properties'):
            res.violated = res.violated or line[len('Error: '):].strip()
            in_trace = True
            continue
        m = _COV.match(line)
        if m:
            res.coverage[m.group(1)] = (int(m.group(3)), int(m.group(4)))
            continue
        if in_trace:
            m = _STATE_HDR.match(line)
            if m:
                cur = {'n': int(m.group(1)), 'action': m.group(2), 'text': []}
                res.error_trace.append(cur)
            elif cur is not None and line.strip() and not line.startswith('Finished') \
                    and not _STATS.search(line) and not line.startswith('The '):
                cur['text'].append(line)


def _balanced(s):
    """<< >> balanced outside string literals."""
    depth, i, n, instr = 0, 0, len(s), False
    while i < n:
        ch = s[i]
        if instr:
            if ch == '\\':
                i += 1
            elif ch == '"':
                instr = False
        elif ch == '"':
            instr = True
        elif s.startswith('<<', i):
            depth += 1
            i += 1
        elif s.startswith('>>', i):
            depth -= 1
            i += 1
        i += 1
    return depth == 0 and not instr


def parse_tuple(line):
    """Parse a TLA+ tuple/record value printed by TLC (subset: ints, strings, tuples, TRUE/FALSE)."""
    pos = 0

    def ws():
        nonlocal pos
        while pos < len(line) and line[pos] in ' \n\t':
            pos += 1

    def val():
        nonlocal pos
        ws()
        if line.startswith('<<', pos):
            pos += 2
            items = []
            ws()
            if line.startswith('>>', pos):
                pos += 2
                return items
            while True:
                items.append(val())
                ws()
                if line.startswith('>>', pos):
                    pos += 2
                    return items
                if line[pos] == ',':
                    pos += 1
                else:
                    raise ValueError(f'bad tuple at {pos}: {line}')
        if line[pos] == '"':
            j = pos + 1
            buf = []
            while line[j] != '"':
                if line[j] == '\\':
                    j += 1
                buf.append(line[j])
                j += 1
            pos = j + 1
            return ''.join(buf)
        m = re.match(r'-?\d+', line[pos:])
        if m:
            pos += m.end()
            return int(m.group(0))
        for w, v in (('TRUE', True), ('FALSE', False)):
            if line.startswith(w, pos):
                pos += len(w)
                return v
        raise ValueError(f'cannot parse at {pos}: {line}')

    return val()


def sany(module):
    cmd = ['java', '-cp', f'{JAR}:{DEPS}', 'tla2sany.SANY', os.path.join(SPEC_DIR, module + '.tla')]
    p = subprocess.run(cmd, cwd=SPEC_DIR, stdout=subprocess.PIPE, stderr=subprocess.STDOUT, text=True, timeout=120)
    ok = p.returncode == 0 and 'Semantic errors' not in p.stdout and 'Parse Error' not in p.stdout \
        and '*** Errors' not in p.stdout and 'Fatal' not in p.stdout
    return ok, p.stdout
