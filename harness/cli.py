"""./check <Cxx> [--tier quick|thorough] [--replay file]

exit 0: property held on everything explored (known findings are printed, not alarmed)
exit 1: at least one line  VIOLATION property=<id> replay=<path>
exit 2: the machinery itself failed (TLC crash, harness bug) - never a verdict about the code
"""
import argparse
import importlib
import json
import os
import faulthandler
import signal
import sys
import traceback


faulthandler.register(signal.SIGUSR1, all_threads=True)      # kill -USR1 <pid>: where is a (worker) process right now


def main():
    ap = argparse.ArgumentParser()
    ap.add_argument('target')
    ap.add_argument('--tier', default=os.environ.get('VERIF_TIER', 'quick'), choices=['quick', 'thorough'])
    ap.add_argument('--replay')
    a = ap.parse_args()
    seed = int(os.environ.get('VERIF_SEED', '0') or 0)
    from harness import core
    if a.target == 'setup':
        from harness import setup
        sys.exit(setup.main())
    if a.target == 'selftest':
        from harness import selftest
        sys.exit(selftest.main(a.tier, seed))
    prop = a.target.upper()
    try:
        mod = importlib.import_module('harness.props.' + prop.lower())
    except ModuleNotFoundError as e:
        print(f'no check for {prop}: {e}', file=sys.stderr)
        sys.exit(2)
    run = core.Run(prop, a.tier, seed, level=getattr(mod, 'LEVEL', 'model_checking'))
    # watchdog: a check that does not come back (code under test that loops inside a worker) ends as a machinery failure, not as a hang
    limit = int(os.environ.get('VERIF_CHECK_LIMIT_S', '5400' if a.tier == 'quick' else '28800'))
    main_pid = os.getpid()

    def _watchdog():
        import time
        time.sleep(limit)
        print(f'MACHINERY-FAILURE {prop}: the check did not finish within {limit} s', file=sys.stderr, flush=True)
        import subprocess
        subprocess.run(['pkill', '-KILL', '-P', str(main_pid)])
        os._exit(2)
    import threading
    threading.Thread(target=_watchdog, daemon=True).start()
    try:
        if a.replay:
            case = json.load(open(a.replay))
            mod.replay(run, case)
        else:
            mod.check(run)
        code = run.finish()
    except core.MachineryError as e:
        print(f'MACHINERY-FAILURE {prop}: {e}', file=sys.stderr)
        sys.exit(2)
    except Exception:
        traceback.print_exc()
        print(f'MACHINERY-FAILURE {prop}: unexpected harness exception', file=sys.stderr)
        sys.exit(2)
    sys.exit(code)


if __name__ == '__main__':
    main()
