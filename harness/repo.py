"""Binding to the implementation under test: always the *working tree* at $E2P_REPO
(default /repo), imported fresh in every process, hooks enabled."""
import datetime
import importlib
import os
import signal
import sys
import warnings

REPO = os.environ.get('E2P_REPO', '/repo')
os.environ.setdefault('EXCEL2PYCL_VERIF', '1')
if sys.path[0] != REPO:
    sys.path.insert(0, REPO)
warnings.simplefilter('ignore')

import excel2pycl  # noqa: E402
from excel2pycl import Cell, Context, Excel, CellTranslator, Parser, Executor, E2PyclException  # noqa: E402,F401
from excel2pycl import E2PyclParserException, E2PyclSafetyException  # noqa: E402,F401

assert os.path.realpath(os.path.dirname(os.path.dirname(excel2pycl.__file__))) == os.path.realpath(REPO), \
    f'excel2pycl imported from {excel2pycl.__file__}, expected {REPO}'


class CaseTimeout(BaseException):
    """raised by the alarm inside the code under test: a BaseException, so that an `except Exception` of the library (IFERROR's own
    handler, for one) cannot swallow it and carry on"""
    pass


def _alarm(signum, frame):
    raise CaseTimeout()


def with_timeout(seconds, fn, *a, **kw):
    """Run fn under a wall-clock limit (SIGALRM; main thread of a worker process)."""
    old = signal.signal(signal.SIGALRM, _alarm)
    signal.setitimer(signal.ITIMER_REAL, seconds)
    try:
        return fn(*a, **kw)
    finally:
        signal.setitimer(signal.ITIMER_REAL, 0)
        signal.signal(signal.SIGALRM, old)


EVAL_LIMIT = 30.0


def read_cell(ex, cell, limit=EVAL_LIMIT):
    """ex.get_cell(cell).value under a wall-clock limit: a cell whose evaluation does not come back is an outcome, not a hung check"""
    return with_timeout(limit, lambda: ex.get_cell(cell).value)


# ----------------------------------------------------------------- workbooks
def col_letters(n):
    """1-based column number -> letters (harness side; the spec has its own ColLetters)."""
    s = ''
    while n > 0:
        n, r = divmod(n - 1, 26)
        s = chr(65 + r) + s
    return s


def mem_excel(sheets):
    """sheets: list of (title, {(col0, row0): value}). Builds the structure Excel.parse
    delivers for such a workbook (ragged rows up to the last stored cell of each row)."""
    data, titles, sizes = [], [], []
    for title, cells in sheets:
        titles.append(title)
        nrows = max((r for (_, r) in cells), default=-1) + 1
        rows = [[] for _ in range(nrows)]
        width = 0
        for (c, r), v in cells.items():
            row = rows[r]
            if len(row) <= c:
                row.extend([None] * (c + 1 - len(row)))
            row[c] = v
            width = max(width, c + 1)
        data.append(rows)
        sizes.append({'last_column': width, 'last_row': nrows})
    return Excel({'data': data, 'titles': titles, 'suspicious_cells': {}, 'sheets_size': sizes})


class AsText(str):
    """marker for write_xlsx: store this string as a TEXT cell even if it starts with '=' (Excel: typed with a leading apostrophe)"""


def write_xlsx(path, sheets, write_only=False, chart_before=None):
    """chart_before = k: a chart sheet titled 'Chart' is put among the tabs, just before the k-th worksheet (0-based)"""
    import openpyxl
    wb = openpyxl.Workbook()
    wb.remove(wb.active)
    chart_sheet = None
    for si, (title, cells) in enumerate(sheets):
        if chart_before == si:
            chart_sheet = wb.create_chartsheet('Chart')
        ws = wb.create_sheet(title)
        for (c, r), v in sorted(cells.items(), key=lambda kv: (kv[0][1], kv[0][0])):
            oc = ws.cell(row=r + 1, column=c + 1, value=str(v) if isinstance(v, AsText) else v)
            if isinstance(v, AsText):
                oc.data_type = 's'
    if chart_sheet is not None:
        from openpyxl.chart import BarChart, Reference
        ch = BarChart()
        ch.add_data(Reference(wb.worksheets[0], min_col=1, min_row=1, max_row=2))
        chart_sheet.add_chart(ch)
    wb.save(path)
    return path


# ----------------------------------------------------------------- translation
def outcome_of_exception(e):
    if isinstance(e, E2PyclSafetyException):
        return {'o': 'safety', 'cells': dict(getattr(e, 'suspicious_cells', {}))}
    if isinstance(e, E2PyclException):
        return {'o': 'lib', 't': type(e).__name__}
    if isinstance(e, CaseTimeout):
        return {'o': 'timeout'}
    if isinstance(e, SyntaxError):
        return {'o': 'syntax'}
    return {'o': 'foreign', 't': type(e).__name__}


def translate_entry(excel, cell, titles_sizes=True):
    """What Parser._translate does for an entry cell, on an in-memory Excel. Returns (text, context)."""
    ctx = Context()
    if titles_sizes:
        ctx._titles = excel.get_titles()
        ctx._sheets_size = excel.get_sheets_size()
    CellTranslator.translate(cell, excel, ctx)
    return ctx.build_class(), ctx


def translate_file(excel):
    ctx = Context()
    ctx._titles = excel.get_titles()
    ctx._sheets_size = excel.get_sheets_size()
    CellTranslator.translate_file(excel, ctx)
    return ctx.build_class(), ctx


def load_class(text, name='<generated>'):
    ns = {}
    exec(compile(text, name, 'exec'), ns)
    return ns['ExcelInPython']


def fresh_executor(klass, overrides=None):
    ex = Executor().set_executed_class(class_object=klass)
    if overrides:
        ex.set_cells(overrides)
    return ex


_RUNTIME = {}


def runtime_class():
    """An ExcelInPython class without cell members, generated from the working tree's template."""
    if 'k' not in _RUNTIME:
        _RUNTIME['k'] = load_class(Context().build_class())
    return _RUNTIME['k']


def eval_formulas(formulas, consts=None, overrides=None, timeout=20.0, sheet='S'):
    """Translate each formula text in its own cell of one in-memory workbook (bulk driver:
    one failing formula does not abort the others), load one class, evaluate each with a
    fresh Executor + overrides. formulas: list of text. consts: {(c,r): v} on the same sheet.
    Formula i lives at column 25 (Z), row i. Returns list of outcomes (raw python value or exception)."""
    cells = dict(consts or {})
    for i, f in enumerate(formulas):
        cells[(25, i)] = f
    excel = mem_excel([(sheet, cells)])
    ctx = Context()
    ctx._titles = excel.get_titles()
    ctx._sheets_size = excel.get_sheets_size()
    trans = []
    for i, f in enumerate(formulas):
        saved = (dict(ctx._cell_translations), {k: list(v) for k, v in ctx._sub_cell_translations.items()})
        try:
            with_timeout(timeout, CellTranslator.translate, Cell(0, 25, i), excel, ctx)
            trans.append(None)
        except BaseException as e:  # noqa
            if isinstance(e, (KeyboardInterrupt, SystemExit)):
                raise
            ctx._cell_translations, ctx._sub_cell_translations = saved
            trans.append(e)
    res = []
    try:
        klass = load_class(ctx.build_class())
    except SyntaxError:
        # some formula produced unloadable text: fall back to one class per formula
        return [_eval_single(excel, i, trans[i], overrides, timeout) for i in range(len(formulas))]
    for i in range(len(formulas)):
        if trans[i] is not None:
            res.append(('texc', trans[i]))
            continue
        res.append(_eval_cell(klass, Cell(0, 25, i), overrides))
    return res


def _eval_cell(klass, cell, overrides):
    try:
        ex = fresh_executor(klass, [Cell(o[0], o[1], o[2], o[3]) for o in overrides] if overrides else None)
        return ('val', ex.get_cell(cell).value)
    except BaseException as e:  # noqa
        if isinstance(e, (KeyboardInterrupt, SystemExit)):
            raise
        return ('eexc', e)


def _eval_single(excel, i, terr, overrides, timeout):
    if terr is not None:
        return ('texc', terr)
    try:
        text, _ = with_timeout(timeout, translate_entry, excel, Cell(0, 25, i))
        klass = load_class(text)
    except BaseException as e:  # noqa
        if isinstance(e, (KeyboardInterrupt, SystemExit)):
            raise
        return ('texc', e)
    return _eval_cell(klass, Cell(0, 25, i), overrides)


class Probe:
    """A workbook translated once: formulas live in column Z (index 25) of sheet 0, one per row;
    consts: {(c,r): v} on sheet 0 (or {(s,c,r): v} with extra_sheets). Each evaluation uses a
    fresh Executor with one set_cells batch of overrides (isolation rule, DESIGN 2.3)."""

    def __init__(self, formulas, consts=None, sheets=None, timeout=20.0, col=25):
        cells = dict(consts or {})
        self.formulas = list(formulas)
        self.col = col
        for i, f in enumerate(self.formulas):
            cells[(col, i)] = f
        all_sheets = [('S', cells)] + list(sheets or [])
        self.excel = mem_excel(all_sheets)
        ctx = Context()
        ctx._titles = self.excel.get_titles()
        ctx._sheets_size = self.excel.get_sheets_size()
        self.terr = []
        for i in range(len(self.formulas)):
            saved = (dict(ctx._cell_translations), {k: list(v) for k, v in ctx._sub_cell_translations.items()})
            try:
                with_timeout(timeout, CellTranslator.translate, Cell(0, col, i), self.excel, ctx)
                self.terr.append(None)
            except BaseException as e:  # noqa
                if isinstance(e, (KeyboardInterrupt, SystemExit)):
                    raise
                ctx._cell_translations, ctx._sub_cell_translations = saved
                self.terr.append(e)
        self.text = ctx.build_class()
        try:
            self.klass = load_class(self.text)
            self.load_err = None
        except BaseException as e:  # noqa
            self.klass = None
            self.load_err = e

    def eval(self, overrides=None, idxs=None):
        """overrides: list of (sheet, col, row, value). Returns list of ('val'|'eexc'|'texc', payload)."""
        idxs = range(len(self.formulas)) if idxs is None else idxs
        if self.klass is None:
            return [('texc', self.load_err) for _ in idxs]
        ov = [Cell(o[0], o[1], o[2], o[3]) for o in overrides] if overrides else None
        out = []
        try:
            ex = fresh_executor(self.klass, ov)
        except BaseException as e:  # noqa
            if isinstance(e, (KeyboardInterrupt, SystemExit)):
                raise
            return [('eexc', e) for _ in idxs]
        for i in idxs:
            if self.terr[i] is not None:
                out.append(('texc', self.terr[i]))
                continue
            try:
                out.append(('val', read_cell(ex, Cell(0, self.col, i))))
            except BaseException as e:  # noqa
                if isinstance(e, (KeyboardInterrupt, SystemExit)):
                    raise
                out.append(('eexc', e))
        return out

    def session(self):
        """One Executor (one instance of the generated class) for a whole SEQUENCE of evaluations: whatever the runtime keeps on the
        instance between calls is kept. Every step must override all the cells its formulas read (earlier overrides stay in force)."""
        return _Session(self)

    def eval_at(self, overrides, cells):
        """Evaluate arbitrary (sheet,col,row) cells."""
        ov = [Cell(o[0], o[1], o[2], o[3]) for o in overrides] if overrides else None
        ex = fresh_executor(self.klass, ov)
        out = []
        for (s, c, r) in cells:
            try:
                out.append(('val', read_cell(ex, Cell(s, c, r))))
            except BaseException as e:  # noqa
                if isinstance(e, (KeyboardInterrupt, SystemExit)):
                    raise
                out.append(('eexc', e))
        return out


class _Session:
    def __init__(self, probe):
        self.p = probe
        self.ex = fresh_executor(probe.klass) if probe.klass is not None else None

    def eval(self, overrides=None, idxs=None):
        p = self.p
        idxs = range(len(p.formulas)) if idxs is None else idxs
        if self.ex is None:
            return [('texc', p.load_err) for _ in idxs]
        try:
            if overrides:
                self.ex.set_cells([Cell(o[0], o[1], o[2], o[3]) for o in overrides])
        except BaseException as e:  # noqa
            if isinstance(e, (KeyboardInterrupt, SystemExit)):
                raise
            return [('eexc', e) for _ in idxs]
        out = []
        for i in idxs:
            if p.terr[i] is not None:
                out.append(('texc', p.terr[i]))
                continue
            try:
                out.append(('val', read_cell(self.ex, Cell(0, p.col, i))))
            except BaseException as e:  # noqa
                if isinstance(e, (KeyboardInterrupt, SystemExit)):
                    raise
                out.append(('eexc', e))
        return out


def public_path_eval(scratch, sheets, cells, overrides=None, tag='pp', chart_before=None):
    """The path the properties name: xlsx -> Parser.write_translation -> Executor(class_file).
    sheets: [(title, {(c,r): v})]; cells: [(s,c,r)]. Returns list of ('val'|'eexc'|'texc', payload)."""
    x = os.path.join(scratch, tag + '.xlsx')
    p = os.path.join(scratch, tag + '_gen.py')
    try:
        write_xlsx(x, sheets, chart_before=chart_before)
        Parser().set_excel_file_path(x).write_translation(p)
        ex = Executor().set_executed_class(class_file=p)
    except BaseException as e:  # noqa
        if isinstance(e, (KeyboardInterrupt, SystemExit)):
            raise
        return [('texc', e) for _ in cells]
    if overrides:
        ex.set_cells([Cell(o[0], o[1], o[2], o[3]) for o in overrides])
    out = []
    for (s, c, r) in cells:
        try:
            out.append(('val', read_cell(ex, Cell(s, c, r))))
        except BaseException as e:  # noqa
            if isinstance(e, (KeyboardInterrupt, SystemExit)):
                raise
            out.append(('eexc', e))
    return out
