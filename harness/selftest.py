"""./check selftest - binding demonstration of the trace specifications.

For each listed property a small batch of events is recorded from the real code (the property's own recorder), TLC must
accept it as recorded, and after ONE field of ONE event has been corrupted TLC must reject exactly that event (and only
that one). This shows that the trace specifications constrain the recorded values (not only the length of the trace) and
that the verdict parser sees every rejection. exit 0 = every demonstration behaved; exit 2 otherwise (a machinery
matter, never a verdict about the code).
"""
import copy
import json
import random
import sys

from harness import core


def _c10(run):
    from harness.props import c10
    rng = random.Random(5)
    pairs = [c10.random_pair(rng) for _ in range(40)]
    obs = [o for o in c10.observe(run, pairs, ['ovr']) if o[3] is not None]
    evs = [{'a': a, 'b': b, 'o': ow[0], 'w': ow[1]} for (_, a, b, ow, _) in obs]
    k = next(i for i, e in enumerate(evs) if e['a']['k'] in ('num', 'date'))
    bad = copy.deepcopy(evs)
    bad[k]['o']['LT'] = not bad[k]['o']['LT']
    return (lambda e: {i for i, v in c10.validate(run, e, 'self_C10').items() if v != 'oos'}), evs, bad, k


def _c16(run):
    from harness.props import c16
    evs = c16._trace_job([1, 2, 3])
    bad = copy.deepcopy(evs)
    bad[7]['om'] += 1
    return (lambda e: set(c16.validate(run, e, 'self_C16'))), evs, bad, 7


def _c15(run):
    from harness.props import c15
    evs = c15._trace_job(list(range(12)))
    bad = copy.deepcopy(evs)
    bad[3]['obs'] += 1
    return (lambda e: set(c15.validate(run, e, 'self_C15'))), evs, bad, 3


def _c17(run):
    from harness.props import c17
    evs = c17._trace_job(list(range(30)))
    k = next(i for i, e in enumerate(evs) if e['obs']['k'] == 'text' and e['obs']['c'])
    bad = copy.deepcopy(evs)
    bad[k]['obs']['c'][0] += 1
    return (lambda e: set(c17.validate(run, e, 'self_C17'))), evs, bad, k


def _c14(run):
    from harness.props import c14
    evs = c14._trace_job(list(range(10)))
    k = next(i for i, e in enumerate(evs) if e['o'] > 0)
    bad = copy.deepcopy(evs)
    bad[k]['o'] += 1
    return (lambda e: set(c14.validate(run, e, 'self_C14'))), evs, bad, k


def _c11(run):
    from harness.props import c11
    c11.setup(run, 2)
    evs = c11._trace_job([1, 2])
    k = next(i for i, e in enumerate(evs) if e['f'] == 'SUM' and e['o'] != c11.NOVAL)
    bad = copy.deepcopy(evs)
    bad[k]['o'] += 4
    return (lambda e: set(c11.validate(run, e, 3, 'self_C11'))), evs, bad, k


def _c12(run):
    from harness.props import c12
    evs = [e for e in c12._trace_job(list(range(60)))]
    ok0 = c12.validate(run, evs, 'self_C12_pre')
    evs = [e for i, e in enumerate(evs) if (i + 1) not in ok0]          # keep the events the specification explains
    k = next(i for i, e in enumerate(evs) if e['obs'] != [-2])
    bad = copy.deepcopy(evs)
    bad[k]['obs'] = [x for x in range(1, bad[k]['n'] + 1) if x not in bad[k]['obs']] or [-2]
    return (lambda e: set(c12.validate(run, e, 'self_C12'))), evs, bad, k


def _c13(run):
    from harness.props import c13
    evs = c13._trace_job(list(range(20)))
    # (a nest that delivers a blank into arithmetic is outside the statement: the specification does not constrain its number)
    k = next(i for i, e in enumerate(evs) if e['obs']['k'] == 'num' and '"blank"' not in json.dumps(e['ast']))
    bad = copy.deepcopy(evs)
    bad[k]['obs']['n'] += 100
    return (lambda e: set(c13.validate(run, e, 'self_C13'))), evs, bad, k


def _c02(run):
    from harness.props import c02
    evs = c02._trace_job(list(range(25)))
    k = next(i for i, e in enumerate(evs) if e['obs'] and e['obs'][0][0] > 0)
    bad = copy.deepcopy(evs)
    bad[k]['obs'][0][1] += 1          # the column of the first cell read
    return (lambda e: set(c02.validate(run, e, 'self_C02'))), evs, bad, k


def _c04(run):
    """Trace_C04 (also the trace specification of C08): traces of set / get / sheet / sizes events on the real Executor"""
    from harness.props import c04, exec_common as xc
    w = xc.World(run)
    traces = [c04.record_trace(w, random.Random(s), 25) for s in (1, 2, 3)]
    t, k = next((ti, ei) for ti, tr in enumerate(traces) for ei, e in enumerate(tr) if e['ev'] == 'get' and e['res'].get('k') == 'num')
    bad = copy.deepcopy(traces)
    bad[t][k]['res']['n'] += 1

    def verdict(trs):
        rej = c04.validate(run, trs, 'self_C04')
        return {(ti, v[0]) for ti, v in rej.items()} if isinstance(rej, dict) else set(rej)
    return verdict, traces, bad, (t + 1, k + 1)


def _e2p(run):
    """Trace_E2P: sessions of three executors over one translation"""
    from harness.props import e2p, exec_common as xc
    w = xc.World(run)
    e2p._W = e2p._lite(w)
    traces = [e2p.record(e2p._W, random.Random(s), 40) for s in (11, 12, 13)]
    t, k = next((ti, ei) for ti, tr in enumerate(traces) for ei, e in enumerate(tr) if e['ev'] == 'get' and e['res'].get('k') == 'num' and ei > 10)
    bad = copy.deepcopy(traces)
    bad[t][k]['res']['n'] += 1

    def verdict(trs):
        rej = e2p.validate(run, trs, 'self_E2P')
        return {(ti, v[0]) for ti, v in rej.items()}
    return verdict, traces, bad, (t + 1, k + 1)


def _e2pw(run):
    """Trace_E2PW: a workbook replaced under its path, one Parser, executors from the written file / the returned text"""
    from harness.props import e2pw, exec_common as xc
    wbj = xc.spec_workbook(run)
    traces = [e2pw.record(wbj, run.scratch, 'self', random.Random(s), 40) for s in (1, 2, 3)]
    t, k = next((ti, ei) for ti, tr in enumerate(traces) for ei, e in enumerate(tr) if e['ev'] == 'text' and ei < len(tr) - 1)
    bad = copy.deepcopy(traces)
    bad[t][k]['ver'] = 3 - bad[t][k]['ver']          # the other version of the workbook

    def verdict(trs):
        rej = e2pw.validate(run, trs, 'self_E2PW')
        return {(ti, v[0]) for ti, v in rej.items()}
    return verdict, traces, bad, (t + 1, k + 1)


def _c18(run):
    from harness.props import c18
    recs = [{'sheets': [{'title': 'First', 'cells': [{'c': 1, 'r': 1, 'k': 'int'}, {'c': 2, 'r': 3, 'k': 'text'}], 'size': {'cols': 2, 'rows': 3}}], 'chartAt': 0},
            {'sheets': [{'title': 'First', 'cells': [{'c': 3, 'r': 1, 'k': 'bool'}], 'size': {'cols': 3, 'rows': 1}},
                        {'title': 'Second one', 'cells': [], 'size': {'cols': 0, 'rows': 0}}], 'chartAt': 0}]
    evs = c18._job((0, recs, run.scratch))
    bad = copy.deepcopy(evs)
    bad[1]['sizes'][0]['cols'] += 1
    return (lambda e: set(c18.validate(run, e, 'self_C18'))), evs, bad, 1


def _c19(run):
    from harness.props import c19
    recs = [{'gate': [{'s': 1, 'c': 2, 'r': 3, 't': [ord(ch) for ch in 'eval(1)'], 'j': {}}]},
            {'gate': [{'s': 2, 'c': 1, 'r': 1, 't': [ord(ch) for ch in '=SUM(A1:A2)'], 'j': {}}, {'s': 1, 'c': 4, 'r': 5, 't': [ord(ch) for ch in 'os.system("x")'], 'j': {}}]}]
    evs = [e for e in c19._job((0, recs, run.scratch, False)) if not e['err']]
    k = next(i for i, e in enumerate(evs) if e['raised'])
    bad = copy.deepcopy(evs)
    bad[k]['report'][0][0][-1] += 1          # the row digit of the reported address
    return (lambda e: set(c19.validate(run, e, 'self_C19'))), evs, bad, k


DEMOS = {'C04': _c04, 'E2P': _e2p, 'E2PW': _e2pw, 'C18': _c18, 'C19': _c19, 'C02': _c02, 'C10': _c10, 'C11': _c11, 'C12': _c12, 'C13': _c13, 'C14': _c14, 'C15': _c15, 'C16': _c16, 'C17': _c17}


def main(tier='quick', seed=0):
    import os
    os.environ['VERIF_NO_EVIDENCE'] = '1'
    failed = 0
    for prop, demo in DEMOS.items():
        run = core.Run({'E2P': 'C04', 'E2PW': 'C09'}.get(prop, prop), 'quick', seed)
        try:
            verdict, evs, bad, k = demo(run)
            clean = verdict(evs)
            rejected = verdict(bad)
            ok = not clean and rejected == ({k + 1} if isinstance(k, int) else {k})
            print(f'selftest {prop}: {len(evs)} recorded events accepted: {not clean}; corrupted event {k + 1 if isinstance(k, int) else k} -> rejected {sorted(rejected)}: '
                  f'{"ok" if ok else "UNEXPECTED"}', flush=True)
            failed += 0 if ok else 1
        except Exception as e:  # noqa
            import traceback
            traceback.print_exc()
            print(f'selftest {prop}: machinery error {type(e).__name__}: {e}', flush=True)
            failed += 1
    print(f'selftest: {len(DEMOS) - failed}/{len(DEMOS)} binding demonstrations behaved')
    return 0 if failed == 0 else 2


if __name__ == '__main__':
    sys.exit(main())
