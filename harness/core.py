"""Run context shared by all property checks: scratch space, TLC accounting, verdict rule
(OK | KNOWN-FINDING | VIOLATION), replay files, evidence file, exit code."""
import atexit
import hashlib
import json
import multiprocessing
import os
import random
import shutil
import sys
import tempfile
import time
import traceback

from harness import tlc as tlcmod

VERIF = os.path.dirname(os.path.dirname(os.path.abspath(__file__)))
FINDINGS_FILE = os.path.join(VERIF, 'known_findings.txt')


class MachineryError(Exception):
    pass


def load_findings(path=FINDINGS_FILE):
    """Line-oriented file. 'finding:' lines are open (may explain a non-conforming case),
    'fixed:' lines are history only and suppress nothing."""
    open_f, fixed = {}, []
    if not os.path.exists(path):
        return open_f, fixed
    for raw in open(path, encoding='utf-8'):
        line = raw.strip()
        if not line or line.startswith('#'):
            continue
        if line.startswith('fixed:'):
            fixed.append(line)
            continue
        if not line.startswith('finding:'):
            raise MachineryError(f'bad line in known_findings.txt: {line[:80]}')
        head, _, descr = line[len('finding:'):].partition('::')
        fields = {}
        head = head.strip()
        # witness={json} is last field of head
        w = None
        if ' witness=' in head:
            head, _, wtxt = head.partition(' witness=')
            w = json.loads(wtxt.strip())
        for tok in head.split():
            k, _, v = tok.partition('=')
            fields[k] = v
        fields['witness'] = w
        fields['descr'] = descr.strip()
        open_f[fields['id']] = fields
    return open_f, fixed


class Run:
    def __init__(self, prop, tier, seed, level='model_checking'):
        self.prop, self.tier, self.seed, self.level = prop, tier, seed, level
        self.t0 = time.time()
        self.rng = random.Random(seed)
        self.scratch = tempfile.mkdtemp(prefix=f'e2pverif-{prop}-', dir='/var/tmp')
        atexit.register(shutil.rmtree, self.scratch, True)
        self.states = 0
        self.transitions = 0
        self.tlc_runs = []
        self.evaluations = 0
        self.nontrivial = set()
        self.samples = []
        self.traces_validated = 0
        self.violations = []
        self.known = {}
        self.notes = []
        self.parts = {}
        self.exhaustive = {}
        self.assumptions = []
        self.rule = ''
        all_open, self.fixed = load_findings()
        self.open = {k: v for k, v in all_open.items() if v.get('property') == prop}
        self.foreign_open = {k: v for k, v in all_open.items() if v.get('property') != prop}
        self.quick = tier == 'quick'

    # ------------------------------------------------------------ TLC
    def tlc(self, module, cfg_lines, expect_ok=True, **kw):
        try:
            r = tlcmod.run(module, cfg_lines, self.scratch, **kw)
        except tlcmod.TlcError as e:
            raise MachineryError(str(e))
        self.states += r.distinct
        self.transitions += r.generated
        self.tlc_runs.append({'module': module, 'tag': kw.get('tag') or module, 'distinct': r.distinct,
                              'generated': r.generated, 'wall_s': round(r.wall, 2),
                              'violated': r.violated, 'records': len(r.records),
                              'coverage': {k: list(v) for k, v in r.coverage.items()} if r.coverage else None})
        if expect_ok and not r.ok:
            # A violated invariant of the *specification itself* (laws on the oracle, refinement of the
            # code-shaped model after a fix) means the model is wrong or out of date: machinery failure.
            trace = '\n'.join(f"  State {s['n']} <{s['action']}> " + ' '.join(s['text']) for s in r.error_trace[:12])
            raise MachineryError(f'TLC: {module}: {r.violated} violated on the specification\n{trace}')
        return r

    def vacuity(self, r, actions):
        """Every named action must have been taken at least once (coverage run)."""
        for a in actions:
            if a not in r.coverage or r.coverage[a][1] == 0:
                raise MachineryError(f'vacuous model-checking run: action {a} never taken ({r.cmd})')

    # ------------------------------------------------------------ verdicts
    def case_id(self, case):
        return hashlib.sha256(json.dumps(case, sort_keys=True, default=str).encode()).hexdigest()[:16]

    def count(self, n=1):
        self.evaluations += n

    def sample(self, case, limit=6):
        if len(self.samples) < limit:
            self.samples.append(case)

    def mark_nontrivial(self, key):
        self.nontrivial.add(key if isinstance(key, (str, int, tuple)) else json.dumps(key, sort_keys=True, default=str))

    def judge(self, case, conforms, devs=(), clause='', nontrivial=True, part=None):
        """case: JSON-able dict with the spec-level input, ideal and observed outcome.
        devs: ids of findings whose Guard holds for this input AND whose deviant outcome matches obs
        (decided by the caller from the spec's Guard/DevOut operators)."""
        self.evaluations += 1
        if part:
            self.parts[part] = self.parts.get(part, 0) + 1
        if nontrivial:
            self.nontrivial.add(self.case_id(case.get('in', case)))
        if len(self.samples) < 5 and conforms:
            self.samples.append(case)
        if conforms:
            return 'ok'
        for f in devs:
            if f in self.open:
                k = self.known.setdefault(f, {'cases': 0, 'example': case})
                k['cases'] += 1
                return 'known'
            if f in self.foreign_open:
                k = self.known.setdefault(f, {'cases': 0, 'example': case})
                k['cases'] += 1
                return 'known'
        self.violation(case, clause)
        return 'violation'

    def violation(self, case, clause=''):
        case = dict(case)
        case['property'] = self.prop
        case['clause'] = clause
        cid = self.case_id(case)
        d = os.path.join(VERIF, 'replays', self.prop)
        os.makedirs(d, exist_ok=True)
        path = os.path.join(d, cid + '.json')
        if len(self.violations) < 50:
            with open(path, 'w') as f:
                json.dump(case, f, indent=1, sort_keys=True, default=str)
            print(f'VIOLATION property={self.prop} replay={path}', flush=True)
            if len(self.violations) < 5:
                print('   clause: ' + clause + ' :: ' + json.dumps(case, default=str, sort_keys=True)[:600], flush=True)
        self.violations.append(cid)

    def witness_note(self, fid, still_fails, what=''):
        if still_fails:
            k = self.known.setdefault(fid, {'cases': 0, 'example': None})
            k['witness'] = True
        else:
            self.notes.append(f'finding {fid}: witness no longer fails ({what}) - candidate for removal from known_findings.txt')

    # ------------------------------------------------------------ finish
    def finish(self, extra_cov=None):
        for fid, k in sorted(self.known.items()):
            f = self.open.get(fid) or self.foreign_open.get(fid)
            print(f"KNOWN-FINDING: property={f['property']} {fid} {f['descr']} [{k['cases']} case(s) in this run]", flush=True)
        for n in self.notes:
            print('NOTE: ' + n, flush=True)
        cov = {
            'states': self.states, 'transitions': self.transitions,
            'traces_validated_against_impl': self.traces_validated,
            'evaluations': self.evaluations, 'distinct_nontrivial': len(self.nontrivial),
            'rule': self.rule, 'samples': self.samples[:8],
            'exhaustive': bool(self.exhaustive) and all(self.exhaustive.values()),
            'exhaustive_parts': self.exhaustive, 'parts': self.parts,
            'tlc_runs': self.tlc_runs,
            'known_finding_cases': {k: v['cases'] for k, v in self.known.items()},
            'notes': self.notes,
        }
        if extra_cov:
            cov.update(extra_cov)
        cov.update(getattr(self, 'extra', {}))
        ev = {'property_id': self.prop, 'tier': self.tier, 'seed': self.seed, 'level': self.level,
              'coverage': cov, 'assumptions': self.assumptions, 'wall_s': round(time.time() - self.t0, 2),
              'violations': len(self.violations)}
        if not os.environ.get('VERIF_NO_EVIDENCE'):      # sensitivity runs against a seeded worktree leave the evidence alone
            os.makedirs(os.path.join(VERIF, 'evidence'), exist_ok=True)
            with open(os.path.join(VERIF, 'evidence', self.prop + '.json'), 'w') as f:
                json.dump(ev, f, indent=1, sort_keys=True, default=str)
        print(f'{self.prop} [{self.tier}] evaluations={self.evaluations} nontrivial={len(self.nontrivial)} '
              f'tlc_states={self.states} traces={self.traces_validated} known={sum(v["cases"] for v in self.known.values())} '
              f'violations={len(self.violations)} wall={ev["wall_s"]}s', flush=True)
        return 1 if self.violations else 0


# ---------------------------------------------------------------- parallel map
def _init_worker():
    import signal
    signal.signal(signal.SIGINT, signal.SIG_IGN)


def pmap(fn, items, procs=None, chunksize=None):
    """Ordered parallel map over forked workers (the repo binding is imported before the fork)."""
    items = list(items)
    if not items:
        return []
    procs = procs or min(16, os.cpu_count() or 4)
    if len(items) < 4 or procs == 1:
        return [fn(x) for x in items]
    ctx = multiprocessing.get_context('fork')
    chunksize = chunksize or max(1, len(items) // (procs * 8))
    with ctx.Pool(procs, initializer=_init_worker, maxtasksperchild=None) as pool:
        return pool.map(fn, items, chunksize=chunksize)


def chunks(seq, n):
    seq = list(seq)
    return [seq[i:i + n] for i in range(0, len(seq), n)]
