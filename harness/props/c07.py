"""C07 - workbook text never becomes executable code.

MC   : MC_PyString: the ideal emitter's literal is inert for every text up to L over the adversarial alphabet (QuoteIsInert,
       NoPrefixCloses); the naive emitter (quotes around the raw text) fails on the anchors.
GEN  : Gen_C07: every text up to length L over {a ' " \\ newline # { } % * ? ~ ( ) + n}; each is planted (raw and wrapped in
       letters) in a constant cell, a plain formula literal, a literal next to another literal, a criterion, a SEARCH pattern
       and a sheet title, with the safety check on and off; plus a corpus of payloads that call a canary builtin.
       Per case: outcome class, module loads, canary never called (load + evaluation of every member), the module's AST
       has the shape of the same workbook with a benign text (workbook text only inside Constant nodes), constants and
       plain literals evaluate to exactly the original string.
TRACE: every observation is judged by TLC (Trace_C07, PyString.Verdict).
"""
import ast
import builtins
import json
import os
import random
import re

from harness import absval, core, repo
from harness.repo import Cell

POSITIONS = ['const', 'literal', 'concat', 'criterion', 'pattern', 'title']
_CANARY = {'n': 0}


def _canary(*a, **k):
    _CANARY['n'] += 1
    return 0


def sheets_for(pos, s):
    """-> (sheets, probe cell (s,c,r) or None)"""
    if pos == 'const':
        return [('S', {(0, 0): s, (1, 0): 1})], (0, 0, 0)
    if pos == 'literal':
        return [('S', {(0, 0): '="' + s + '"'})], (0, 0, 0)
    if pos == 'concat':
        return [('S', {(0, 0): '="' + s + '"&"b"'})], (0, 0, 0)
    if pos == 'criterion':
        return [('S', {(0, 0): 'x', (0, 1): 'y', (1, 0): 1, (1, 1): 2, (2, 0): '=SUMIF(A1:A2,"' + s + '",B1:B2)', (2, 1): '=COUNTIFS(A1:A2,"' + s + '")'})], None
    if pos == 'pattern':
        return [('S', {(0, 0): 'abc', (1, 0): '=SEARCH("' + s + '",A1)'})], None
    if pos == 'title':
        return [(s, {(0, 0): 1, (1, 0): '=A1+1'}), ('T', {(0, 0): 2})], None
    raise ValueError(pos)


REFS = {'const': ['QQQ'], 'literal': ['QQQ', 'Q*Q'], 'concat': ['QQQ', 'Q*Q'], 'criterion': ['QQQ', 'Q*Q', '>5', '<>5', '>=5.5'],
        'pattern': ['QQQ', 'Q*Q'], 'title': ['QQQ']}
_SHAPES = {}


class _Norm(ast.NodeTransformer):
    def visit_Constant(self, node):
        return ast.copy_location(ast.Constant(value=type(node.value).__name__), node)


def shape(text):
    tree = _Norm().visit(ast.parse(text))
    # member names depend on coordinates only; drop the big constant part of the template by hashing the dump
    return hash(ast.dump(tree))


def mem_excel_with_gate(sheets):
    ex = repo.mem_excel(sheets)
    susp = {}
    for title, cells in sheets:
        for (c, r), v in cells.items():
            if v:
                found = repo.Excel._get_suspicious_constructions(v)
                if found:
                    susp[f"'{title}'{repo.col_letters(c + 1)}{r + 1}"] = found
    ex._suspicious_cells = susp
    return ex


def run_case(pos, s, gate):
    """-> dict(outcome, value, taint, canary, detail)"""
    sheets, probe = sheets_for(pos, s)
    _CANARY['n'] = 0
    out = {'outcome': 'ok', 'value': None, 'taint': 0, 'canary': 0, 'detail': ''}
    try:
        excel = mem_excel_with_gate(sheets)
        if gate:
            excel.is_safe()
        text, _ = repo.with_timeout(20, repo.translate_file, excel)
    except BaseException as e:  # noqa
        if isinstance(e, (KeyboardInterrupt, SystemExit)):
            raise
        o = repo.outcome_of_exception(e)
        out['outcome'] = o['o']
        out['detail'] = f"{type(e).__name__}: {e}"[:120]
        return out
    try:
        klass = repo.load_class(text)
    except SyntaxError as e:
        out['outcome'] = 'syntax'
        out['detail'] = str(e)[:120]
        return out
    except BaseException as e:  # noqa
        out['outcome'] = 'foreign'
        out['detail'] = f'load: {type(e).__name__}: {e}'[:120]
        out['canary'] = _CANARY['n']
        return out
    # evaluate every member
    try:
        inst = klass()
        for name in [n for n in vars(klass) if re.fullmatch(r'_\d+_\d+_\d+(_\d+)?', n)]:
            try:
                inst.exec_function_in(name)
            except BaseException as e:  # noqa
                if isinstance(e, (KeyboardInterrupt, SystemExit)):
                    raise
        if probe:
            try:
                v = repo.fresh_executor(klass).get_cell(Cell(*probe)).value
                out['value'] = v if isinstance(v, str) else ('<blank>' if absval.is_empty_cell(v) else f'<{type(v).__name__}:{v!r}>')
            except BaseException as e:  # noqa
                out['value'] = f'<raises {type(e).__name__}>'
    finally:
        out['canary'] = _CANARY['n']
    # AST shape against the benign references of this position (formula positions: only when the text cannot end the Excel literal)
    if pos in ('const', 'title') or '"' not in s:
        key = pos
        if key not in _SHAPES:
            _SHAPES[key] = set()
            for ref in REFS[pos]:
                rs, _ = sheets_for(pos, ref)
                t, _ = repo.translate_file(mem_excel_with_gate(rs))
                _SHAPES[key].add(shape(t))
        try:
            if shape(text) not in _SHAPES[key]:
                out['taint'] = 1
        except SyntaxError:
            out['taint'] = 1
    return out


def _job(args):
    try:
        builtins.__e2p_canary__ = _canary
        res = []
        for (pos, s, gate) in args:
            res.append(run_case(pos, s, gate))
        return res
    except Exception as e:
        import traceback
        return {'harness_error': f'{type(e).__name__}: {e} {traceback.format_exc()[-400:]}'}


def applicable(pos, s):
    if pos == 'const':
        return s != '' and not s.startswith('=')
    if pos == 'title':
        return s != ''
    return True


PAYLOADS = ["'+__e2p_canary__()+'", '"+__e2p_canary__()+"', "\\'+__e2p_canary__()+\\'", "\\\\'+__e2p_canary__()+'", "'),__e2p_canary__(),('",
            "\n__e2p_canary__()\n", "'\n__e2p_canary__()\n'", "{__e2p_canary__()}", "%(__e2p_canary__())s", "'''+__e2p_canary__()+'''",
            "' if __e2p_canary__() else '", "');__e2p_canary__();('", "__e2p_canary__()", "x\\", "\\", "'", "a'b\"c", "}}{{", "{titles}", "{functions}",
            "' + str(self._arguments) + '", "*'+__e2p_canary__()+'*", "?'+__e2p_canary__()+'?", ">'+__e2p_canary__()+'", "__import__('os').getcwd()",
            # runs of quotes that would end a triple-quoted text (a docstring, a comment block) and continue as code
            'a""";__e2p_canary__();"""b', "a''';__e2p_canary__();'''b", '"""', '"""+__e2p_canary__()+"""', 'x\n    __e2p_canary__() #', '#\n__e2p_canary__()',
            # compatibility characters (full-width quotation mark, brackets and low lines, superscripts, a no-break space): a text is kept as it
            # is written - it is not folded to the ASCII characters that would end the literal or spell a call
            'x\uff02&__e2p_canary__()&\uff02y', '\uff02+__e2p_canary__()+\uff02', '\uff3f\uff3fimport\uff3f\uff3f\uff08\uff07os\uff07\uff09', 'm\u00b2 \u2116 a\u00a0b',
            '\uff07+__e2p_canary__()+\uff07']


def to_events(cases, results):
    evs = []
    for (pos, s, gate), r in zip(cases, results):
        v = r['value']
        evs.append({'pos': pos, 's': [ord(c) for c in s], 'gate': gate, 'outcome': r['outcome'], 'value': [ord(c) for c in v] if isinstance(v, str) else [-1],
                    'taint': r['taint'], 'canary': r['canary']})
    return evs


def validate(run, events, tag='Trace_C07'):
    from harness.tlc import parse_tuple
    verdicts = {}
    base = 0
    for pi, part in enumerate(core.chunks(events, 20000)):
        path = os.path.join(run.scratch, f'{tag}_{pi}.json')
        json.dump({'events': part}, open(path, 'w'))
        r = run.tlc('Trace_C07', ['SPECIFICATION Spec'], workers=1, timeout=1800, env={'TRACE_FILE': path}, tag=f'{tag}_{pi}')
        done = False
        for t in r.tuples:
            v = parse_tuple(t)
            if v[0] == 'V':
                verdicts[base + v[1]] = v[2]
            elif v[0] == 'DONE' and v[1] == len(part) + 1:
                done = True
        if not done:
            raise core.MachineryError(f'{tag}: not all events consumed')
        base += len(part)
    return verdicts


def observe_and_judge(run, cases, part):
    outs = core.pmap(_job, core.chunks(cases, 60), chunksize=1)
    results = []
    for o in outs:
        if isinstance(o, dict):
            raise core.MachineryError(o['harness_error'])
        results += o
    verdicts = validate(run, to_events(cases, results), 'Trace_C07_' + part)
    for i, ((pos, s, gate), r) in enumerate(zip(cases, results)):
        v = verdicts.get(i + 1)
        case = {'in': {'pos': pos, 's': s, 'gate': gate}, 'obs': r, 'kind': part}
        run.judge(case, v is None, clause=f'text {s!r} planted as {pos} (safety check {"on" if gate else "off"}): {v}; observed {r}',
                  nontrivial=any(ch in s for ch in '\'"\\\n{}%'), part=part)
        run.traces_validated += 1
        if r['outcome'] == 'ok':
            run.parts[part + '_loadable'] = run.parts.get(part + '_loadable', 0) + 1


def gen(run):
    L = 2 if run.quick else 3
    r = run.tlc('Gen_C07', ['INIT Init', 'NEXT Next', 'CONSTANT Alphabet = {97, 39, 34, 92, 10, 35, 123, 125, 37, 42, 63, 126, 40, 41, 43, 110}', f'CONSTANT L = {L}'],
                workers=4, timeout=1800)
    texts = [''.join(chr(c) for c in rec['s']) for rec in r.records]
    run.exhaustive[f'texts up to length {L} over 16 characters x 6 positions x gate on/off (raw and wrapped)'] = True
    cases = []
    for s in texts:
        for w in (s, 'zq' + s + 'jx'):
            for pos in POSITIONS:
                if applicable(pos, w):
                    for gate in (False, True):
                        cases.append((pos, w, gate))
    observe_and_judge(run, cases, 'gen')
    cases = [(pos, p, gate) for p in PAYLOADS for pos in POSITIONS if applicable(pos, p) for gate in (False, True)]
    cases += [(pos, 'zq' + p + 'jx', gate) for p in PAYLOADS for pos in POSITIONS for gate in (False, True)]
    observe_and_judge(run, cases, 'payload')


TWIN_FORMULAS = {'=1+1': 2, '="x"&"y"': 'xy'}


def public_path(run):
    """payloads through real files: xlsx -> Parser (safety on/off) -> write_translation -> Executor(class_file)"""
    rng = random.Random(run.seed + 7)
    texts = [p for p in PAYLOADS if '\n' not in p and not p.startswith('=')] + ["it's", 'a"b', 'back\\slash', 'q{0}', '100%',
                                                                                # texts beyond ASCII (their bytes matter when a file is decoded)
                                                                                'say "\u4e2d\' + str (__e2p_canary__ ()) #', '\u00e9"\u00fc\'\u4e2d', '\u4e2d',
                                                                                "=1+1", "=__e2p_canary__()", '="x"&"y"']     # text cells that look like formulas
    rows = {}
    for i, t in enumerate(texts):
        rows[(0, i)] = repo.AsText(t) if t.startswith('=') else t
        if t.startswith('='):
            if t in TWIN_FORMULAS:
                # real formula cells with exactly the same text, one read before the text cell and one after it
                rows[(2, i)] = t
                rows[(3 + len([k for k in rows if k[1] == 0 and k[0] >= 3]), 0)] = t
            continue
        if '"' not in t:
            rows[(1, i)] = '="' + t + '"'
    x = os.path.join(run.scratch, 'c07.xlsx')
    builtins.__e2p_canary__ = _canary
    # second sheet titles: quotes and braces; words that would read as a source-encoding declaration if they reached a comment line
    for gate, title2 in ((False, "O'Brien {x}"), (True, "O'Brien {x}"), (False, 'coding=gbk'), (True, 'coding=latin-1'), (False, 'fileencoding=cp1251')):
        repo.write_xlsx(x, [('S', rows), (title2, {(0, 0): 1})])
        _CANARY['n'] = 0
        p = os.path.join(run.scratch, f'c07_{int(gate)}.py')
        outcome, vals = 'ok', {}
        try:
            ps = repo.Parser().set_excel_file_path(x)
            (ps.enable_safety_check() if gate else ps.disable_safety_check()).write_translation(p)
            ex = repo.Executor().set_executed_class(class_file=p)
            for i, t in enumerate(texts):
                for c in (0, 1):
                    if (c, i) in rows:
                        try:
                            vals[(c, i)] = ex.get_cell(Cell(0, c, i)).value
                        except Exception as e:  # noqa
                            vals[(c, i)] = f'<raises {type(e).__name__}>'
            for (c, r0), t in sorted(rows.items()):
                if c >= 2 and t in TWIN_FORMULAS:
                    try:
                        got = ex.get_cell(Cell(0, c, r0)).value
                    except Exception as e:  # noqa
                        got = f'<raises {type(e).__name__}>'
                    ok = got == TWIN_FORMULAS[t] and type(got) is type(TWIN_FORMULAS[t])
                    run.judge({'in': {'pos': 'formula_twin', 's': t, 'gate': gate, 'mode': 'file', 'at': [c, r0]}, 'obs': str(got), 'kind': 'public_path'}, ok,
                              clause=f'file path: the formula cell {t} at column {c + 1}, row {r0 + 1} (a text cell holds the same characters) = {got!r}, expected {TWIN_FORMULAS[t]!r}',
                              part='public_path')
        except BaseException as e:  # noqa
            outcome = repo.outcome_of_exception(e)['o']
        evs, meta = [], []
        if outcome != 'ok':
            evs.append({'pos': 'const', 's': [0], 'gate': gate, 'outcome': outcome, 'value': [-1], 'taint': 0, 'canary': _CANARY['n']})
            meta.append(('workbook', outcome))
        else:
            for (c, i), v in vals.items():
                evs.append({'pos': 'const' if c == 0 else 'literal', 's': [ord(ch) for ch in texts[i]], 'gate': gate, 'outcome': 'ok',
                            'value': [ord(ch) for ch in v] if isinstance(v, str) else [-1], 'taint': 0, 'canary': _CANARY['n']})
                meta.append((texts[i], v))
        verdicts = validate(run, evs, f'Trace_C07_pp{int(gate)}')
        for j, (m, e) in enumerate(zip(meta, evs)):
            v = verdicts.get(j + 1)
            run.judge({'in': {'pos': e['pos'], 's': m[0], 'gate': gate, 'mode': 'file'}, 'obs': str(m[1]), 'kind': 'public_path'}, v is None,
                      clause=f'file path (safety {"on" if gate else "off"}): text {m[0]!r} as {e["pos"]}: {v}; observed {m[1]!r}', part='public_path')
            run.traces_validated += 1


def check(run):
    run.rule = ('every text up to length L over {a \' " \\ newline # { } % * ? ~ ( ) + n} enumerated by TLC, planted raw and wrapped in letters in 6 positions '
                '(constant cell, plain literal, literal & literal, criterion, SEARCH pattern, sheet title) with the safety check on and off, plus a payload '
                'corpus calling a canary builtin; each observation (outcome class, canary count, AST shape vs benign references, evaluated value) judged '
                'by TLC (Trace_C07). Non-trivial = the text contains a quote, backslash, newline, brace or percent.')
    run.assumptions += ['taint = the module\'s AST (constants normalised) differs from the AST of the same workbook with a benign text; for formula positions only '
                        'when the text holds no double quote (a double quote ends the Excel literal: formula structure, not Python text)',
                        'the canary detects executed call syntax; CPython\'s compile/exec are the trusted model of "executable"',
                        'the in-memory workbook reproduces Excel.parse\'s suspicious-cell detection; a sample goes through real xlsx files']
    L = 3 if run.quick else 4
    run.tlc('MC_PyString', ['INIT Init', 'NEXT Next', 'CONSTANT Alphabet = {97, 39, 34, 92, 10, 35, 123, 125, 37, 42, 63, 126, 40, 41, 43, 110}', f'CONSTANT L = {L}',
                            'INVARIANT QuoteIsInert', 'INVARIANT NoPrefixCloses', 'INVARIANT NaiveAnchors', 'INVARIANT NaiveSafeOnlyWithoutSpecials'],
            workers=8, timeout=1800)
    gen(run)
    public_path(run)


def replay(run, case):
    i = case['in']
    builtins.__e2p_canary__ = _canary
    if i.get('mode') == 'file':
        public_path(run)
        return
    cases = [(i['pos'], i['s'], i['gate'])]
    r = run_case(*cases[0])
    v = validate(run, to_events(cases, [r]), 'Trace_C07_replay').get(1)
    run.judge(dict(case, obs=r), v is None, clause=f"text {i['s']!r} planted as {i['pos']}: {v}; observed {r}")
