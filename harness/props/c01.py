"""C01 - formula operators keep their Excel meaning (precedence, sign, %, &).

MC   : MC_XlFormula: the ideal precedence grammar is self-consistent (Grouping, UnaryScope, BlankIsZero).
GEN  : Gen_C01: every operator chain of k binary operators (11 operators) with operand decorations and one bracket
       pair, evaluated by the ideal grammar under 5 valuations (distinct primes / negative+dyadic / blanks / texts /
       booleans), with the Guard set of the open findings computed by the spec. Each chain is evaluated by the real
       pipeline with operands supplied as literals, as workbook cells and as overrides.
       Gen_C01Lit: numeric literal texts with their exact decimal value (nearest-double clause, decimal mode).
TRACE: random deeper formulas (seeded) recorded as {tokens, env, observed value}; Trace_C01 re-parses and
       re-evaluates each in TLC with the ideal grammar.
"""
import json
import os
import random
from fractions import Fraction

from harness import absval, core, repo
from harness.repo import Cell

OPS = {'PLUS': '+', 'MINUS': '-', 'MUL': '*', 'DIV': '/', 'AMP': '&', 'PCT': '%', 'EQ': '=', 'NE': '<>', 'LT': '<', 'GT': '>',
       'LE': '<=', 'GE': '>=', 'LP': '(', 'RP': ')'}
VARS = ['x1', 'x2', 'x3', 'x4', 'x5']
# python renditions of the spec valuations (C01Envs.tla) - cross-checked against the exported ideal values of plain operands
ENVS = [
    {'x1': 2, 'x2': 3, 'x3': 5, 'x4': 7, 'x5': 11},
    {'x1': -3, 'x2': 0.5, 'x3': 8, 'x4': 0.25, 'x5': 6},
    {'x1': None, 'x2': 5, 'x3': None, 'x4': 2, 'x5': 3},
    {'x1': 'a', 'x2': 'b', 'x3': 'a', 'x4': 2, 'x5': 'bc'},
    {'x1': True, 'x2': 1, 'x3': False, 'x4': 0, 'x5': 4},
    {'x1': 'aB', 'x2': 'Ab', 'x3': 1, 'x4': True, 'x5': 'a'},
    {'x1': 'a  b', 'x2': 'a b', 'x3': 'a\tb', 'x4': ' a ', 'x5': 2},
]


def spec_value(j):
    """Ideal value JSON from XlFormula -> absval JSON."""
    k = j['k']
    if k == 'text':
        return absval.text(''.join(j['s']))
    return j


def lit(v):
    if isinstance(v, bool):
        return 'TRUE' if v else 'FALSE'
    if isinstance(v, str):
        return '"' + v + '"'
    if isinstance(v, (int, float)) and v >= 0:
        return repr(v)
    return None


def text_of(tokens, names):
    out = []
    for t in tokens:
        out.append(names[t] if t in names else OPS[t])
    return '=' + ''.join(out)


def spaced(tokens, names, rng):
    return '=' + ''.join(rng.choice(['', ' ']) + (names[t] if t in names else OPS[t]) for t in tokens)


CELLNAMES = {v: f'{chr(65 + i)}1' for i, v in enumerate(VARS)}          # x1 -> A1 ...
CELLPOS = {v: (i, 0) for i, v in enumerate(VARS)}


def eval_batch(args):
    """One workbook per (env, mode): formulas in column Z. Returns list of (kind, payload) aligned with recs."""
    toks_list, env_i, mode = args
    env = ENVS[env_i]
    try:
        if mode == 'lit':
            names = {v: lit(env[v]) for v in VARS}
            if any(n is None for n in names.values()):
                return None
            forms = [text_of(t, names) for t in toks_list]
            res = repo.eval_formulas(forms, consts={}, timeout=20)
        elif mode == 'cell':
            consts = {CELLPOS[v]: env[v] for v in VARS if env[v] is not None}
            forms = [text_of(t, CELLNAMES) for t in toks_list]
            res = repo.eval_formulas(forms, consts=consts, timeout=20)
        else:
            consts = {CELLPOS[v]: 999 for v in VARS if env[v] is not None}
            ov = [(0, CELLPOS[v][0], CELLPOS[v][1], env[v]) for v in VARS if env[v] is not None]
            forms = [text_of(t, CELLNAMES) for t in toks_list]
            res = repo.eval_formulas(forms, consts=consts, overrides=ov, timeout=20)
        return [(forms[i], absval.obs_outcome(*r)) for i, r in enumerate(res)]
    except Exception as e:
        return {'harness_error': f'{type(e).__name__}: {e}'}


def conforms(ideal, obs):
    """ideal: absval JSON value; obs: Outcome."""
    if obs['o'] != 'value':
        return False
    return absval.same(ideal, obs['v'])


def gen(run):
    decor = 'Dec3'
    runs = [('K = {1, 2}', 'Dec3', 'TRUE', 'chains k<=2, 3 decorations, one bracket pair')]
    if run.quick:
        runs.append(('K = {3}', 'Dec1', 'FALSE', 'chains k=3 undecorated'))
    else:
        runs.append(('K = {3}', 'Dec3', 'FALSE', 'chains k=3, 3 decorations'))
        runs.append(('K = {3}', 'Dec1', 'TRUE', 'chains k=3 undecorated, one bracket pair'))
        runs.append(('K = {4}', 'Dec1', 'FALSE', 'chains k=4 undecorated'))
        runs.append(('K = {1}', 'Dec5', 'TRUE', 'chains k=1, 5 decorations'))
    recs = []
    for i, (k, dec, br, name) in enumerate(runs):
        r = run.tlc('MC_Gen_C01', ['INIT Init', 'NEXT Next', f'CONSTANT {k}', f'CONSTANT Decor <- {dec}', f'CONSTANT Brackets = {br}',
                                   'CONSTANT Ops <- AllOps', 'CONSTANT Envs <- McEnvs', 'CONSTANT EnvNames = 0'],
                    workers=12, timeout=3000, tag=f'Gen_C01_{i}', heap='8g')
        recs += r.records
        run.exhaustive[name] = True
    # dedupe by token sequence
    seen, uniq = set(), []
    for rec in recs:
        k = tuple(rec['t'])
        if k not in seen:
            seen.add(k)
            uniq.append(rec)
    judge_records(run, uniq, 'gen')


def judge_records(run, recs, part):
    jobs = []
    chunk = 400
    for env_i in range(len(ENVS)):
        for mode in ('lit', 'cell', 'ovr'):
            for c in core.chunks(range(len(recs)), chunk):
                jobs.append((env_i, mode, c))
    res = core.pmap(eval_batch, [([recs[i]['t'] for i in c], e, m) for (e, m, c) in jobs], chunksize=1)
    oos = 0
    for (env_i, mode, c), out in zip(jobs, res):
        if out is None:
            continue
        if isinstance(out, dict):
            raise core.MachineryError(out['harness_error'])
        for i, (form, obs) in zip(c, out):
            rec = recs[i]
            ideal = spec_value(rec['vals'][env_i])
            if ideal['k'] == 'err':           # OOS (outside the pinned scope) or division by zero
                oos += 1
                continue
            ok = conforms(ideal, obs)
            case = {'in': {'tokens': rec['t'], 'formula': form, 'env': env_i, 'mode': mode}, 'ideal': absval.show(ideal),
                    'obs': absval.show(obs['v']) if obs['o'] == 'value' else obs, 'kind': part}
            run.judge(case, ok, devs=rec['g'] if obs['o'] in ('value',) or True else [],
                      clause=f"{form} (env {env_i}, operands as {mode}) = {case['obs']}, Excel defines {case['ideal']}",
                      nontrivial=len(rec['t']) > 3, part=part)
            run.traces_validated += 1
    run.parts[part + '_out_of_scope'] = oos


# ------------------------------------------------------------------ numeric literal clause
def gen_literals(run):
    r = run.tlc('Gen_C01Lit', ['INIT Init', 'NEXT Next', f'CONSTANT Thorough = {"FALSE" if run.quick else "TRUE"}', 'INVARIANT ValueLaw'],
                workers=8, timeout=1800)
    recs = r.records
    run.exhaustive['numeric literal grid'] = True
    res = core.pmap(_lit_batch, core.chunks(recs, 500), chunksize=1)
    for chunk_recs, out in zip(core.chunks(recs, 500), res):
        if isinstance(out, dict):
            raise core.MachineryError(out['harness_error'])
        for rec, obs in zip(chunk_recs, out):
            if obs.get('o') == 'big':
                run.judge({'in': {'literal': rec['text']}, 'ideal': obs['want'], 'obs': obs['got'], 'kind': 'literal'}, obs['ok'],
                          clause=f"literal {rec['text']} evaluates to {obs['got']}, the double nearest to the decimal is {obs['want']}", part='literal')
                run.traces_validated += 1
                continue
            ideal = absval.norm_dec(rec['m'], rec['s']) if rec['s'] >= 0 else {'k': 'dec', 'm': rec['m'] * 10 ** (-rec['s']), 's': 0}
            ok = obs['o'] == 'value' and obs['v'].get('k') in ('dec',) and absval.same(ideal, obs['v'])
            case = {'in': {'literal': rec['text']}, 'ideal': absval.show(ideal), 'obs': absval.show(obs['v']) if obs['o'] == 'value' else obs, 'kind': 'literal'}
            run.judge(case, ok, clause=f"literal {rec['text']} evaluates to {case['obs']}, the double nearest to the decimal is {case['ideal']}",
                      nontrivial='.' in rec['text'] or 'e' in rec['text'], part='literal')
            run.traces_validated += 1
            if 'pct' in obs and rec['s'] >= 0:
                # the same literal with a postfix %: its hundredth, at any magnitude (m * 10^-(s+2))
                ideal = absval.norm_dec(rec['m'], rec['s'] + 2)
                op = obs['pct']
                ok = op['o'] == 'value' and op['v'].get('k') in ('dec',) and absval.same(ideal, op['v'])
                case = {'in': {'literal': rec['text'] + '%'}, 'ideal': absval.show(ideal), 'obs': absval.show(op['v']) if op['o'] == 'value' else op, 'kind': 'literal'}
                run.judge(case, ok, clause=f"{rec['text']}% evaluates to {case['obs']}, the hundredth of the literal is {case['ideal']}", part='literal')
                run.traces_validated += 1


def _lit_batch(recs):
    try:
        res = repo.eval_formulas(['=' + r['text'] for r in recs], consts={}, timeout=20)
        pct = {i: r for i, r in enumerate(recs) if r['s'] >= 0 and (r['s'] >= 14 or i % 7 == 0)}
        pres = dict(zip(pct, repo.eval_formulas(['=' + r['text'] + '%' for r in pct.values()], consts={}, timeout=20)))
        out = []
        for i, (rec, (k, p)) in enumerate(zip(recs, res)):
            o = absval.obs_outcome(k, p, mode='dec')
            if i in pres:
                o['pct'] = absval.obs_outcome(*pres[i], mode='dec')
            if rec['s'] < -6 and k == 'val' and isinstance(p, (int, float)) and not isinstance(p, bool):
                # beyond the range of the abstract values (32-bit limbs): decided here, exactly - the literal denotes the double nearest
                # to m * 10^-s; an exact integer that is not that double (10**23) is a different number
                from fractions import Fraction
                want = float(Fraction(rec['m']) * Fraction(10) ** (-rec['s']))
                o = {'o': 'big', 'ok': Fraction(p) == Fraction(want), 'got': repr(p), 'want': repr(want)}
            out.append(o)
        return out
    except Exception as e:
        return {'harness_error': f'{type(e).__name__}: {e}'}


# ------------------------------------------------------------------ direction B
def random_formula(rng, depth):
    """Random token sequence of the operator grammar (deeper than the enumerated box)."""
    def operand(d):
        x = rng.random()
        if d > 0 and x < 0.3:
            return ['LP'] + expr(d - 1) + ['RP']
        t = [rng.choice(VARS)]
        if rng.random() < 0.2:
            t = t + ['PCT']
        if rng.random() < 0.2:
            t = [rng.choice(['MINUS', 'PLUS'])] + t
        return t

    def expr(d):
        n = rng.randint(1, 4)
        out = operand(d)
        for _ in range(n):
            out += [rng.choice(['PLUS', 'MINUS', 'MUL', 'DIV', 'PLUS', 'MUL', 'AMP', 'EQ', 'LT', 'GE', 'NE'])] + operand(d)
        return out
    return expr(depth)


def _trace_batch(args):
    seeds, = args
    try:
        out = []
        by_env = {}
        for s in seeds:
            rng = random.Random(s)
            toks = random_formula(rng, 2)
            env_i = rng.choice([0, 0, 1, 2, 4])
            mode = rng.choice(['cell', 'ovr'])
            by_env.setdefault((env_i, mode), []).append((s, toks, rng.random() < 0.5))
        for (env_i, mode), items in by_env.items():
            res = eval_batch(([t for _, t, _ in items], env_i, mode))
            if isinstance(res, dict):
                return res
            for (s, toks, _), (form, obs) in zip(items, res):
                out.append({'seed': s, 't': toks, 'env': env_i + 1, 'mode': mode, 'formula': form, 'obs': obs})
        return out
    except Exception as e:
        return {'harness_error': f'{type(e).__name__}: {e}'}


def to_trace_value(obs):
    """Outcome -> the value encoding Trace_C01 reads (text as list of 1-char strings)."""
    if obs['o'] != 'value':
        return {'k': 'other'}
    v = obs['v']
    if v['k'] == 'text':
        return {'k': 'text', 's': [chr(c) for c in v['c']]}
    if v['k'] in ('num', 'bool', 'blank'):
        return v
    if v['k'] == 'err':
        return {'k': 'err', 'e': v['e']}
    return {'k': 'other'}


def validate(run, events, tag='Trace_C01'):
    from harness.tlc import parse_tuple
    path = os.path.join(run.scratch, tag + '.json')
    json.dump({'events': events}, open(path, 'w'))
    r = run.tlc('Trace_C01', ['SPECIFICATION Spec'], workers=1, timeout=2400, env={'TRACE_FILE': path}, tag=tag, heap='6g')
    verdicts, done = {}, False
    for t in r.tuples:
        v = parse_tuple(t)
        if v[0] == 'V':
            verdicts[v[1]] = (v[2], v[3])      # (status, guards)
        elif v[0] == 'DONE' and v[1] == len(events) + 1:
            done = True
    if not done:
        raise core.MachineryError(f'{tag}: not all events consumed')
    return verdicts


def trace(run):
    n = 1500 if run.quick else 20000
    seeds = [run.seed * 100069 + i for i in range(n)]
    res = core.pmap(_trace_batch, [(c,) for c in core.chunks(seeds, 250)], chunksize=1)
    evs = []
    for out in res:
        if isinstance(out, dict):
            raise core.MachineryError(out['harness_error'])
        evs += out
    verdicts = validate(run, [{'t': e['t'], 'env': e['env'], 'obs': to_trace_value(e['obs'])} for e in evs])
    oos = 0
    for i, e in enumerate(evs):
        st, guards = verdicts.get(i + 1, ('ok', []))
        if st == 'oos':
            oos += 1
            continue
        case = {'in': {'tokens': e['t'], 'formula': e['formula'], 'env': e['env'] - 1, 'mode': e['mode']},
                'obs': absval.show(e['obs']['v']) if e['obs']['o'] == 'value' else e['obs'], 'kind': 'trace'}
        run.judge(case, st == 'ok', devs=guards, clause=f"Trace_C01: {e['formula']} (env {e['env'] - 1}) = {case['obs']}: not the value of the ideal grammar",
                  part='trace')
        run.traces_validated += 1
    run.parts['trace_out_of_scope'] = oos


def witnesses(run):
    """Re-run the witness of every open finding of this property."""
    for fid, f in run.open.items():
        w = f['witness']
        env_i = w.get('env', 0)
        res = eval_batch(([w['tokens']], env_i, w.get('mode', 'cell')))
        form, obs = res[0]
        got = absval.show(obs['v']) if obs['o'] == 'value' else str(obs)
        run.witness_note(fid, got != w['expected'], f"{form} = {got}")


def check(run):
    run.rule = ('operator chains enumerated by TLC (k binary operators from 11, operand decorations plain/negated/percent, one '
                'bracket pair), each evaluated by the ideal grammar under 5 valuations and by the real pipeline with operands as '
                'literals / workbook cells / overrides; numeric literal grid in exact decimal mode; random deeper formulas judged by '
                'Trace_C01. Non-trivial = at least two operators or a decoration.')
    run.assumptions += ['results of / are compared as rationals snapped within 1e-12 (operands chosen so denominators stay <= 10^4)',
                        'nearest-double clause decided by repr() round trip (exact for <= 15 significant digits)',
                        'out of scope (not generated / skipped): text in arithmetic, cross-kind comparisons, division by zero, non-integral numbers under &']
    r = run.tlc('MC_XlFormula', ['INIT MInit', 'NEXT MNext', 'INVARIANT Grouping', 'INVARIANT UnaryScope', 'INVARIANT BlankIsZero',
                                 'INVARIANT GuardsSyntactic'], workers=4, timeout=600)
    witnesses(run)
    gen(run)
    gen_literals(run)
    trace(run)


def replay(run, case):
    i = case['in']
    if case.get('kind') == 'literal':
        obs = _lit_batch([{'text': i['literal']}])[0]
        got = absval.show(obs['v']) if obs['o'] == 'value' else str(obs)
        run.judge(dict(case, obs=got), got == case['ideal'], clause=f"literal {i['literal']} = {got}, expected {case['ideal']}")
        return
    res = eval_batch(([i['tokens']], i['env'], i['mode']))
    form, obs = res[0]
    verdicts = validate(run, [{'t': i['tokens'], 'env': i['env'] + 1, 'obs': to_trace_value(obs)}])
    st, guards = verdicts.get(1, ('ok', []))
    got = absval.show(obs['v']) if obs['o'] == 'value' else obs
    run.judge(dict(case, obs=got), st in ('ok', 'oos'), devs=guards, clause=f'Trace_C01: {form} = {got}: not the value of the ideal grammar')
