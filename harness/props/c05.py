"""C05 - a formula is translated whole or rejected, never silently truncated.

MC/GEN: ImplGrammar = the library's token sets (a) read as a CFG (Accept = the whole sequence is
        derived) and (b) interpreted the way the code does (ordered first match, (tree, rest),
        control-construction flag, AstBuilder step). TLC enumerates token soups, single-token
        mutations of valid seeds and the arity sweep, checks InvWholeOrLib / InvWholeImpliesCFG on the
        model and exports (tokens, Accept, predicted raw result) per state.
        Each state is concretised to text, lexed+translated by the real code:
            not Accept  =>  the outcome must be the library's parser exception
        (model prediction vs code outcome mismatches are reported as MODEL-DRIFT, never as verdicts).
META  : for accepted formulas every whitespace placement and both separators give the same result.
TRACE : random formula-like texts; the real Lexer's classes + outcome are judged by Trace_C05.
"""
import json
import os
import random

from harness import absval, core, repo
from harness.repo import Cell

TXT = {
    'LiteralToken': '2', 'CellIdentifierToken': 'A1', 'MatrixOfCellIdentifiersToken': 'A1:B2', 'CellIdentifierRangeToken': 'A1:A2',
    'PatternToken': '"a*"', 'BracketStartToken': '(', 'BracketFinishToken': ')', 'SeparatorToken': ',',
    'NotEqOperatorToken': '<>', 'GtOrEqualOperatorToken': '>=', 'LtOrEqualOperatorToken': '<=', 'EqOperatorToken': '=',
    'GtOperatorToken': '>', 'LtOperatorToken': '<', 'PlusOperatorToken': '+', 'MinusOperatorToken': '-',
    'MultiplicationOperatorToken': '*', 'DivOperatorToken': '/', 'AmpersandToken': '&', 'PercentToken': '%',
}
CONSTS = {(0, 0): 3, (1, 0): 5, (0, 1): 7, (1, 1): 11}


def keyword_text():
    from excel2pycl.src.tokens.regexp_base_token import KeywordRegexpBaseToken
    out = {}

    def walk(c):
        for s in c.__subclasses__():
            out[s.__name__] = s.regexp
            walk(s)
    walk(KeywordRegexpBaseToken)
    return out


_KW = {}


def text_of(tok, variant=0):
    if not _KW:
        _KW.update(keyword_text())
    if tok in TXT:
        if tok == 'LiteralToken':
            # numbers and texts carry a marker that identifies the position (variant = spelling variant + position in the formula):
            # a literal that was parsed must be found again in the code emitted for the cell
            m = 7000 + variant
            return [str(m), f'"x{m}"', f'{m}.5', 'TRUE'][variant % 4]
        if tok == 'CellIdentifierToken':
            return ['A1', '$B$2', 'S!B1'][variant % 3]
        if tok == 'SeparatorToken':
            return [',', ';'][variant % 2]
        return TXT[tok]
    return _KW[tok]


def concretise(toks, variant=0, gap=' '):
    out = []
    for i, t in enumerate(toks):
        x = text_of(t, variant + i)
        if x == 'TRUE' and i + 1 < len(toks) and toks[i + 1] == 'BracketStartToken':
            # "TRUE (" opens the CALL FORM of the truth value - one literal token of its own, not a literal followed by a bracket:
            # a literal that is followed by a bracket is spelled as a number
            x = str(7000 + variant + i)
        out.append(x)
    return '=' + gap + gap.join(out)


def lex_classes(text):
    from excel2pycl.src.lexer import Lexer
    return [type(t).__name__ for t in Lexer.parse(text, Cell(0, 25, 0))]


def translate_outcome(text, timeout=20.0):
    """Outcome class of translating one formula cell through the bulk driver (+ load + evaluate)."""
    cells = dict(CONSTS)
    cells[(25, 0)] = text
    excel = repo.mem_excel([('S', cells)])
    try:
        src, _ = repo.with_timeout(timeout, repo.translate_entry, excel, Cell(0, 25, 0))
    except BaseException as e:  # noqa
        if isinstance(e, (KeyboardInterrupt, SystemExit)):
            raise
        o = repo.outcome_of_exception(e)
        return o['o'], o.get('t', ''), None
    try:
        klass = repo.load_class(src)
    except SyntaxError:
        return 'syntax', '', None
    try:
        v = repo.fresh_executor(klass).get_cell(Cell(0, 25, 0)).value
        return 'ok', '', absval.to_spec(v)
    except Exception as e:
        return 'ok', 'eval:' + type(e).__name__, {'k': 'err', 'e': 'ANY'}


def dropped_literals(text, toks, variant):
    """markers of number / text literals of an ACCEPTED formula that do not occur in the emitted class: a parsed part that was dropped"""
    cells = dict(CONSTS)
    cells[(25, 0)] = text
    try:
        src, _ = repo.with_timeout(20.0, repo.translate_entry, repo.mem_excel([('S', cells)]), Cell(0, 25, 0))
    except BaseException as e:  # noqa
        if isinstance(e, (KeyboardInterrupt, SystemExit)):
            raise
        return []
    return [str(7000 + variant + i) for i, t in enumerate(toks) if t == 'LiteralToken' and (variant + i) % 4 != 3 and str(7000 + variant + i) not in src]


def judge_rec(args):
    rec, variant = args
    try:
        toks = rec['t']
        text = concretise(toks, variant)
        try:
            lexed = lex_classes(text)
        except repo.E2PyclException:
            lexed = None
        want = ['EqOperatorToken'] + toks
        lexdiff = lexed != want
        o, t, _ = translate_outcome(text)
        if lexdiff:
            # The concretiser emits one canonical lexeme per generated class, separated by blanks, so the
            # generated classes ARE what the text means. A lexer that tokenises differently is judged by the
            # observable outcome like everything else (no model prediction applies).
            if not rec['acc'] and o != 'lib':
                return 'bad', text, (f"the text means {toks} (not derivable as a whole) but the lexer produced {lexed} "
                                     f"and the outcome is '{o}' instead of the parser exception"), ''
            return 'lexdiff', text, '', ''
        pred = {'whole': 'ok', 'exc': 'lib', 'none': 'lib', 'truncated': 'lib'}[rec['raw']]
        drift = '' if (o == pred or (pred == 'ok' and o in ('lib', 'foreign', 'syntax'))) else f'model predicts {pred}, code gives {o}'
        if not rec['acc'] and o != 'lib':
            return 'bad', text, f"the grammar does not derive the whole text, outcome '{o}{(':' + t) if t else ''}' instead of the parser exception", drift
        if o == 'ok' and 'TextKeywordToken' not in toks:      # (TEXT is translated as its value: its format argument is not applied - not a C05 matter)
            lost = dropped_literals(text, toks, variant)
            if lost:
                return 'bad', text, f'the formula was accepted but the literals {lost} do not occur in the emitted class: a part of the formula was dropped', drift
        return 'ok', text, '', drift
    except Exception as e:
        return 'harness', '', f'{type(e).__name__}: {e}', ''


def run_records(run, recs, part):
    jobs = [(r, i % 12) for i, r in enumerate(recs)]
    res = core.pmap(judge_rec, jobs)
    drift = 0
    lexdiff = 0
    for (rec, variant), (st, text, clause, dr) in zip(jobs, res):
        if st == 'harness':
            raise core.MachineryError(clause)
        if st == 'lexdiff':
            lexdiff += 1
            continue
        if dr:
            drift += 1
            if drift <= 3:
                run.notes.append(f'MODEL-DRIFT {part}: {text!r}: {dr}')
        case = {'in': {'tokens': rec['t'], 'text': text}, 'ideal': {'accept': rec['acc']}, 'obs': clause or 'conforms', 'kind': part}
        run.judge(case, st == 'ok', clause=clause, nontrivial=rec['acc'] or rec['raw'] in ('truncated', 'none'), part=part)
        run.traces_validated += 1
    if drift:
        run.notes.append(f'MODEL-DRIFT {part}: {drift} case(s) where the code-shaped parser model and the code disagree (not a verdict)')
    if lexdiff:
        run.notes.append(f'{part}: {lexdiff} concretisations did not lex back to the generated classes (skipped)')
    return lexdiff


# ------------------------------------------------------------------ whitespace / separator metamorphic
META_SEEDS = [
    ['2', '+', 'A1', '*', '3'], ['(', '2', '-', 'A1', ')', '/', '4'], ['-', '2', '%', '&', '"x"'], ['A1', '<=', '3'],
    ['IF', '(', 'A1', '>', '2', ',', '1', ',', '0', ')'], ['SUM', '(', 'A1:B2', ',', '2', ')', '+', '1'],
    ['ROUND', '(', 'A1', '/', '7', ',', '2', ')'], ['IFERROR', '(', 'VLOOKUP', '(', 'A1', ',', 'A1:B2', ',', '2', ',', '0', ')', ',', '9', ')'],
    ['SUMIFS', '(', 'A1:A2', ',', 'B1:B2', ',', '5', ')'], ['MAX', '(', 'A1', ',', 'B1', ',', '4', ')'],
    ['LEFT', '(', '"hello"', ',', '2', ')', '&', 'MID', '(', '"hello"', ',', '2', ',', '3', ')'],
    ['COUNTIFS', '(', 'A1:B2', ',', '">4"', ')'], ['AND', '(', 'A1', '>', '1', ',', 'B1', '<', '9', ')'],
    ['IF', '(', 'TRUE', '(', ')', ',', '1', ',', 'FALSE', '(', ')', ')'],          # the call form of the truth values
]


def alnum_edge(a, b):
    return (a[-1].isalnum() or a[-1] in '"$') and (b[0].isalnum() or b[0] in '"$')


def spellings(seed, rng, n):
    out = []
    canon = '=' + ' '.join(seed)
    for k in range(n):
        parts = ['=']
        mode = k % 7                        # 0..5: one kind of gap everywhere; 6: random gaps
        for i, t in enumerate(seed):
            tt = t
            if t == ',' and (k // 7) % 2 == 1:
                tt = ';'
            if i == 0:
                gap = ['', ' ', '  ', '', '', ''][mode] if mode != 6 else rng.choice(['', ' ', '   '])
            else:
                prev = seed[i - 1]
                # blanks, tabs and line breaks (Alt+Enter inside a formula) are all whitespace between tokens
                choices = [' ', '  ', '\t', '\n', ' \n ', '\r\n'] if alnum_edge(prev, t) else ['', ' ', '  ', '\t', '\n', '\r\n']
                gap = choices[mode] if mode != 6 else rng.choice(choices)
            parts.append(gap + tt)
        # whitespace after the last token is whitespace too (a formula typed with a trailing blank or line break)
        tail = ['', ' ', '', '\n', '', '  ', ' \t'][mode] if mode != 6 else rng.choice(['', ' ', '\n'])
        out.append(''.join(parts) + tail)
    return canon, out


def meta_job(args):
    seed, rs, n = args
    try:
        canon, sp = spellings(seed, random.Random(rs), n)
        ref = translate_outcome(canon)
        bad = []
        for s in sp:
            o = translate_outcome(s)
            same = o[0] == ref[0] and (o[2] is None) == (ref[2] is None) and (o[2] is None or absval.same(o[2], ref[2]))
            if not same:
                bad.append((s, o[0], absval.show(o[2]) if o[2] else ''))
        return canon, (ref[0], absval.show(ref[2]) if ref[2] else ''), len(sp), bad
    except Exception as e:
        return None, f'{type(e).__name__}: {e}', 0, []


def meta(run):
    n = 21 if run.quick else 70
    res = core.pmap(meta_job, [(s, run.seed * 31 + i, n) for i, s in enumerate(META_SEEDS)], chunksize=1)
    for seed, (canon, ref, cnt, bad) in zip(META_SEEDS, res):
        if canon is None:
            raise core.MachineryError(ref)
        if ref[0] != 'ok':
            raise core.MachineryError(f'whitespace seed {canon!r} is not translatable: {ref}')
        run.count(cnt)
        case = {'in': {'canonical': canon, 'spellings_tried': cnt}, 'obs': bad[:5] or 'all spellings agree', 'ideal': ref, 'kind': 'whitespace'}
        run.judge(case, not bad, clause=f'whitespace / separator spelling changes the result: {bad[:2]}', part='whitespace')



# ------------------------------------------------------------------ character runs no token contains, through the workbook reader
FOREIGN = ['_xlfn.', '_xlws.', '_xlfn._xlws.', '_xlpm.', '_', '@', '~', '?', '`', '\\', '_x000D_', '[1]', '#', '{', '}']


def foreign_runs(run):
    """Formulas stored in a workbook FILE (the reader is part of the translation): a run of characters that no token of the grammar
    contains makes the text unconsumable wherever it stands outside a text literal - after the last token, between two tokens, glued
    to a token - so the formula must be rejected; inside a text literal it is part of the text and must come back unchanged."""
    from excel2pycl.src.excel import Excel
    texts = []            # (text, expectation): 'reject' or ('text', value)
    for si, seed in enumerate(META_SEEDS):
        for ji, junk in enumerate(FOREIGN):
            places = sorted({0, len(seed), (si + ji) % (len(seed) + 1), (si * 3 + ji * 5) % (len(seed) + 1)})
            for pl in places:
                for glue in ('', ' '):
                    toks = seed[:pl] + [junk] + seed[pl:]
                    texts.append(('=' + glue.join(toks), 'reject'))
    for junk in FOREIGN:
        texts.append((f'="a{junk}b"', ('text', f'a{junk}b')))
        texts.append((f'="x"&"{junk}y"', ('text', f'x{junk}y')))
        texts.append((f'=IF("{junk}"="{junk}",1,2)', ('num', 1)))
        texts.append((f'=IF("{junk}"="{junk}x",1,2)', ('num', 2)))
        texts.append((f'=LEFT("{junk}{junk}",{len(junk)})', ('text', junk)))
    texts = [t for t in texts if not (t[0].count('"') % 2 == 0 and '"#' in t[0] and t[1] == 'reject')]
    if run.quick:
        keep = [t for i, t in enumerate(texts) if t[1] != 'reject' or (i + run.seed) % 3 == 0]
    else:
        keep = texts
    cells = dict(CONSTS)
    for i, (t, _) in enumerate(keep):
        cells[(25, i)] = t
    path = os.path.join(run.scratch, 'c05_foreign.xlsx')
    repo.write_xlsx(path, [('S', cells)])
    excel = Excel.parse(path)
    for i, (t, want) in enumerate(keep):
        try:
            src, _ = repo.with_timeout(20.0, repo.translate_entry, excel, Cell(0, 25, i))
            try:
                v = repo.fresh_executor(repo.load_class(src)).get_cell(Cell(0, 25, i)).value
                obs = ('ok', v)
            except Exception as e:  # noqa
                obs = ('ok', f'evaluation raises {type(e).__name__}')
        except BaseException as e:  # noqa
            if isinstance(e, (KeyboardInterrupt, SystemExit)):
                raise
            o = repo.outcome_of_exception(e)
            obs = (o['o'], o.get('t', ''))
        if want == 'reject':
            ok = obs[0] == 'lib'
            clause = f'{t!r} (read from a workbook file) contains a run of characters no token contains: expected the parser exception, got {obs}'
        else:
            ok = obs[0] == 'ok' and obs[1] == want[1] and not isinstance(obs[1], bool)
            clause = f'{t!r} (read from a workbook file): expected {want[1]!r}, got {obs}'
        run.judge({'in': {'text': t, 'via': 'workbook file'}, 'ideal': want if want == 'reject' else list(want), 'obs': [str(x)[:120] for x in obs], 'kind': 'foreign_run'},
                  ok, clause=clause, part='foreign_runs', nontrivial=True)
        run.traces_validated += 1

# ------------------------------------------------------------------ direction B
FRAGS = ['2', '3.5', '"x"', 'A1', '$B$2', 'A1:B2', 'TRUE', '(', ')', ',', ';', '+', '-', '*', '/', '&', '%', '=', '<', '>', '<=', '<>',
         'SUM', 'IF', 'ROUND', 'MAX', 'LEFT', 'TODAY', 'IFERROR', 'COUNT', 'AND', 'VLOOKUP', 'INDEX', 'MATCH', 'DATE', '"a*"', 'MID']


def random_text(rng):
    mode = rng.random()
    if mode < 0.5:
        # start from a valid seed and damage it
        s = list(rng.choice(META_SEEDS))
        for _ in range(rng.randint(0, 2)):
            x = rng.random()
            p = rng.randrange(len(s) + 1)
            if x < 0.4:
                s.insert(p, rng.choice(FRAGS))
            elif x < 0.7 and s:
                s.pop(min(p, len(s) - 1))
            elif x < 0.85 and s:
                q = min(p, len(s) - 1)
                s.insert(q, s[q])
            elif len(s) > 1:
                q = min(p, len(s) - 2)
                s[q], s[q + 1] = s[q + 1], s[q]
        return '= ' + ' '.join(s)
    return '= ' + ' '.join(rng.choice(FRAGS) for _ in range(rng.randint(1, 9)))


def trace_job(seed):
    rng = random.Random(seed)
    text = random_text(rng)
    try:
        try:
            toks = repo.with_timeout(10, lex_classes, text)
        except repo.E2PyclException:
            return {'text': text, 'skip': 'lexer rejects'}
        o, t, _ = translate_outcome(text, timeout=20.0)
        return {'text': text, 'toks': toks, 'outcome': o, 'detail': t}
    except Exception as e:
        return {'harness_error': f'{type(e).__name__}: {e}'}


def validate(run, events, tag='Trace_C05'):
    from harness.tlc import parse_tuple
    path = os.path.join(run.scratch, tag + '.json')
    json.dump({'events': events}, open(path, 'w'))
    r = run.tlc('Trace_C05', ['SPECIFICATION Spec'], workers=1, timeout=2400, env={'TRACE_FILE': path}, tag=tag, heap='6g')
    rej, done = {}, False
    for t in r.tuples:
        v = parse_tuple(t)
        if v[0] == 'REJECT':
            rej[v[1]] = v[3]
        elif v[0] == 'DONE' and v[1] == len(events) + 1:
            done = True
    if not done:
        raise core.MachineryError(f'{tag}: not all events consumed')
    return rej


def trace(run, c06=False):
    n = 600 if run.quick else 8000
    evs = core.pmap(trace_job, [run.seed * 100057 + i for i in range(n)])
    good = []
    for e in evs:
        if 'harness_error' in e:
            raise core.MachineryError(e['harness_error'])
        if 'skip' not in e and len(e['toks']) <= 24:
            good.append(e)
    rej = validate(run, [{'toks': e['toks'], 'outcome': e['outcome']} for e in good])
    for i, e in enumerate(good):
        rj = rej.get(i + 1)
        if rj and not c06 and rj.startswith('outcome class'):
            rj = None if e['outcome'] != 'timeout' else rj   # foreign/syntax outcomes on grammatical input belong to C06
        case = {'in': {'text': e['text'], 'tokens': e['toks']}, 'obs': {'outcome': e['outcome'], 'detail': e['detail']}, 'kind': 'trace'}
        run.judge(case, rj is None, clause='Trace_C05: ' + rj if rj else '', nontrivial=e['outcome'] == 'ok', part='trace')
        run.traces_validated += 1


def drift_check(run):
    """Code's current token sets vs the committed transcription (MODEL-DRIFT note only)."""
    import subprocess
    import sys
    p = subprocess.run([sys.executable, os.path.join(core.VERIF, 'tools', 'gen_tokensets.py')], stdout=subprocess.PIPE,
                       stderr=subprocess.PIPE, text=True, env=dict(os.environ, E2P_REPO=repo.REPO), cwd=core.VERIF)
    cur = p.stdout.strip()
    ref = open(os.path.join(core.VERIF, 'spec', 'TokenSetsData.tla')).read().strip()
    if p.returncode != 0 or cur != ref:
        run.notes.append('MODEL-DRIFT: the code\'s token sets differ from spec/TokenSetsData.tla (the committed reference grammar)')


def gen_records(run):
    out = {}
    ml = 3 if run.quick else 4
    r = run.tlc('MC_Gen_C05', ['SPECIFICATION Spec', 'CONSTANT Alpha <- AlphaSmall', f'CONSTANTS MaxLen = {ml} Variant = "fixed"',
                               'INVARIANT InvWholeOrLib', 'INVARIANT InvWholeImpliesCFG'], workers=14, timeout=3000, tag='Gen_C05_soups')
    out['soups'] = r.records
    run.exhaustive[f'token soups <= {ml} over 18 terminal classes'] = True
    r = run.tlc('MC_Gen_C05', ['SPECIFICATION Spec', 'CONSTANT Alpha <- AlphaPct', f'CONSTANTS MaxLen = {5 if run.quick else 6} Variant = "fixed"',
                               'INVARIANT InvWholeOrLib', 'INVARIANT InvWholeImpliesCFG'], workers=8, timeout=3000, tag='Gen_C05_pct')
    out['pct_chains'] = r.records
    run.exhaustive['chains of operands, %, + and & up to the longer bound'] = True
    rp = run.tlc('MC_Gen_C05', ['SPECIFICATION Spec', 'CONSTANT Alpha <- AlphaTiny', 'CONSTANTS MaxLen = 2 Variant = "pinned"',
                                'INVARIANT InvWholeOrLib'], workers=4, timeout=600, tag='Gen_C05_pinned', expect_ok=False)
    if rp.ok:
        raise core.MachineryError('pinned-variant parser model unexpectedly satisfies WholeOrLib')
    run.notes.append('pinned-variant census: InvWholeOrLib violated (silent truncation / None dereference), as expected')
    seeds = 'McSeedsQuick' if run.quick else 'McSeeds'
    base = ['INIT Init', 'NEXT Next', f'CONSTANT Seeds <- {seeds}', 'CONSTANT Alpha <- McAlpha', 'CONSTANT Keywords <- McKeywords',
            'INVARIANT InvWholeImpliesCFG']
    r = run.tlc('MC_Gen_C05M', base + [f'CONSTANTS MaxArgs = {4 if run.quick else 6} Mode = "arity"'], workers=14, timeout=3000, tag='Gen_C05_arity')
    out['arity'] = r.records
    run.exhaustive['arity sweep: every keyword x 0..N arguments x 3 kinds x 3 patterns'] = True
    r = run.tlc('MC_Gen_C05M', base + ['CONSTANTS MaxArgs = 1 Mode = "mut"'], workers=14, timeout=3000, tag='Gen_C05_mut')
    out['mutations'] = r.records
    run.exhaustive['single-token mutations of the seed formulas'] = True
    r = run.tlc('MC_Gen_C05M', base + [f'CONSTANTS MaxArgs = {1 if run.quick else 2} Mode = "groups"'], workers=14, timeout=3000, tag='Gen_C05_groups')
    out['groups'] = r.records
    run.exhaustive['bracket groups two levels deep (joined by + or by a separator, wrapped once more) x 4 contexts (thorough: 7)'] = True
    return out


def check(run):
    run.rule = ('token sequences enumerated by TLC over the lexer\'s token classes (all soups up to the bound, all single-token '
                'mutations of valid seeds, every function keyword with 0..N arguments), each with the grammar verdict, concretised '
                'to text and translated by the real code; whitespace/separator spellings of accepted formulas; random damaged '
                'formulas judged by Trace_C05. Non-trivial = accepted by the grammar, or a prefix of it is (truncation candidates).')
    run.assumptions += ['"the supported grammar" = the committed transcription of the library\'s token sets read as a CFG',
                        'token-level: the concretiser separates tokens by blanks and is checked against the real Lexer']
    drift_check(run)
    recs = gen_records(run)
    for part, rs in recs.items():
        run_records(run, rs, part)
    meta(run)
    foreign_runs(run)
    trace(run)


def replay(run, case):
    k = case.get('kind')
    if k == 'whitespace':
        canon = case['in']['canonical']
        seed = [s for s in META_SEEDS if '=' + ' '.join(s) == canon][0]
        c, ref, cnt, bad = meta_job((seed, 0, 64))
        run.judge(dict(case, obs=bad[:5] or 'all agree'), not bad, clause=f'whitespace / separator spelling changes the result: {bad[:2]}')
        return
    text = case['in']['text']
    toks = lex_classes(text)
    o, t, _ = translate_outcome(text)
    rej = validate(run, [{'toks': toks, 'outcome': o}])
    rj = rej.get(1)
    if rj and rj.startswith('outcome class') and o != 'timeout':
        rj = None
    run.judge(dict(case, obs={'outcome': o, 'detail': t}), rj is None, clause='Trace_C05: ' + rj if rj else '')
