"""C08 - evaluation is pure and repeatable; all query APIs agree.

MC   : Executor: QueriesArePure (action property), GridIsBox, SizesGrow.
GEN  : for three override sets, every schedule of <= N queries (single cell in three addressing
       spellings, list of cells, whole sheet by index / by title) enumerated by TLC (Gen_C08);
       replayed on ONE real Executor: every reply must equal the reply the ideal executor gives
       (which by QueriesArePure is independent of the schedule), and the reported sizes and the
       override map must be unchanged after every query.
TRACE: query-heavy random traces with sizes/override-map probes after every query -> Trace_C04.
"""
import json
import os
import random

from harness import core, repo
from harness.props import exec_common as xc
from harness.props import c04



def mc(run):
    r = run.tlc('MC_Executor', ['SPECIFICATION Spec', 'CONSTANTS WCoords = {"S1A1","S1A2","S1F4","S2C3"} Values = {2,4} MaxBatch = 1',
                                'PROPERTY QueriesArePure', 'INVARIANT GridIsBox', 'INVARIANT SizesGrow'],
                workers=8, timeout=900, coverage=True)
    run.vacuity(r, ['SetCells', 'Get', 'GetSheet'])


_W = None


def replay_schedule(rec, seed):
    w = _W
    rng = random.Random(seed)
    pos = w.pos
    h = rec['h']
    ex = xc.new_executor(w, from_file=(seed % 53 == 0))
    batch = h[0]['arg']
    if batch and seed % 2 == 1:
        # warm-up: the same queries once BEFORE the overrides are set - what was computed then must not leak into the replies
        # that follow (the values under the overrides in force are independent of any earlier query)
        for q in h[1:]:
            try:
                if q['q'] == 'get':
                    xc.q_get(ex, pos[q['arg']], rng.randint(0, 3))
                elif q['q'] == 'many':
                    ex.get_cells([xc.mk_cell(pos[c], None, rng.randint(0, 3)) for c in q['arg']])
                else:
                    xc.q_sheet(ex, q['arg'], rng.random() < 0.5)
            except repo.E2PyclException:
                raise
            except Exception:
                pass
    if batch:
        ex.set_cells([xc.mk_cell(pos[c], v, rng.randint(0, 3)) for c, v in batch])
        # calls that leave the overrides as they are: an empty batch, the same batch once more
        if seed % 3 == 0:
            ex.set_cells([])
        if seed % 5 == 0:
            ex.set_cells([xc.mk_cell(pos[c], v, rng.randint(0, 3)) for c, v in batch])
    if seed % 4 == 1 and not xc.rejected_set(ex, pos, rng):         # a rejected set_cells call leaves overrides and sizes as they are
        return False, 'a set_cells call naming a cell that cannot exist was accepted'
    sizes0 = xc.q_sizes(ex)
    if sizes0 != rec['sizes']:
        return False, f"sizes {sizes0} differ from used range (+) overrides {rec['sizes']}"
    ov0 = None
    for i, q in enumerate(h[1:]):
        kind, arg, exp = q['q'], q['arg'], q['exp']
        if kind == 'get':
            if seed % 7 == 3:
                # the query Cell carries a stale value of its own, and the Cell the library hands back is used for the next query of it
                cell = xc.mk_cell(pos[arg], 'stale', rng.randint(0, 3))
                try:
                    first = ex.get_cell(cell)
                    got = xc.val_json('val', ex.get_cell(first).value)
                except repo.E2PyclException:
                    raise
                except Exception:
                    got = xc.val_json('exc', None)
            else:
                got = xc.q_get(ex, pos[arg], rng.randint(0, 3))
            if not c04.same_small(got, exp):
                return False, f'query {i + 1} get {arg} -> {got}, ideal executor gives {exp}'
        elif kind == 'many':
            try:
                cells = [xc.mk_cell(pos[c], None, rng.randint(0, 3)) for c in arg]
                if seed % 5 == 2 and arg:
                    # the same coordinate twice in one call, in two spellings: one reply per entry, in the order asked
                    cells = cells + [xc.mk_cell(pos[arg[0]], 'stale', rng.randint(0, 3))]
                got = [xc.val_json('val', c.value) for c in ex.get_cells(cells)]
                if len(cells) > len(arg):
                    if len(got) != len(cells) or not c04.same_small(got[-1], got[0]):
                        return False, f'query {i + 1} get_cells with {arg[0]} asked twice -> {got}: the two replies for it differ or one is missing'
                    got = got[:-1]
            except repo.E2PyclException:
                raise
            except Exception:
                got = None
            if got is None:
                if not any(v['k'] == 'err' for v in exp):
                    return False, f'query {i + 1} get_cells raised although no requested cell fails'
            elif len(got) != len(exp) or not all(c04.same_small(a, b) for a, b in zip(got, exp)):
                return False, f'query {i + 1} get_cells {arg} -> {got}, ideal executor gives {exp}'
        else:
            raised, g = xc.q_sheet(ex, arg, rng.random() < 0.5)
            if raised:
                if not any(v['k'] == 'err' for row in exp for v in row):
                    return False, f'query {i + 1} get_sheet({arg}) raised although no cell of the grid fails'
            elif len(g) != len(exp) or any(len(a) != len(b) for a, b in zip(g, exp)) or \
                    not all(c04.same_small(x, y) for a, b in zip(g, exp) for x, y in zip(a, b)):
                return False, f'query {i + 1} get_sheet({arg}) -> {g}, ideal executor gives {exp}'
        z = xc.q_sizes(ex)
        if z != sizes0:
            return False, f'query {i + 1} ({kind} {arg}) changed the reported sizes {sizes0} -> {z}'
        om = xc.ovmap(ex, pos)
        if om is not None:
            if ov0 is None:
                ov0 = om
                want = {}
                for c, v in batch:
                    want[c] = v
                if sorted([k, v] for k, v in want.items()) != om:
                    return False, f'override map {om} differs from the overrides in force {want}'
            elif om != ov0:
                return False, f'query {i + 1} ({kind} {arg}) changed the overrides {ov0} -> {om}'
    return True, ''


def _job(args):
    try:
        return replay_schedule(*args)
    except Exception as e:
        return None, f'harness: {type(e).__name__}: {e}'


def gen(run, w):
    global _W
    _W = w
    maxq = 3 if run.quick else 4
    r = run.tlc('MC_Gen_C08', ['SPECIFICATION GSpec', 'CONSTANTS WCoords = {"S1A1"} Values = {2} MaxBatch = 1',
                               f'CONSTANT MaxQ = {maxq}', 'CONSTANT OvChoices <- McOvChoices', 'CONSTANT QCoords <- McQCoords',
                               'CONSTANT QLists <- McQLists'], workers=2, timeout=1500)
    recs = r.records
    run.exhaustive[f'query schedules <= {maxq} over 9 queries x 3 override sets'] = True
    # every schedule twice: cold (even seed) and after a warm-up run of the same queries before the overrides are set (odd seed)
    recs = [r for r in recs for _ in (0, 1)]
    res = core.pmap(_job, [(rec, (run.seed * 7919 + i // 2) * 2 + i % 2) for i, rec in enumerate(recs)])
    for i, (rec, (ok, clause)) in enumerate(zip(recs, res)):
        if ok is None:
            raise core.MachineryError(clause)
        sched = [[q['q'], q['arg']] for q in rec['h'][1:]]
        case = {'in': {'overrides': rec['h'][0]['arg'], 'schedule': sched, 'warm_up': bool(i % 2)}, 'kind': 'schedule', 'obs': clause or 'all replies ideal'}
        run.judge(case, ok, clause=clause, nontrivial=len(sched) > 1, part='gen')
        run.traces_validated += 1


def record_query_trace(w, rng, n):
    ex = xc.new_executor(w, from_file=rng.random() < 0.05)
    pos = w.pos
    names = sorted(pos)
    tr = []
    batch = [[rng.choice(['S1A1', 'S1A2', 'S1F4', 'S2C3', 'S1B2', 'S2B1']), rng.choice([2, 4, 6])] for _ in range(rng.randint(0, 4))]
    if batch:
        ex.set_cells([xc.mk_cell(pos[c], v, rng.randint(0, 3)) for c, v in batch])
        tr.append({'ev': 'set', 'batch': batch})
    for _ in range(n):
        x = rng.random()
        if x < 0.6:
            c = rng.choice(names)
            tr.append({'ev': 'get', 'c': c, 'res': xc.q_get(ex, pos[c], rng.randint(0, 3))})
        elif x < 0.75:
            cs = [rng.choice(names) for _ in range(rng.randint(1, 4))]
            try:
                res = [xc.val_json('val', c.value) for c in ex.get_cells([xc.mk_cell(pos[c], None, rng.randint(0, 3)) for c in cs])]
                tr.append({'ev': 'many', 'cs': cs, 'res': res})
            except repo.E2PyclException:
                raise
            except Exception:
                for c in cs:
                    tr.append({'ev': 'get', 'c': c, 'res': xc.q_get(ex, pos[c], 0)})
        else:
            s = rng.choice([1, 2])
            raised, g = xc.q_sheet(ex, s, rng.random() < 0.5)
            tr.append({'ev': 'sheet', 's': s, 'raised': raised, 'res': g})
        tr.append({'ev': 'sizes', 'res': xc.q_sizes(ex)})
        om = xc.ovmap(ex, pos)
        if om is not None:
            tr.append({'ev': 'ovmap', 'res': om})
    return tr


def _tjob(args):
    seed, n = args
    try:
        return record_query_trace(_W, random.Random(seed), n)
    except Exception as e:
        return {'harness_error': f'{type(e).__name__}: {e}'}


def trace(run, w):
    global _W
    _W = w
    n, ln = (200, 20) if run.quick else (3000, 30)
    seeds = [run.seed * 100019 + i for i in range(n)]
    traces = core.pmap(_tjob, [(s, ln) for s in seeds])
    for t in traces:
        if isinstance(t, dict):
            raise core.MachineryError(t['harness_error'])
    rej = c04.validate(run, traces, tag='Trace_C08')
    for i, tr in enumerate(traces):
        rj = rej.get(i + 1)
        case = {'in': {'trace_seed': seeds[i], 'len': ln}, 'kind': 'trace', 'obs': tr if rj else 'accepted'}
        run.judge(case, rj is None, clause=f'Trace_C04 rejected event {rj[0]}: {rj[1]}' if rj else '', part='trace')
        run.traces_validated += 1


def title_spellings(run):
    """Addressing by sheet title denotes the sheet that HAS that title - also when the titles are digit strings that look like
    (other) sheet indices, or differ from each other by a blank only. Every spelling of one coordinate must deliver the
    same value, get_sheet by title and by index the same grid, and an override written through one spelling is read through all."""
    for titles in (['1', '0', '2'], ['2', '1', '0'], ['Data', 'Data 2', 'Data2'], ['10', '01', '1']):
        sheets = [(t, {(0, 0): 100 * (i + 1) + 1, (1, 0): 100 * (i + 1) + 2, (0, 1): f"='{titles[(i + 1) % 3]}'!A1+1"}) for i, t in enumerate(titles)]
        path = os.path.join(run.scratch, 'c08_titles.xlsx')
        py = os.path.join(run.scratch, 'c08_titles_gen.py')
        repo.write_xlsx(path, sheets)
        repo.Parser().set_excel_file_path(path).write_translation(py)
        ex = repo.Executor().set_executed_class(class_file=py)
        for step in ('workbook', 'override'):
            if step == 'override':
                ex.set_cells([repo.Cell(titles[1], 'B', '1', 777)])        # by title; sheet index 1
            for i, t in enumerate(titles):
                want = {(0, 0): 100 * (i + 1) + 1, (1, 0): 100 * (i + 1) + 2, (0, 1): 100 * ((i + 1) % 3 + 1) + 2}
                if step == 'override' and i == 1:
                    want[(1, 0)] = 777
                got = {}
                try:
                    for (c, r), w in want.items():
                        got[(c, r)] = [ex.get_cell(repo.Cell(i, c, r)).value, ex.get_cell(repo.Cell(t, repo.col_letters(c + 1), str(r + 1))).value,
                                       ex.get_cell(repo.Cell(t, c, r)).value, ex.get_cells([repo.Cell(t, repo.col_letters(c + 1), str(r + 1))])[0].value,
                                       ex.get_sheet(t)[r][c].value, ex.get_sheet(i)[r][c].value]
                    bad = {f'{repo.col_letters(c + 1)}{r + 1}': v for (c, r), v in got.items() if any(x != want[(c, r)] for x in v)}
                except Exception as e:  # noqa
                    bad = {'raised': f'{type(e).__name__}: {e}'[:120]}
                run.judge({'in': {'titles': titles, 'sheet': t, 'step': step}, 'obs': str(bad), 'kind': 'title_spellings'}, not bad,
                          clause=f'sheets titled {titles}: cells of sheet {t!r} (index {i}) through [index, title+A1, title+numbers, get_cells, get_sheet(title), get_sheet(index)] '
                                 f'after {step}: {bad}', part='title_spellings')
                run.traces_validated += 1


def feature_orders(run):
    """One formula per supported function (the C09 feature sheet + rounding, lookups, dates, texts whose modes differ from call to
    call): the reference value of each cell comes from a FRESH executor that evaluates nothing else; then one executor evaluates
    all cells in several random orders, twice, through get_cell / get_cells / get_sheet - every reply must be the reference value."""
    from harness.props import c09
    feats = dict(c09.workbooks()['w1'][-1][1])
    extra = ['=ROUND(2.5,0)', '=ROUNDUP(2.1,0)', '=ROUND(2.4,0)', '=ROUNDDOWN(2.9,0)', '=ROUND(-2.5,0)', '=ROUND(2.6,0)', '=ROUNDUP(-2.1,1)', '=ROUND(1250,-2)',
             '=MATCH(2,A1:A3,1)', '=MATCH(2,A1:A3,0)', '=XMATCH(2,A1:A3,0,1)', '=XMATCH(2,A1:A3,0,-1)', '=VLOOKUP(2,A1:C3,2,TRUE)', '=VLOOKUP(2,A1:C3,2,FALSE)',
             '=DATE(2024,1,31)', '=DATE(2023,2,29)', '=EDATE(DATE(2024,1,31),1)', '=EDATE(DATE(2023,1,31),1)', '=SEARCH("P",D1)', '=SEARCH("p",D2)',
             '=COUNTIFS(D1:D3,"a*")', '=COUNTIFS(D1:D3,"*r")', '=SUMIFS(A1:A3,B1:B3,">4")', '=SUMIFS(A1:A3,B1:B3,"<6")', '=IFERROR(1/0,"e1")', '=IFERROR(1/1,"e2")',
             '=TEXT(A1,"0")', '=VALUE("7")', '=A1&B1', '=A1=B1', '=A1<B1', '=NETWORKDAYS(DATE(2024,3,1),DATE(2024,3,31))', '=NETWORKDAYS(DATE(2024,3,31),DATE(2024,3,1))',
             # arguments that read alike as text but are different values (the number 3 and the text "3", TRUE and "TRUE", 1 and "1", 2 and 2.0):
             # whatever a helper remembers about one of them must not answer for the other
             '=COUNTIFS(A1:A3,"3")', '=COUNTIFS(A1:A3,3)', '=SUMIF(A1:A3,">3")', '=SUMIF(A1:A3,">2")', '=COUNTIFS(A1:A3,"<>3")', '=COUNTIFS(D1:D3,"3")', '=SUMIFS(A1:A3,A1:A3,2)',
             '=SUMIFS(A1:A3,A1:A3,"2")', '=SUMIFS(A1:A3,A1:A3,2.0)', '=COUNTIFS(A1:A3,TRUE)', '=COUNTIFS(A1:A3,"TRUE")', '=COUNTIFS(A1:A3,1)', '=COUNTIFS(A1:A3,"1")',
             '=VALUE("3")', '=VALUE("3.0")', '=LEFT("3",1)', '=IF("1"=1,1,2)', '=IF(1=1,1,2)', '=MATCH("2",A1:A3,0)', '=MATCH(2.0,A1:A3,0)', '=AVERAGEIFS(A1:A3,B1:B3,"5")',
             '=AVERAGEIFS(A1:A3,B1:B3,5)', '=SEARCH("1",D1&"1")', '=SEARCH(1,D1&"1")', '=COUNTIFS(B1:B3,"2024-01-05")', '=COUNTIFS(B1:B3,DATE(2024,1,5))',
             # a range that holds several DIFFERENT error values (H1:H3): which of them an aggregate reports is a function of the workbook
             '=MIN(H1:H3)', '=MIN(H3,H1:H2)', '=COUNTBLANK(H1:H3)', '=IFERROR(MIN(H1:H3),"e")', '=MAX(H2:H3)', '=SUM(H1:H3)', '=IFS(H1,1,TRUE,2)']
    feats[(7, 0)], feats[(7, 1)], feats[(7, 2)] = '#N/A', '#NUM!', '#REF!'
    n0 = max(r for (c, r) in feats if c == 5) + 1
    for i, f in enumerate(extra):
        feats[(5, n0 + i)] = f
    rows = n0 + len(extra)
    path, py = os.path.join(run.scratch, 'c08_feat.xlsx'), os.path.join(run.scratch, 'c08_feat_gen.py')
    repo.write_xlsx(path, [('F', feats)])
    repo.Parser().set_excel_file_path(path).write_translation(py)

    def val(ex, r):
        try:
            return ('val', ex.get_cell(repo.Cell(0, 5, r)).value)
        except repo.E2PyclException:
            raise
        except Exception as e:  # noqa
            return ('exc', type(e).__name__)
    ref = [val(repo.Executor().set_executed_class(class_file=py), r) for r in range(rows)]
    # the same cells in other PROCESSES with other string-hash seeds: the value of a cell is a function of the workbook and the overrides
    script = ('import sys, json\nsys.path.insert(0, %r)\nfrom excel2pycl import Executor, Cell\nex = Executor().set_executed_class(class_file=%r)\nout = []\n'
              'for r in range(%d):\n    try:\n        out.append(repr(("val", ex.get_cell(Cell(0, 5, r)).value)))\n    except Exception as e:\n        out.append(repr(("exc", type(e).__name__)))\n'
              'print(json.dumps(out))\n') % (repo.REPO, py, rows)
    for hs in ('1', '2', '3', '5', '8', '13'):
        import subprocess
        import sys as _sys
        pr = subprocess.run([_sys.executable, '-c', script], env=dict(os.environ, PYTHONHASHSEED=hs), stdout=subprocess.PIPE, stderr=subprocess.PIPE, text=True, timeout=300)
        if pr.returncode:
            raise core.MachineryError('hash-seed sweep: ' + pr.stderr[-300:])
        got = json.loads(pr.stdout.strip().splitlines()[-1])
        bad = [(feats[(5, r)], got[r], repr(ref[r])) for r in range(rows) if got[r] != repr(ref[r]) and 'datetime' not in got[r]]
        run.judge({'in': {'hash_seed': hs, 'formulas': rows}, 'obs': str(bad[:4]), 'kind': 'feature_hashseeds'}, not bad,
                  clause=f'{rows} formula cells evaluated in another process with PYTHONHASHSEED={hs}: (formula, got, value in this process) {bad[:3]}', part='feature_hashseeds')
        run.traces_validated += 1
        run.evaluations += rows
    rng = random.Random(run.seed + 808)
    klass = type(repo.Executor().set_executed_class(class_file=py).get_executed_class())
    for rep in range(6):
        ex = repo.Executor().set_executed_class(class_file=py) if rep % 2 == 0 else repo.Executor().set_executed_class(class_object=klass)
        bad = []
        for round_ in range(2):
            order = list(range(rows))
            rng.shuffle(order)
            if rep % 3 == 1:
                order.reverse()
            for r in order:
                got = val(ex, r)
                if repr(got) != repr(ref[r]):
                    bad.append((feats[(5, r)], got, ref[r], f'after {feats[(5, order[max(0, order.index(r) - 1)])]}'))
            try:
                grid = ex.get_sheet(0)
                for r in range(rows):
                    if ref[r][0] == 'val' and repr(grid[r][5].value) != repr(ref[r][1]):
                        bad.append((feats[(5, r)], grid[r][5].value, ref[r], 'get_sheet'))
            except repo.E2PyclException:
                raise
            except Exception:
                pass
        run.judge({'in': {'executor': 'class_file' if rep % 2 == 0 else 'class_object', 'formulas': rows, 'repetition': rep}, 'obs': str(bad[:4]), 'kind': 'feature_orders'}, not bad,
                  clause=f'{rows} formula cells evaluated in random orders on one executor: (formula, got, value on a fresh executor, context) {bad[:3]}', part='feature_orders')
        run.traces_validated += 1
        run.evaluations += 3 * rows


def check(run):
    run.rule = ('query schedules enumerated by TLC (every sequence of <= N queries over 5 single cells, 2 cell lists, 2 '
                'sheets, for 3 override sets), replayed on one real Executor with random addressing spellings; sizes and '
                'override map probed after every query; random query traces validated by Trace_C04. Non-trivial = more than one query.')
    run.assumptions += ['the override map is observed through the generated instance\'s _arguments when present '
                        '(skipped otherwise); formulas exclude TODAY()', 'openpyxl writer/reader']
    w = xc.World(run)
    mc(run)
    gen(run, w)
    trace(run, w)
    title_spellings(run)
    feature_orders(run)


def replay(run, case):
    global _W
    if case.get('kind') == 'title_spellings':
        title_spellings(run)
        return
    if case.get('kind') == 'feature_orders':
        feature_orders(run)
        return
    w = xc.World(run)
    _W = w
    if case.get('kind') == 'trace':
        tr = record_query_trace(w, random.Random(case['in']['trace_seed']), case['in']['len'])
        rj = c04.validate(run, [tr], tag='Trace_C08').get(1)
        run.judge(dict(case, obs=tr), rj is None, clause=f'Trace_C04 rejected event {rj}' if rj else '')
        return
    # schedule: record it as a trace and let the spec decide
    rng = random.Random(0)
    ex = xc.new_executor(w)
    tr = []
    batch = case['in']['overrides']
    if batch:
        ex.set_cells([xc.mk_cell(w.pos[c], v, 0) for c, v in batch])
        tr.append({'ev': 'set', 'batch': batch})
    for kind, arg in case['in']['schedule']:
        if kind == 'get':
            tr.append({'ev': 'get', 'c': arg, 'res': xc.q_get(ex, w.pos[arg], 0)})
        elif kind == 'many':
            for c in arg:
                tr.append({'ev': 'get', 'c': c, 'res': xc.q_get(ex, w.pos[c], 0)})
        else:
            raised, g = xc.q_sheet(ex, arg, False)
            tr.append({'ev': 'sheet', 's': arg, 'raised': raised, 'res': g})
        tr.append({'ev': 'sizes', 'res': xc.q_sizes(ex)})
        om = xc.ovmap(ex, w.pos)
        if om is not None:
            tr.append({'ev': 'ovmap', 'res': om})
    rj = c04.validate(run, [tr], tag='Trace_C08').get(1)
    run.judge(dict(case, obs=tr), rj is None, clause=f'Trace_C04 rejected event {rj}' if rj else '')
