"""C13 - IF / IFS / IFERROR choose the right branch and contain errors.

MC/GEN: Gen_C13 enumerates every nest of depth <= 1 and the depth-2 nests with one nested child over leaves {7, 9, failing
       expression, #N/A expression} and three condition kinds (boolean cell, numeric cell, comparison), computes the value of
       each under all 8 truth assignments with the lazy evaluator (XlLogic.Eval), bare and embedded in a larger expression,
       and checks the statement's laws on every enumerated nest (UntakenBranchIrrelevant, IfErrorPassThrough, IfsFirstTrue /
       IfsNoneIsNA) as TLC invariants. Each nest is concretised to formula text, translated by the real pipeline and evaluated
       under every truth assignment (conditions by overrides).
TRACE: random deeper nests (depth 3) recorded from the real code and evaluated by TLC (Trace_C13).
"""
import json
import os
import datetime
import random

from harness import absval, core, repo

EMB = ['bare', 'left', 'right', 'neg', 'pct', 'sum', 'round', 'mul']
ENVS = [(a, b, c) for a in (False, True) for b in (False, True) for c in (False, True)]
CONSTS = {(23, 0): 1, (23, 1): 2, (22, 0): '=MATCH(99,X1:X2,0)', (20, 0): 'some text', (19, 0): '=1/Y1', (19, 0): '=1/Y1'}          # W1 = #N/A (MATCH miss over X1:X2); Y1 stays blank


def text(a):
    t = a['t']
    if t == 'num':
        return str(a['n'])
    if t == 'cond':
        return {1: 'C1', 2: 'C2', 3: 'D1>E1'}[a['i']]
    if t == 'fail':
        return '1/Y1'
    if t == 'failref':
        return 'T1'
    if t == 'failcat':
        return '(T1&"x")'
    if t == 'failcmp':
        return '(T1>0)'
    if t == 'na':
        return 'W1'
    if t == 'blank':
        return 'V1'
    if t == 'text':
        return 'U1'
    if t == 'if3':
        return f"IF({text(a['c'])},{text(a['a'])},{text(a['b'])})"
    if t == 'if2':
        return f"IF({text(a['c'])},{text(a['a'])})"
    if t == 'ifs':
        return 'IFS(' + ','.join(f'{text(c)},{text(v)}' for c, v in a['ps']) + ')'
    if t == 'iferror':
        return f"IFERROR({text(a['x'])},{text(a['f'])})"
    raise ValueError(t)


def embed(kind, t):
    return {'bare': f'={t}', 'left': f'={t}+1', 'right': f'=1+{t}', 'neg': f'=-{t}', 'pct': f'={t}%', 'sum': f'=SUM({t},1)',
            'round': f'=ROUND({t},0)', 'mul': f'=2*{t}'}[kind]


def env_overrides(env, style=0):
    """style: how the truth of the first condition is held by its cell - 0 a truth value; 1 a date (a non-zero number) / 0;
    2 a fraction / 0.0: a condition is true when it is non-zero"""
    c1, c2, c3 = env
    if style == 1:
        c1 = datetime.datetime(2024, 3, 15) if c1 else 0
    elif style == 2:
        c1 = 0.5 if c1 else 0.0
    return [(0, 2, 0, c1), (0, 2, 1, 5 if c2 else 0), (0, 3, 0, 3 if c3 else 1), (0, 4, 0, 2)]


def obs_of(kind, p):
    if kind == 'texc':
        return {'k': 'other', 't': f'translation: {type(p).__name__}: {p}'[:120]}
    if kind == 'eexc':
        return {'k': 'err', 'exc': type(p).__name__}
    if isinstance(p, bool):
        return {'k': 'bool', 'b': p}
    if absval.is_empty_cell(p):
        return {'k': 'blank'}
    if isinstance(p, str) and p == 'some text':
        return {'k': 'text'}
    if isinstance(p, (int, float)):
        h = p * 100
        if abs(h - round(h)) < 1e-9 and abs(h) < 2 ** 30:
            return {'k': 'num', 'n': int(round(h))}
        return {'k': 'other', 't': repr(p)}
    if isinstance(p, str) and p in absval.ERRS:
        return {'k': 'err', 'v': p}
    return {'k': 'other', 't': repr(p)[:60]}


def same(r, o):
    k = r['k']
    if k == 'oos':
        return True
    if k == 'num':
        return o['k'] == 'num' and o['n'] == r['n']
    if k == 'bool':
        return o['k'] == 'bool' and o['b'] == r['b']
    if k == 'err':
        return o['k'] == 'err'
    if k in ('blank', 'text'):
        return o['k'] == k
    return False


def show(v):
    if v['k'] == 'num':
        return str(v['n'] / 100 if v['n'] % 100 else v['n'] // 100)
    if v['k'] == 'bool':
        return 'TRUE' if v['b'] else 'FALSE'
    if v['k'] in ('blank', 'text'):
        return v['k']
    if v['k'] == 'err':
        return v.get('v') or v.get('e') and ('#' + v['e']) or ('raises ' + v.get('exc', '?'))
    return str(v)


def depth(a):
    kids = [a[k] for k in ('a', 'b', 'x', 'f') if k in a] + [v for _, v in a.get('ps', [])]
    return 0 if not kids else 1 + max(depth(k) for k in kids)


def _job(recs):
    """one workbook per chunk: every nest x 8 embeddings (function-argument embeddings only for depth <= 1: the
    parser's cost grows sixfold per nesting level)"""
    try:
        forms = []
        for rec in recs:
            t = text(rec['ast'])
            deep = depth(rec['ast']) > 1
            forms += [embed(k if not (deep and k in ('sum', 'round', 'right', 'mul')) else 'bare', t) for k in EMB]
        uniq = sorted(set(forms))
        pos = {f: i for i, f in enumerate(uniq)}
        p = repo.Probe(uniq, CONSTS, timeout=60)
        per_env = []
        for env in ENVS:
            r = p.eval(env_overrides(env))
            per_env.append([r[pos[f]] for f in forms])
        out = []
        for j, rec in enumerate(recs):
            bad, n = [], 0
            for ki, kind in enumerate(EMB):
                ideal_row = rec['vals'] if (ki == 0 or forms[8 * j + ki] == forms[8 * j]) else rec['emb'][ki - 1]
                for e, env in enumerate(ENVS):
                    ideal = ideal_row[e]
                    if ideal['k'] == 'oos':
                        continue
                    n += 1
                    o = obs_of(*per_env[e][8 * j + ki])
                    if not same(ideal, o):
                        bad.append((forms[8 * j + ki], kind, e, ideal, o))
            out.append((n, bad))
        return out
    except Exception as e:
        import traceback
        return {'harness_error': f'{type(e).__name__}: {e} {traceback.format_exc()[-300:]}'}


def gen(run):
    recs = []
    r = run.tlc('Gen_C13', ['INIT Init', 'NEXT Next', 'CONSTANT Depth = 1', 'CONSTANT Sample = FALSE', 'INVARIANT Laws'], workers=4, timeout=1800, tag='Gen_C13_d1')
    recs += r.records
    run.exhaustive['nests of depth <= 1'] = True
    r = run.tlc('Gen_C13', ['INIT Init', 'NEXT Next', 'CONSTANT Depth = 2', f'CONSTANT Sample = {"TRUE" if run.quick else "FALSE"}', 'INVARIANT Laws'],
                workers=8, timeout=3000, tag='Gen_C13_d2', heap='8g')
    recs += r.records
    run.exhaustive['depth-2 nests with one nested child' + (' (nested child over leaves {7, failing})' if run.quick else '')] = True
    res = core.pmap(_job, core.chunks(recs, 25), chunksize=1)
    flat = []
    for o in res:
        if isinstance(o, dict):
            raise core.MachineryError(o['harness_error'])
        flat += o
    for rec, (n, bad) in zip(recs, flat):
        run.evaluations += n
        run.traces_validated += n
        f = '=' + text(rec['ast'])
        if not bad:
            run.judge({'in': {'formula': f}, 'obs': f'{n} values (8 truth assignments x embeddings) equal the lazy evaluator', 'kind': 'gen_nest'}, True,
                      part='gen_nests', nontrivial=any(v['k'] == 'err' for v in rec['vals']) or rec['ast']['t'] != 'if3')
            run.evaluations -= 1
        for (form, kind, e, ideal, o) in bad[:2]:
            case = {'in': {'ast': rec['ast'], 'formula': form, 'emb': kind, 'env': list(ENVS[e])}, 'ideal': show(ideal), 'obs': show(o), 'kind': 'gen'}
            run.judge(case, False, clause=f'{form} with conditions C1,C2,(D1>E1) = {ENVS[e]} gives {show(o)}, the lazy semantics give {show(ideal)}', part='gen')
    public_path(run, recs)


def public_path(run, recs):
    rng = random.Random(run.seed + 13)
    sample = rng.sample(recs, min(len(recs), 40 if run.quick else 300))
    env = (True, False, True)
    cells = {(23, 0): 1, (23, 1): 2, (22, 0): '=MATCH(99,X1:X2,0)', (20, 0): 'some text', (19, 0): '=1/Y1', (2, 0): True, (2, 1): 0, (3, 0): 3, (4, 0): 2}
    for j, rec in enumerate(sample):
        cells[(6, j)] = '=' + text(rec['ast'])
    res = repo.public_path_eval(run.scratch, [('S', cells)], [(0, 6, j) for j in range(len(sample))], tag='c13pp')
    e = ENVS.index(env)
    for rec, r in zip(sample, res):
        o = obs_of(*r)
        ideal = rec['vals'][e]
        form = '=' + text(rec['ast'])
        run.judge({'in': {'ast': rec['ast'], 'formula': form, 'emb': 'bare', 'env': list(env), 'mode': 'file'}, 'ideal': show(ideal), 'obs': show(o), 'kind': 'public_path'},
                  same(ideal, o), clause=f'file path: {form} with conditions {env} gives {show(o)}, the lazy semantics give {show(ideal)}', part='public_path')
        run.traces_validated += 1


# ---------------------------------------------------------------- direction B
def random_ast(rng, d):
    def leaf():
        return rng.choice([{'t': 'num', 'n': rng.choice([7, 9, 3, 12])}, {'t': 'num', 'n': 7}, {'t': 'fail'}, {'t': 'na'}, {'t': 'blank'}, {'t': 'text'}, {'t': 'failref'}, {'t': 'failcat'}, {'t': 'failcmp'}])

    def cond():
        return {'t': 'cond', 'i': rng.randint(1, 3)}

    def node(dd):
        if dd == 0 or rng.random() < 0.25:
            return leaf()
        k = rng.choice(['if3', 'if3', 'if2', 'ifs', 'iferror', 'iferror'])
        if k == 'if3':
            return {'t': 'if3', 'c': cond(), 'a': node(dd - 1), 'b': node(dd - 1)}
        if k == 'if2':
            return {'t': 'if2', 'c': cond(), 'a': node(dd - 1)}
        if k == 'ifs':
            return {'t': 'ifs', 'ps': [[cond(), node(dd - 1)] for _ in range(rng.randint(1, 3))]}
        return {'t': 'iferror', 'x': node(dd - 1), 'f': node(dd - 1)}
    a = node(d)
    while a['t'] in ('num', 'fail', 'na', 'blank', 'text', 'failref', 'failcat', 'failcmp'):
        a = node(d)
    return a


def _trace_job(seeds):
    try:
        items = []
        for sd in seeds:
            rng = random.Random(sd)
            a = random_ast(rng, 3)
            kind = rng.choice(EMB[:5] + ['bare', 'bare', 'mul'])
            items.append((a, kind, embed(kind, text(a))))
        p = repo.Probe([f for _, _, f in items], CONSTS, timeout=120)
        out = []
        ev = p.session().eval if seeds and (seeds[0] // 40) % 2 else p.eval       # half of the batches: ONE Executor for all environments in turn
        for e, env in enumerate(ENVS):
            if e % 2 == (seeds[0] // 20) % 2:
                style = (seeds[0] // 80) % 3
                res = ev(env_overrides(env, style))
                for (a, kind, f), r in zip(items, res):
                    out.append({'ast': a, 'env': list(env), 'emb': kind, 'obs': obs_of(*r), 'formula': f, 'style': style})
        return out
    except Exception as e:
        return {'harness_error': f'{type(e).__name__}: {e}'}


def validate(run, events, tag='Trace_C13'):
    verdicts = {}
    base = 0
    import re
    for pi, part in enumerate(core.chunks(events, 10000)):
        path = os.path.join(run.scratch, f'{tag}_{pi}.json')
        evs = []
        for e in part:
            o = e['obs']
            oo = {'k': o['k'], 'n': o.get('n', 0), 'b': o.get('b', False)} if o['k'] in ('num', 'bool') else {'k': o['k'] if o['k'] in ('err', 'blank', 'text') else 'other', 'n': 0, 'b': False}
            evs.append({'ast': e['ast'], 'env': e['env'], 'emb': e['emb'], 'obs': oo})
        json.dump({'events': evs}, open(path, 'w'))
        r = run.tlc('Trace_C13', ['SPECIFICATION Spec'], workers=1, timeout=1800, env={'TRACE_FILE': path}, tag=f'{tag}_{pi}')
        done = False
        for t in r.tuples:
            m = re.match(r'<<\s*"V",\s*(\d+),\s*(.*)>>\s*$', t)
            if m:
                verdicts[base + int(m.group(1))] = m.group(2).strip()
            elif re.match(r'<<\s*"DONE",\s*%d\s*>>' % (len(part) + 1), t):
                done = True
        if not done:
            raise core.MachineryError(f'{tag}: not all events consumed')
        base += len(part)
    return verdicts


def judge_events(run, evs, part):
    verdicts = validate(run, evs, 'Trace_C13_' + part)
    for i, e in enumerate(evs):
        v = verdicts.get(i + 1)
        case = {'in': {'ast': e['ast'], 'formula': e['formula'], 'emb': e['emb'], 'env': e['env'], 'style': e.get('style', 0)}, 'obs': show(e['obs']), 'kind': part}
        if v is not None:
            case['ideal'] = v
        run.judge(case, v is None, clause=f"Trace_C13: {e['formula']} with conditions {e['env']} gives {show(e['obs'])}, the specification gives {v}", part=part)
        run.traces_validated += 1


def trace(run):
    n = 400 if run.quick else 8000
    seeds = [run.seed * 1000099 + i for i in range(n)]
    outs = core.pmap(_trace_job, core.chunks(seeds, 20), chunksize=1)
    evs = []
    for o in outs:
        if isinstance(o, dict):
            raise core.MachineryError(o['harness_error'])
        evs += o
    judge_events(run, evs, 'trace')


ERRORS = ['#NUM!', '#DIV/0!', '#N/A', '#NAME?', '#NULL!', '#REF!', '#VALUE!']


def error_constants(run):
    """IFERROR returns its fallback when the first argument evaluates to an Excel error VALUE: each of the seven error constants, held by
    a cell, alone and inside IF / IFS values"""
    consts = {(0, i): e for i, e in enumerate(ERRORS)}
    consts[(2, 0)] = True
    forms, want = [], []
    for i, e in enumerate(ERRORS):
        forms += [f'=IFERROR(A{i + 1},5)', f'=IFERROR(IF(C1,A{i + 1},1),5)', f'=IFERROR(IFS(C1,A{i + 1}),5)', f'=IFERROR(IFERROR(A{i + 1},A{i + 1}),5)', f'=IFERROR(7,A{i + 1})']
        want += [5, 5, 5, 5, 7]
    res = repo.Probe(forms, consts).eval()
    # ... and the same cells holding plain numbers in the workbook, the error values arriving later through set_cells
    probe2 = repo.Probe(forms, {(0, i): 10 + i for i in range(len(ERRORS))} | {(2, 0): True})
    res2 = probe2.eval([(0, 0, i, e) for i, e in enumerate(ERRORS)])
    for f, w, r in list(zip(forms, want, res)) + [(f + '   [A1..A7 overridden with the error values]', w, r) for f, w, r in zip(forms, want, res2)]:
        ok = r[0] == 'val' and r[1] == w
        run.judge({'in': {'formula': f, 'errors_in': 'A1:A7', 'ast': {'t': 'iferror'}, 'emb': 'errconst'}, 'ideal': w, 'obs': str(r[1]) if r[0] == 'val' else f'raises {type(r[1]).__name__}', 'kind': 'error_constant'},
                  ok, clause=f'{f} with A1..A7 = {ERRORS}: {r[1]!r}, an error value in the first argument selects the fallback ({w})', part='error_constants')
        run.traces_validated += 1


FAILING = ['1/Y1', 'DAY(A1)', 'MONTH(A1)', 'YEAR(A1)', '"a"+1', '-A1', 'A1*A1', 'A1-1', 'ROUND(A1,0)', 'ROUNDUP(A1,1)', 'EDATE(A1,1)', 'EOMONTH(A1,0)',
           'DATEDIF(A1,A1,"D")', 'DATE(A1,1,1)', 'VALUE(A1)', 'MID(A1,0,1)', 'INDEX(B1:B2,5,1)', 'INDEX(B1:B2,A1,1)', 'VLOOKUP(9,B1:B2,A1,FALSE)',
           'MATCH(9,B1:B2,0)', 'SEARCH("q",A1)', 'LEFT(A1,A1)', 'SUM(B1:B2)/Y1', 'MAX(A1,1)+A1', 'AVERAGE(Y1:Y2)', 'NETWORKDAYS(A1,A1)', 'B1+B2']


def failure_classes(run):
    """IFERROR returns its fallback exactly when the evaluation of its first argument FAILS - whatever the class of the failure. Each
    candidate expression is evaluated alone (A1 holds a text, Y1:Y2 are blank, B1:B2 hold 3 and 4): where that raises or gives an error
    value, IFERROR(X,5) must be 5, alone, inside a larger expression and as a branch of IF; where it gives a value, IFERROR(X,5) is that value."""
    consts = {(0, 0): 'abc', (1, 0): 3, (1, 1): 4, (2, 0): False}
    forms = []
    for x in FAILING:
        forms += [f'={x}', f'=IFERROR({x},5)', f'=IF(C1,1,IFERROR({x},5))&"!"', f'=IFERROR(IFERROR({x},{x}),5)', f'=IFERROR(7,{x})']
    res = repo.Probe(forms, consts, timeout=120).eval()
    classes = set()
    for j, x in enumerate(FAILING):
        alone, plain, inside, twice, unused = res[5 * j:5 * j + 5]
        if alone[0] != 'val' and type(alone[1]).__name__.startswith('E2Pycl'):
            continue        # rejected by the translator (not a supported formula): no evaluation to contain
        fails = alone[0] != 'val' or (isinstance(alone[1], str) and alone[1] in ERRORS)
        if alone[0] != 'val':
            classes.add(type(alone[1]).__name__)
        want = 5 if fails else alone[1]
        wtxt = '5!' if fails else None
        for f, r, w in ((forms[5 * j + 1], plain, want), (forms[5 * j + 2], inside, wtxt), (forms[5 * j + 3], twice, want), (forms[5 * j + 4], unused, 7)):
            if w is None:
                ok = r[0] == 'val'
            else:
                ok = r[0] == 'val' and r[1] == w and type(r[1]) is type(w)
            how = f'raises {type(alone[1]).__name__}' if alone[0] != 'val' else f'gives {alone[1]!r}'
            run.judge({'in': {'formula': f, 'x': x, 'ast': {'t': 'iferror'}, 'emb': 'failclass'}, 'ideal': repr(w),
                       'obs': repr(r[1]) if r[0] == 'val' else f'raises {type(r[1]).__name__}', 'kind': 'failure_class'}, ok,
                      clause=f'{f} with A1 = "abc", Y1 blank: {x} alone {how}; the formula {"gives " + repr(r[1]) if r[0] == "val" else "raises " + type(r[1]).__name__}, expected {w!r}',
                      part='failure_classes')
            run.traces_validated += 1
    run.notes.append(f'failure classes contained by IFERROR in this run: {sorted(classes)}')


def repeated_in_one_formula(run):
    """A nest X used twice in ONE formula with a different conditional between the two uses: both uses are the value of X
    ("in any position inside a larger expression"). X ranges over a sample of the enumerated nests; the formula is
    IFERROR(X&"","e") & "/" & IFS(D1>2,"hi",TRUE,"lo") & "/" & IFERROR(X&"","e"), compared with IFERROR(X&"","e") alone."""
    rng = random.Random(run.seed + 1313)
    nests = []
    while len(nests) < (40 if run.quick else 400):
        a = random_ast(rng, 2)
        if a['t'] in ('ifs', 'if', 'iferror') and depth(a) <= 2:
            nests.append(text(a))
    forms = []
    for x in nests:
        one = f'IFERROR({x}&"","e")'
        forms += [f'={one}', f'={one}&"/"&IFS(D1>2,"hi",TRUE,"lo")&"/"&{one}', f'=IFS(D1>2,"hi",TRUE,"lo")&"/"&{one}&"/"&IFS(D1>2,"hi",TRUE,"lo")']
    p = repo.Probe(forms, CONSTS, timeout=120)
    for env in ENVS[::2]:
        res = p.eval(env_overrides(env))
        mid = 'hi' if env[2] else 'lo'
        for j, x in enumerate(nests):
            one, both, around = res[3 * j], res[3 * j + 1], res[3 * j + 2]
            ok = one[0] == 'val' and both[0] == 'val' and around[0] == 'val' and both[1] == f'{one[1]}/{mid}/{one[1]}' and around[1] == f'{mid}/{one[1]}/{mid}'
            run.judge({'in': {'formula': forms[3 * j + 1], 'env': list(env), 'ast': {'t': 'repeat'}, 'emb': 'repeat'}, 'ideal': f'{one[1]}/{mid}/{one[1]}' if one[0] == 'val' else '?',
                       'obs': str(both[1])[:80], 'kind': 'repeated'}, ok,
                      clause=f'{forms[3 * j + 1]} with conditions {list(env)} = {both[1]!r} (the nest alone gives {one[1]!r}; the conditional between gives {mid!r}); reversed roles: {around[1]!r}',
                      part='repeated')
            run.traces_validated += 1


def check(run):
    run.rule = ('nests of IF/3, IF/2, IFS (1-2 pairs), IFERROR over leaves {7, 9, failing expression, #N/A expression} and 3 condition kinds enumerated by TLC '
                '(depth <= 1 complete; depth 2 with one nested child), each valued under all 8 truth assignments, bare and embedded (T+1, 1+T, -T, T%, '
                'SUM(T,1), ROUND(T,0), 2*T); concretised, translated and evaluated by the real pipeline with conditions as overrides; a sample through the '
                'public file path; random depth-3 nests judged by Trace_C13. One evaluation = one formula under one truth assignment.')
    run.assumptions += ['embedded positions are compared only when the nest yields a number (how an operator treats an error or boolean operand is not this property)',
                        'an evaluation that raises counts as an error value', 'conditions are cells / comparisons; text conditions and error conditions are out of scope']
    gen(run)
    error_constants(run)
    failure_classes(run)
    trace(run)
    repeated_in_one_formula(run)


def replay(run, case):
    i = case['in']
    if case.get('kind') == 'repeated':
        repeated_in_one_formula(run)
        return
    if case.get('kind') == 'error_constant':
        error_constants(run)
        return
    if case.get('kind') == 'failure_class':
        failure_classes(run)
        return
    p = repo.Probe([i['formula']], CONSTS, timeout=120)
    r = p.eval(env_overrides(tuple(i['env']), i.get('style', 0)))[0]
    judge_events(run, [{'ast': i['ast'], 'env': i['env'], 'emb': i['emb'], 'obs': obs_of(*r), 'formula': i['formula']}], 'replay')
