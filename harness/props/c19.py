"""C19 - the safety gate reports exactly the Python-like cells.

MC/GEN: Gen_C18 (Kind = GATE) enumerates placements of 1..2 text fragments (eval(1), os.system("x"), __import__('os'), f(), =SUM(A1:A2),
       =IF(A1>0,1,2), plain text, a (b), Sum(1), =A1+len("x"), x=f(1); g(2)) on a 4 x 5 grid of two sheets (rows != columns), each with the
       verdict of the gate specification (Workbook.Judge: fragments found left to right, upper-case exemption; mixed cells out of scope).
       Each placement is written to a real xlsx file; the gate is exercised enabled and disabled through Excel.parse + is_safe and (sample)
       through Parser.get_translation.
TRACE: every observation {cells, gate, raised, report} is judged by TLC (Trace_C19): raised <=> enabled and something listed; the
       report keys are 'title' + true A1 address; fragments as specified.
"""
import json
import os
import random

from harness import core, repo

TITLES = ['Alpha', "Beta's {0} %s two"]          # an apostrophe, a brace pair and a percent sign: the title is data wherever the report is assembled


def text_of(codes):
    return ''.join(chr(c) for c in codes)


def _job(args):
    idx, recs, scratch, via_parser = args
    try:
        import openpyxl
        out = []
        for k, rec in enumerate(recs):
            # every second chunk writes all its workbooks to ONE path in turn (a file that is edited and read again)
            x = os.path.join(scratch, f'c19_{idx}_{k if idx % 2 == 0 else 0}.xlsx')
            wb = openpyxl.Workbook()
            wb.remove(wb.active)
            sheets = [wb.create_sheet(t) for t in TITLES]
            for cell in rec['gate']:
                t = text_of(cell['t'])
                if t.startswith('=') and (idx + k) % 2:
                    # every second workbook stores its formula-like texts as array formulas ({=...}): the same text, read from another place
                    from openpyxl.worksheet.formula import ArrayFormula
                    t = ArrayFormula(f"{repo.col_letters(cell['c'])}{cell['r']}", t)
                sheets[cell['s'] - 1].cell(row=cell['r'], column=cell['c'], value=t)
            wb.save(x)
            for gate in (True, False):
                ev = {'titles': [[ord(ch) for ch in t] for t in TITLES], 'cells': [[c['s'], c['c'], c['r'], c['t']] for c in rec['gate']], 'gate': gate,
                      'raised': False, 'report': [], 'err': '', 'via': 'parser' if via_parser else 'excel'}
                try:
                    if via_parser:
                        # one Parser, the check toggled the other way first: the setting in force at the call decides
                        ps = repo.Parser().set_excel_file_path(x)
                        (ps.disable_safety_check() if gate else ps.enable_safety_check())
                        try:
                            ps.get_translation()
                        except repo.E2PyclException:
                            pass
                        (ps.enable_safety_check() if gate else ps.disable_safety_check())
                        first = None
                        try:
                            ps.get_translation()
                        except repo.E2PyclSafetyException as e1:
                            first = e1
                        except repo.E2PyclException:
                            pass                          # whether the accepted workbook translates is not this property
                        # the same request once more, nothing changed: a refused workbook is refused again (with the same cells)
                        try:
                            ps.get_translation()
                            if first is not None:
                                ev['err'] = 'the first get_translation raised the safety exception, the same request repeated did not'
                        except repo.E2PyclSafetyException as e2:
                            if first is None:
                                ev['err'] = 'the same request repeated raised the safety exception, the first one did not'
                            elif dict(getattr(e2, 'suspicious_cells', {}) or {}) != dict(getattr(first, 'suspicious_cells', {}) or {}):
                                ev['err'] = 'the same request repeated lists other cells'
                        except repo.E2PyclException:
                            pass
                        if first is not None:
                            raise first
                    else:
                        excel = repo.Excel.parse(x)
                        if gate:
                            excel.is_safe()
                except repo.E2PyclSafetyException as e:
                    ev['raised'] = True
                    sc = getattr(e, 'suspicious_cells', None)
                    if sc is None and e.args:
                        sc = e.args[-1] if isinstance(e.args[-1], dict) else None
                    if not isinstance(sc, dict):
                        ev['err'] = 'the safety exception carries no suspicious_cells mapping'
                    else:
                        ev['report'] = [[[ord(ch) for ch in key], [[ord(ch) for ch in f] for f in frags]] for key, frags in sorted(sc.items())]
                        ev['report_text'] = {k2: v2 for k2, v2 in sc.items()}
                except BaseException as e:  # noqa
                    if isinstance(e, (KeyboardInterrupt, SystemExit)):
                        raise
                    ev['err'] = f'{type(e).__name__}: {e}'[:160]
                out.append(ev)
            try:
                os.remove(x)
            except OSError:
                pass
        return out
    except Exception as e:
        import traceback
        return {'harness_error': f'{type(e).__name__}: {e} {traceback.format_exc()[-400:]}'}


def validate(run, events, tag='Trace_C19'):
    from harness.tlc import parse_tuple
    verdicts = {}
    base = 0
    for pi, part in enumerate(core.chunks(events, 10000)):
        path = os.path.join(run.scratch, f'{tag}_{pi}.json')
        json.dump({'events': [{k: e[k] for k in ('titles', 'cells', 'gate', 'raised', 'report')} for e in part]}, open(path, 'w'))
        r = run.tlc('Trace_C19', ['SPECIFICATION Spec'], workers=1, timeout=2400, env={'TRACE_FILE': path}, tag=f'{tag}_{pi}', heap='6g')
        done = False
        for t in r.tuples:
            v = parse_tuple(t)
            if v[0] == 'V':
                verdicts[base + v[1]] = v[2]
            elif v[0] == 'DONE' and v[1] == len(part) + 1:
                done = True
        if not done:
            raise core.MachineryError(f'{tag}: not all events consumed')
        base += len(part)
    return verdicts


def judge_all(run, evs, part):
    good = [e for e in evs if not e['err']]
    verdicts = validate(run, good, 'Trace_C19_' + part)
    j = 0
    for e in evs:
        placed = [(TITLES[s - 1], f'{repo.col_letters(c)}{r}', text_of(t)) for s, c, r, t in e['cells']]
        case = {'in': {'cells': e['cells'], 'gate': e['gate'], 'via': e['via'], 'placed': placed}, 'obs': {'raised': e['raised'], 'report': e.get('report_text', {})}, 'kind': part}
        if e['err']:
            run.judge(case, False, clause=f"cells {placed}, check {'enabled' if e['gate'] else 'disabled'}: {e['err']}", part=part)
            continue
        j += 1
        v = verdicts.get(j)
        run.judge(case, v is None, clause=f"cells {placed}, check {'enabled' if e['gate'] else 'disabled'} ({e['via']}): {v}; raised={e['raised']} report={e.get('report_text', {})}",
                  nontrivial=len(e['cells']) > 1 or e['raised'], part=part)
        run.traces_validated += 1


def many_cells(run):
    """workbooks with 21..40 suspicious cells over both sheets (every cell of the 4 x 5 grids): all of them must be listed"""
    frags = ['eval({})', 'os.system("{}")', 'f{}()', '=A1+len("{}")', 'x=g({})']
    recs = []
    for total in (21, 27, 40):
        gate, n = [], 0
        for s_ in (1, 2):
            for r in range(1, 6):
                for c in range(1, 5):
                    if n < total:
                        gate.append({'s': s_, 'c': c, 'r': r, 't': [ord(ch) for ch in frags[n % len(frags)].format(n)], 'j': {}})
                        n += 1
        recs.append({'gate': gate})
    a, b = _job((9000, recs, run.scratch, False)), _job((9001, recs[:1], run.scratch, True))
    for o in (a, b):
        if isinstance(o, dict):
            raise core.MachineryError(o['harness_error'])
    evs = a + b
    judge_all(run, evs, 'many_cells')


def check(run):
    run.rule = ('placements of 1..2 fragments out of 11 (python-like calls, upper-case Excel calls, mixed case, innocent texts, formulas) on a 4x5 grid of two sheets '
                'enumerated by TLC with the gate specification\'s verdict; each written to a real xlsx file, the gate exercised enabled and disabled (Excel.parse + '
                'is_safe; a sample through Parser.get_translation); exception type and suspicious_cells mapping judged by Trace_C19. Non-trivial = two fragments or a rejection.')
    run.assumptions += ['cells that mix upper-case calls with other call syntax are out of scope (the statement exempts them from both clauses)',
                        'whether an accepted workbook then translates is not this property']
    th = 'FALSE' if run.quick else 'TRUE'
    r = run.tlc('Gen_C18', ['INIT Init', 'NEXT Next', 'CONSTANT Kind = "GATE"', f'CONSTANT Thorough = {th}'], workers=6, timeout=3000, heap='8g', tag='Gen_C19')
    recs = r.records
    run.exhaustive['placements (sampled by a fixed residue class of the coordinates)'] = True
    jobs = [(i, c, run.scratch, False) for i, c in enumerate(core.chunks(recs, 40))]
    outs = core.pmap(_job, jobs, chunksize=1)
    evs = []
    for o in outs:
        if isinstance(o, dict):
            raise core.MachineryError(o['harness_error'])
        evs += o
    judge_all(run, evs, 'gate')
    rng = random.Random(run.seed + 19)
    sample = rng.sample(recs, min(len(recs), 150 if run.quick else 1500))
    outs = core.pmap(_job, [(10000 + i, c, run.scratch, True) for i, c in enumerate(core.chunks(sample, 10))], chunksize=1)
    evs = []
    for o in outs:
        if isinstance(o, dict):
            raise core.MachineryError(o['harness_error'])
        evs += o
    judge_all(run, evs, 'parser')
    many_cells(run)


def replay(run, case):
    i = case['in']
    rec = {'gate': [{'s': s, 'c': c, 'r': r, 't': t} for s, c, r, t in i['cells']]}
    evs = [e for e in _job((0, [rec], run.scratch, i.get('via') == 'parser')) if e['gate'] == i['gate']]
    judge_all(run, evs, 'replay')
