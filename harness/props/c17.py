"""C17 - text functions obey the substring algebra.

MC   : MC_XlText: LeftMidRebuild, LeftLen, RightMirror, MidBounds, NegativeIsError, SearchPlain (vs a naive definition),
       SearchStar, SearchStartRange, SearchTilde, ValueInverts, for every text up to L over the alphabet x n, k in -1..L+2.
GEN  : Gen_C17: LEFT/RIGHT/MID rows for every text, SEARCH for every (pattern, text) x start, CONCAT operand vectors,
       VALUE on the numeric grid; every row replayed on the real pipeline by overrides, samples as literals / cells / file.
TRACE: random longer texts (mixed case, wildcards, regex metacharacters) recorded from the real code and recomputed
       by TLC (Trace_C17), incl. the rebuild identity LEFT(t,n) & MID(t,n+1,len) = t.
"""
import datetime
import json
import os
import random
from decimal import Decimal

from harness import absval, core, repo

EPOCH = datetime.datetime(1899, 12, 30)
FORMS = ['=LEFT(A1,B1)', '=RIGHT(A1,B1)', '=MID(A1,C1,B1)', '=LEFT(A1)', '=RIGHT(A1)', '=SEARCH(D1,A1,B1)', '=SEARCH(D1,A1)',
         '=LEFT(A1,B1)&MID(A1,B1+1,C1)', '=E1&F1', '=E1&F1&G1', '=CONCATENATE(E1,F1)', '=CONCATENATE(E1,F1,G1)', '=VALUE(A1)',
         # the empty text written as a LITERAL: joining with it still yields the text form of the other operand      (13..17)
         '=E1&""', '=""&E1', '=""&E1&""', '=CONCATENATE(E1,"")', '=LEFT(E1&"",3)']
_PROBE = None


def probe():
    global _PROBE
    if _PROBE is None:
        _PROBE = repo.Probe(FORMS)
    return _PROBE


def s_of(codes):
    return ''.join(chr(c) for c in codes)


def obs_of(kind, p):
    if kind != 'val':
        return {'k': 'err', 'exc': type(p).__name__} if kind == 'eexc' else {'k': 'other', 't': f'{kind}:{type(p).__name__}'}
    if absval.is_empty_cell(p):
        return {'k': 'blank'}
    if isinstance(p, bool):
        return {'k': 'other', 't': 'bool'}
    if isinstance(p, str):
        if p in absval.ERRS:
            return {'k': 'err', 'v': p}
        return {'k': 'text', 'c': [ord(ch) for ch in p]}
    if isinstance(p, int):
        return {'k': 'num', 'n': p}
    if isinstance(p, float):
        return {'k': 'numf', 'v': p}
    return {'k': 'other', 't': type(p).__name__}


def same(ideal, o):
    k = ideal['k']
    if k == 'oos':
        return True
    if k == 'text':
        return (o['k'] == 'text' and o['c'] == ideal['c']) or (ideal['c'] == [] and o['k'] == 'blank')
    if k == 'num':
        return o['k'] == 'num' and o['n'] == ideal['n']
    if k == 'err':
        return o['k'] == 'err'
    return False


def show_ideal(j):
    return {'text': lambda: repr(s_of(j['c'])), 'num': lambda: str(j['n']), 'err': lambda: 'an error value', 'oos': lambda: '-'}[j['k']]()


def show_obs(o):
    if o['k'] == 'text':
        return repr(s_of(o['c']))
    if o['k'] == 'num':
        return str(o['n'])
    if o['k'] == 'err':
        return o.get('v') or ('raises ' + o.get('exc', '?'))
    return str(o)


def pyval(v):
    k = v['k']
    if k == 'text':
        return s_of(v['c'])
    if k == 'dec':
        if v.get('fl'):
            return float(v['m'])            # the whole number as a float (1.0): its text form is that of the integer
        return v['m'] if v['s'] == 0 else float(Decimal(v['m']).scaleb(-v['s']))
    if k == 'bool':
        return bool(v['b'])
    if k == 'date':
        return EPOCH + datetime.timedelta(days=v['d'])
    return None


def _row_job(rec):
    try:
        p = probe()
        bad, n = [], 0
        f = rec['f']
        if f == 'LRM':
            t = s_of(rec['t'])
            ns = rec['ns']
            for i, nn in enumerate(ns):
                res = p.eval([(0, 0, 0, t), (0, 1, 0, nn)], idxs=(0, 1))
                for name, ideal, r in (('LEFT', rec['left'][i], res[0]), ('RIGHT', rec['right'][i], res[1])):
                    n += 1
                    o = obs_of(*r)
                    if not same(ideal, o):
                        bad.append((name, t, '', [nn], ideal, o))
                for a, kk in enumerate(ns):
                    r = p.eval([(0, 0, 0, t), (0, 1, 0, nn), (0, 2, 0, kk)], idxs=(2,))[0]
                    n += 1
                    o = obs_of(*r)
                    if not same(rec['mid'][a][i], o):
                        bad.append(('MID', t, '', [kk, nn], rec['mid'][a][i], o))
                if 0 <= nn < len(t):
                    r = p.eval([(0, 0, 0, t), (0, 1, 0, nn), (0, 2, 0, len(t))], idxs=(7,))[0]
                    n += 1
                    o = obs_of(*r)
                    if not same({'k': 'text', 'c': rec['t']}, o):
                        bad.append(('REBUILD', t, '', [nn], {'k': 'text', 'c': rec['t']}, o))
            res = p.eval([(0, 0, 0, t)], idxs=(3, 4))
            for name, ideal, r in (('LEFT1', rec['left1'], res[0]), ('RIGHT1', rec['right1'], res[1])):
                n += 1
                o = obs_of(*r)
                if not same(ideal, o):
                    bad.append((name, t, '', [], ideal, o))
            if t == '':
                # the empty text as a BLANK cell (empty in the workbook / cleared with an override of None): the same results as for ""
                for blank in ([], [(0, 0, 0, None)]):
                    for i, nn in enumerate(ns):
                        res = p.eval(blank + [(0, 1, 0, nn), (0, 2, 0, max(nn, 1))], idxs=(0, 1, 2))
                        for name, ideal, r in (('LEFT', rec['left'][i], res[0]), ('RIGHT', rec['right'][i], res[1]), ('MID', rec['mid'][ns.index(max(nn, 1))][i] if max(nn, 1) in ns else None, res[2])):
                            if ideal is None:
                                continue
                            n += 1
                            o = obs_of(*r)
                            if not same(ideal, o):
                                bad.append((name + ' of a blank cell', t, '', [nn], ideal, o))
                    res = p.eval(blank or None, idxs=(3, 4))
                    for name, ideal, r in (('LEFT1', rec['left1'], res[0]), ('RIGHT1', rec['right1'], res[1])):
                        n += 1
                        o = obs_of(*r)
                        if not same(ideal, o):
                            bad.append((name + ' of a blank cell', t, '', [], ideal, o))
        elif f == 'SEARCH':
            t, pat = s_of(rec['t']), s_of(rec['p'])
            for s, ideal in enumerate(rec['r']):
                r = p.eval([(0, 0, 0, t), (0, 3, 0, pat), (0, 1, 0, s)], idxs=(5,))[0]
                n += 1
                o = obs_of(*r)
                if not same(ideal, o):
                    bad.append(('SEARCH', t, pat, [s], ideal, o))
            r = p.eval([(0, 0, 0, t), (0, 3, 0, pat)], idxs=(6,))[0]
            n += 1
            o = obs_of(*r)
            if not same(rec['r'][1], o):
                bad.append(('SEARCH2', t, pat, [], rec['r'][1], o))
        elif f == 'CONCAT':
            vs = rec['vs']
            ov = [(0, 4 + i, 0, pyval(v)) for i, v in enumerate(vs) if v['k'] != 'blank']
            idxs = (8, 10) if len(vs) == 2 else (9, 11)
            res = p.eval(ov, idxs=idxs)
            ideal = {'k': 'text', 'c': rec['r']}
            for name, r in zip(('AMP', 'CONCATENATE'), res):
                n += 1
                o = obs_of(*r)
                if not same(ideal, o):
                    bad.append((name, json.dumps(vs), '', [], ideal, o))
            if len(vs) == 2 and vs[1]['k'] == 'text' and vs[1]['c'] == []:
                # second operand = the empty text: the same result with "" typed into the formula
                res = p.eval(ov, idxs=(13, 14, 15, 16, 17))
                for name, r in zip(('AMP_EMPTY_LITERAL', 'EMPTY_LITERAL_AMP', 'EMPTY_AMP_EMPTY', 'CONCATENATE_EMPTY_LITERAL', 'LEFT3_OF_AMP_EMPTY'), res):
                    n += 1
                    o = obs_of(*r)
                    want = ideal if name != 'LEFT3_OF_AMP_EMPTY' else {'k': 'text', 'c': rec['r'][:3]}
                    if not same(want, o):
                        bad.append((name, json.dumps(vs), '', [], want, o))
        elif f == 'VALUE':
            t = s_of(rec['t'])
            r = p.eval([(0, 0, 0, t)], idxs=(12,))[0]
            n += 1
            got = absval.to_spec(r[1], mode='dec') if r[0] == 'val' else {'k': 'other'}
            if not absval.same(got, {'k': 'dec', 'm': rec['m'], 's': rec['s']}):
                bad.append(('VALUE', t, '', [], {'k': 'text', 'c': rec['t']}, obs_of(*r)))
        return n, bad
    except Exception as e:
        import traceback
        return {'harness_error': f'{type(e).__name__}: {e} {traceback.format_exc()[-300:]}'}


def describe(f, t, p, a):
    if f in ('LEFT', 'RIGHT'):
        return f'{f}({t!r},{a[0]})'
    if f in ('LEFT1', 'RIGHT1'):
        return f'{f[:-1]}({t!r})'
    if f == 'MID':
        return f'MID({t!r},{a[0]},{a[1]})'
    if f == 'REBUILD':
        return f'LEFT({t!r},{a[0]})&MID({t!r},{a[0] + 1},{len(t)})'
    if f == 'SEARCH':
        return f'SEARCH({p!r},{t!r},{a[0]})'
    if f == 'SEARCH2':
        return f'SEARCH({p!r},{t!r})'
    return f'{f} of {t}'


def gen(run):
    recs = []
    if run.quick:
        cfgs = {'LRM': (2, '{97, 66, 98, 63, 42, 126, 46, 91, 40, 100}'), 'SEARCH': (2, 3, '{97, 66, 98, 63, 42, 126, 46}')}
    else:
        cfgs = {'LRM': (3, '{97, 66, 98, 63, 42, 126, 46, 91, 40, 100}'), 'SEARCH': (3, 4, '{97, 66, 98, 63, 42, 126, 46}')}
    for kind in ('LRM', 'SEARCH', 'CONCAT', 'VALUE'):
        L, alpha = cfgs['LRM']
        lf, lt, salpha = cfgs['SEARCH']
        r = run.tlc('Gen_C17', ['INIT Init', 'NEXT Next', f'CONSTANT Kind = "{kind}"', f'CONSTANT Alphabet = {alpha}', f'CONSTANT L = {L}',
                                f'CONSTANT SAlphabet = {salpha}', f'CONSTANT LF = {lf}', f'CONSTANT LT = {lt}'], workers=6, timeout=3000,
                    tag='Gen_C17_' + kind, heap='8g')
        recs += r.records
        run.exhaustive[kind] = True
    if not run.quick:        # a slice with regex metacharacters in pattern and text
        r = run.tlc('Gen_C17', ['INIT Init', 'NEXT Next', 'CONSTANT Kind = "SEARCH"', 'CONSTANT Alphabet = {97}', 'CONSTANT L = 1',
                                'CONSTANT SAlphabet = {97, 46, 91, 40, 63, 42, 92, 100, 43}', 'CONSTANT LF = 2', 'CONSTANT LT = 3'], workers=6,
                    timeout=3000, tag='Gen_C17_SEARCH_meta', heap='8g')
        recs += r.records
    res = core.pmap(_row_job, recs, chunksize=max(1, len(recs) // 400))
    for rec, out in zip(recs, res):
        if isinstance(out, dict):
            raise core.MachineryError(out['harness_error'])
        n, bad = out
        run.evaluations += n
        run.traces_validated += n
        run.parts[rec['f']] = run.parts.get(rec['f'], 0) + n
        if not bad:
            key = {'f': rec['f'], 't': rec.get('t'), 'p': rec.get('p'), 'vs': rec.get('vs')}
            run.judge({'in': key, 'obs': f'{n} results equal the oracle', 'kind': 'gen_row'}, True, part='gen_rows',
                      nontrivial=bool(rec.get('t') or rec.get('vs')))
            run.evaluations -= 1
        for (f, t, p, a, ideal, o) in bad[:3]:
            case = {'in': {'f': f, 't': t, 'p': p, 'a': a, 'mode': 'ovr'}, 'ideal': show_ideal(ideal), 'obs': show_obs(o), 'kind': 'gen'}
            run.judge(case, False, clause=f'{describe(f, t, p, a)} = {show_obs(o)}, the substring algebra gives {show_ideal(ideal)}', part='gen')
    samples(run, recs)


def quotable(s):
    return '"' not in s and '\\' not in s


def samples(run, recs):
    """literal spellings (incl. wildcard literals as SEARCH patterns) and the public file path"""
    rng = random.Random(run.seed + 17)
    srch = [r for r in recs if r['f'] == 'SEARCH' and quotable(s_of(r['t'])) and quotable(s_of(r['p']))]
    lrm = [r for r in recs if r['f'] == 'LRM' and quotable(s_of(r['t'])) and r['t']]
    k = 300 if run.quick else 3000
    srch = rng.sample(srch, min(k, len(srch)))
    lrm = rng.sample(lrm, min(k // 3, len(lrm)))
    forms, want = [], []
    for r in srch:
        t, p = s_of(r['t']), s_of(r['p'])
        forms.append(f'=SEARCH("{p}","{t}")')
        want.append(('SEARCH2', t, p, [], r['r'][1]))
        forms.append(f'=SEARCH("{p}","{t}",2)')
        want.append(('SEARCH', t, p, [2], r['r'][2]))
    for r in lrm:
        t = s_of(r['t'])
        if any(ch in t for ch in '?*'):      # a wildcard literal in a plain position is C07's business
            continue
        i = rng.randrange(len(r['ns']))
        forms.append(f'=LEFT("{t}",{r["ns"][i]})')
        want.append(('LEFT', t, '', [r['ns'][i]], r['left'][i]))
        forms.append(f'=MID("{t}",2,{r["ns"][i]})')
        want.append(('MID', t, '', [2, r['ns'][i]], r['mid'][r['ns'].index(2)][i]))
    outs = core.pmap(_lit_job, core.chunks(forms, 100), chunksize=1)
    flat = []
    for o in outs:
        if isinstance(o, dict):
            raise core.MachineryError(o['harness_error'])
        flat += o
    for (f, t, p, a, ideal), o, form in zip(want, flat, forms):
        case = {'in': {'f': f, 't': t, 'p': p, 'a': a, 'mode': 'lit', 'formula': form}, 'ideal': show_ideal(ideal), 'obs': show_obs(o), 'kind': 'literal'}
        run.judge(case, same(ideal, o), clause=f'{form} = {show_obs(o)}, the substring algebra gives {show_ideal(ideal)}', part='literal')
        run.traces_validated += 1
    # public file path: texts as constants
    pp = srch[:40 if run.quick else 250]
    sheet = {}
    for i, r in enumerate(pp):
        sheet[(0, i)] = s_of(r['t'])
        sheet[(1, i)] = s_of(r['p'])
        sheet[(2, i)] = f'=SEARCH(B{i + 1},A{i + 1})'
        sheet[(3, i)] = f'=RIGHT(A{i + 1},2)&LEFT(A{i + 1},1)'
    res = repo.public_path_eval(run.scratch, [('S', sheet)], [(0, c, i) for i in range(len(pp)) for c in (2, 3)], tag='c17pp')
    for i, r in enumerate(pp):
        t, p = s_of(r['t']), s_of(r['p'])
        if not p or not t:
            continue          # openpyxl does not store empty strings
        o = obs_of(*res[2 * i])
        run.judge({'in': {'f': 'SEARCH2', 't': t, 'p': p, 'a': [], 'mode': 'file'}, 'ideal': show_ideal(r['r'][1]), 'obs': show_obs(o), 'kind': 'public_path'},
                  same(r['r'][1], o), clause=f'file path: SEARCH({p!r},{t!r}) = {show_obs(o)}, expected {show_ideal(r["r"][1])}', part='public_path')
        o = obs_of(*res[2 * i + 1])
        exp = {'k': 'text', 'c': [ord(ch) for ch in (t[-2:] + t[:1])]}
        run.judge({'in': {'f': 'RIGHT&LEFT', 't': t, 'mode': 'file'}, 'ideal': show_ideal(exp), 'obs': show_obs(o), 'kind': 'public_path'},
                  same(exp, o), clause=f'file path: RIGHT({t!r},2)&LEFT({t!r},1) = {show_obs(o)}, expected {show_ideal(exp)}', part='public_path')
        run.traces_validated += 2


def _lit_job(forms):
    try:
        return [obs_of(*r) for r in repo.Probe(forms).eval()]
    except Exception as e:
        return {'harness_error': f'{type(e).__name__}: {e}'}


# ---------------------------------------------------------------- direction B
TALPHA = 'aBbA?*~.[(d\\+ x'


def _trace_job(seeds):
    try:
        p = probe()
        ev = p.session().eval if seeds and (seeds[0] // 200) % 2 else p.eval       # every second batch: ONE Executor for the whole sequence
        out = []
        for sd in seeds:
            rng = random.Random(sd)
            t = ''.join(rng.choice(TALPHA) for _ in range(rng.randint(1, 9)))
            x = rng.random()
            if x < 0.45:
                nn, kk = rng.randint(-2, 12), rng.randint(-2, 12)
                res = ev([(0, 0, 0, t), (0, 1, 0, nn), (0, 2, 0, kk)], idxs=(0, 1, 2))
                for f, a, r in (('LEFT', [nn], res[0]), ('RIGHT', [nn], res[1]), ('MID', [kk, nn], res[2])):
                    out.append({'f': f, 't': t, 'p': '', 'a': a, 'obs': obs_of(*r)})
                if 0 <= nn < len(t):
                    r = ev([(0, 0, 0, t), (0, 1, 0, nn), (0, 2, 0, len(t))], idxs=(7,))[0]
                    out.append({'f': 'REBUILD', 't': t, 'p': '', 'a': [nn], 'obs': obs_of(*r)})
            else:
                # patterns cut from the text itself (so that matches exist), with wildcards and case changes injected
                i = rng.randrange(len(t))
                pat = list(t[i:i + rng.randint(1, 4)])
                pat = [('~' + ch) if ch in '?*~' else ch for ch in pat]
                for _ in range(rng.randint(0, 2)):
                    j = rng.randrange(len(pat))
                    pat[j] = rng.choice(['?', '*', pat[j].swapcase()])
                pat = ''.join(pat) if rng.random() < 0.9 else ''.join(rng.choice('aB?*.') for _ in range(rng.randint(1, 3)))
                s = rng.randint(0, len(t) + 1)
                r = ev([(0, 0, 0, t), (0, 3, 0, pat), (0, 1, 0, s)], idxs=(5,))[0]
                out.append({'f': 'SEARCH', 't': t, 'p': pat, 'a': [s], 'obs': obs_of(*r)})
        return out
    except Exception as e:
        return {'harness_error': f'{type(e).__name__}: {e}'}


def validate(run, events, tag='Trace_C17'):
    from harness.tlc import parse_tuple
    verdicts = {}
    base = 0
    for pi, part in enumerate(core.chunks(events, 20000)):
        path = os.path.join(run.scratch, f'{tag}_{pi}.json')
        evs = []
        for e in part:
            o = e['obs']
            oo = {'k': o['k']} if o['k'] in ('err', 'blank') else (o if o['k'] in ('text', 'num') else {'k': 'other'})
            evs.append({'f': e['f'], 't': [ord(c) for c in e['t']], 'p': [ord(c) for c in e['p']], 'a': e['a'], 'obs': oo})
        json.dump({'events': evs}, open(path, 'w'))
        r = run.tlc('Trace_C17', ['SPECIFICATION Spec'], workers=1, timeout=1800, env={'TRACE_FILE': path}, tag=f'{tag}_{pi}')
        done = False
        for t in r.tuples:
            if t.startswith('<<"V"') or t.startswith('<< "V"'):
                import re
                m = re.match(r'<<\s*"V",\s*(\d+),\s*(.*)>>\s*$', t)
                verdicts[base + int(m.group(1))] = m.group(2).strip()
            else:
                v = parse_tuple(t)
                if v[0] == 'DONE' and v[1] == len(part) + 1:
                    done = True
        if not done:
            raise core.MachineryError(f'{tag}: not all events consumed')
        base += len(part)
    return verdicts


def judge_events(run, evs, part):
    verdicts = validate(run, evs, tag='Trace_C17_' + part)
    for i, e in enumerate(evs):
        v = verdicts.get(i + 1)
        case = {'in': {'f': e['f'], 't': e['t'], 'p': e['p'], 'a': e['a'], 'mode': 'ovr'}, 'obs': show_obs(e['obs']), 'kind': part}
        if v is not None:
            case['ideal'] = v
        run.judge(case, v is None, clause=f"Trace_C17: {describe(e['f'], e['t'], e['p'], e['a'])} = {show_obs(e['obs'])}, the specification gives {v}", part=part)
        run.traces_validated += 1


def trace(run):
    n = 2000 if run.quick else 40000
    seeds = [run.seed * 1000037 + i for i in range(n)]
    outs = core.pmap(_trace_job, core.chunks(seeds, 200), chunksize=1)
    evs = []
    for o in outs:
        if isinstance(o, dict):
            raise core.MachineryError(o['harness_error'])
        evs += o
    judge_events(run, evs, 'trace')


LIT_TEXTS = ['aB.c', 'a\\b?', 'B\\\\?', '?\\', '*\\n', "it's", 'x{0}%', '\\', 'a\\tb*', 'q?*~', 'a\nb?']


def literal_texts(run):
    """the text typed INTO the formula as a literal (not held by a cell) - among them texts with a wildcard character and a
    backslash, which the lexer reads as pattern literals - and counts that are results of a division (the same whole numbers as floats)"""
    evs = []
    for t in LIT_TEXTS:
        lit = '"' + t + '"'
        forms, meta = [], []
        for n in range(0, len(t) + 2):
            forms += [f'=LEFT({lit},{n})', f'=RIGHT({lit},{n})', f'=MID({lit},1,{n})', f'=MID({lit},{max(1, n)},2)', f'=LEFT({lit},{2 * n}/2)', f'=MID({lit},{2 * max(1, n)}/2,4/2)']
            meta += [('LEFT', [n]), ('RIGHT', [n]), ('MID', [1, n]), ('MID', [max(1, n), 2]), ('LEFT', [n]), ('MID', [max(1, n), 2])]
        forms += [f'=LEFT({lit},1)&MID({lit},2,{len(t)})', f'={lit}&""']
        meta += [('REBUILD', [1]), ('REBUILD', [1])]
        res = repo.Probe(forms).eval()
        for (f, a), r, form in zip(meta, res, forms):
            evs.append({'f': f, 't': t, 'p': '', 'a': a, 'obs': obs_of(*r), 'formula': form})
    judge_events(run, evs, 'literal_texts')


def value_exponents(run):
    """VALUE of numeric texts in exponent notation, as Excel itself writes large and small numbers (upper-case E, optional sign):
    the number the text denotes, judged exactly"""
    from fractions import Fraction
    cases = [('1E3', 1000), ('1e3', 1000), ('2.5E-1', Fraction(1, 4)), ('-4E2', -400), ('1E+2', 100), ('1.5e+1', 15), ('7E0', 7), ('12E-2', Fraction(12, 100)), ('1E+16', 10 ** 16)]
    p = repo.Probe(['=VALUE(A1)'] + [f'=VALUE("{t}")' for t, _ in cases])
    for i, (t, w) in enumerate(cases):
        for mode, r in (('cell', p.eval([(0, 0, 0, t)], idxs=(0,))[0]), ('literal', p.eval(None, idxs=(i + 1,))[0])):
            ok = r[0] == 'val' and isinstance(r[1], (int, float)) and not isinstance(r[1], bool) and Fraction(r[1]) == Fraction(float(w))
            run.judge({'in': {'f': 'VALUE', 't': t, 'p': '', 'a': [], 'mode': mode}, 'ideal': str(w), 'obs': str(r[1])[:60] if r[0] == 'val' else f'raises {type(r[1]).__name__}', 'kind': 'value_exp'}, ok,
                      clause=f'VALUE({t!r}) ({mode}) = {r[1]!r}, the text denotes {w}', part='value_exp')
            run.traces_validated += 1


def check(run):
    run.rule = ('texts over a mixed-case alphabet with wildcard and regex-special characters enumerated by TLC: LEFT/RIGHT/MID for every text x counts '
                'and positions -1..L+2 (+ the rebuild identity), SEARCH for every (pattern, text) x start position, &/CONCATENATE operand vectors, '
                'VALUE on a numeric grid; replayed by overrides, samples as literals and through the public file path; random longer texts judged '
                'by Trace_C17. One evaluation = one formula result; non-trivial rows have a non-empty text.')
    run.assumptions += ['a text function may deliver the empty text as a blank (the library\'s blank equals ""): accepted as equal',
                        'a ~ not followed by ? * ~, SEARCH inside an empty text, one-argument LEFT/RIGHT of an empty text, non-text first arguments: out of scope',
                        'LEFT/RIGHT with a negative count: any error value is accepted (the statement names the error only for MID by "an error value")']
    L = 2 if run.quick else 3
    inv = ['LeftMidRebuild', 'LeftLen', 'RightMirror', 'MidBounds', 'NegativeIsError', 'SearchPlain', 'SearchStar', 'SearchStartRange', 'SearchTilde',
           'ValueInverts']
    run.tlc('MC_XlText', ['INIT Init', 'NEXT Next', 'CONSTANT Alphabet = {97, 66, 98, 63, 42, 126, 46}', f'CONSTANT L = {L}'] + ['INVARIANT ' + i for i in inv],
            workers=16, timeout=3000)
    gen(run)
    trace(run)
    literal_texts(run)
    value_exponents(run)


def replay(run, case):
    i = case['in']
    if case.get('kind') == 'value_exp':
        value_exponents(run)
        return
    if case.get('kind') == 'literal_texts':
        literal_texts(run)
        return
    f = i['f']
    if i.get('mode') == 'lit' and 'formula' in i:
        r = repo.Probe([i['formula']]).eval()[0]
        ev = {'f': 'SEARCH' if f.startswith('SEARCH') else f, 't': i['t'], 'p': i['p'], 'a': i['a'] or [1], 'obs': obs_of(*r)}
        judge_events(run, [ev], 'replay')
        return
    p = probe()
    t, pat, a = i['t'], i.get('p', ''), i.get('a', [])
    if f in ('LEFT', 'RIGHT'):
        r = p.eval([(0, 0, 0, t), (0, 1, 0, a[0])], idxs=(0 if f == 'LEFT' else 1,))[0]
    elif f == 'MID':
        r = p.eval([(0, 0, 0, t), (0, 2, 0, a[0]), (0, 1, 0, a[1])], idxs=(2,))[0]
    elif f == 'REBUILD':
        r = p.eval([(0, 0, 0, t), (0, 1, 0, a[0]), (0, 2, 0, len(t))], idxs=(7,))[0]
    elif f in ('SEARCH', 'SEARCH2'):
        if f == 'SEARCH2':
            r, a = p.eval([(0, 0, 0, t), (0, 3, 0, pat)], idxs=(6,))[0], [1]
            f = 'SEARCH'
        else:
            r = p.eval([(0, 0, 0, t), (0, 3, 0, pat), (0, 1, 0, a[0])], idxs=(5,))[0]
    else:
        run.notes.append(f'replay of {f} cases: rerun the check')
        return
    judge_events(run, [{'f': f, 't': t, 'p': pat, 'a': a, 'obs': obs_of(*r)}], 'replay')
