"""C03 - entry-point translation is a closed, faithful slice; cycles are rejected.

MC   : Translator (memoised DFS with in-progress marker, code-shaped): Closed, RejectIffCyclic,
       NoForeignOutcome, StackDiscipline, Terminates for every graph on N nodes x every entry.
       Variant=pinned census (no marker) must fail NoForeignOutcome.
GEN  : every graph on N nodes x every entry (Gen_C03 prints closure / cyclic); realised as a
       two-sheet workbook whose edges rotate through reference forms; the generated class must
       define exactly... at least every slice member, each slice cell must evaluate as in the
       whole-workbook translation; cyclic slices must raise the library's parser exception.
TRACE: random larger graphs translated by the real code, judged by Trace_C03 (spec's Closure).
"""
import json
import os
import random
import re

from harness import absval, core, repo
from harness.repo import Cell

# node k (1-based) -> (sheet index, col0, row0); nodes 1..3 are contiguous in column A of S1, nodes 6..7 in row 1 across the Z / AA boundary
# nodes 4, 5 have the ADDRESSES of nodes 1, 2 on the other sheet (A1, A2): a cell is identified by sheet and address, not by its address alone
POS = {1: (0, 0, 0), 2: (0, 0, 1), 3: (0, 0, 2), 4: (1, 0, 0), 5: (1, 0, 1), 6: (0, 25, 0), 7: (0, 26, 0), 8: (1, 2, 3)}     # 6, 7: Z1 and AA1
TITLES = ['S1', "Sh 2"]
PRIMES = {1: 2, 2: 3, 3: 5, 4: 7, 5: 11, 6: 13, 7: 17, 8: 19}
MEMBER = re.compile(r'^    def (_\d+_\d+_\d+)\(self\):', re.M)


def ref(n, own_sheet, form):
    s, c, r = POS[n]
    col = repo.col_letters(c + 1)
    a = [f'{col}{r + 1}', f'${col}${r + 1}', f'{col}${r + 1}', f'${col}{r + 1}'][form % 4]
    if s != own_sheet or form % 7 == 5:
        t = TITLES[s]
        return (f"'{t}'!{a}") if (' ' in t or form % 3 == 0) else f'{t}!{a}'
    return a


def formula(n, deps, salt):
    """Formula text of node n mentioning exactly the cells in deps (plus nothing else)."""
    own = POS[n][0]
    deps = sorted(deps)
    if not deps:
        # constants of every kind a slice may end in: zero and FALSE are cells like any other
        return [PRIMES[n], 0, PRIMES[n], False, PRIMES[n], 0.0][(salt + 2 * n) % 6]
    terms = []
    rest = list(deps)
    mode = (salt + n) % 5
    # a contiguous run inside column A of S1 may be mentioned as a range
    run = [d for d in rest if d in (1, 2, 3)]
    if len(run) >= 2 and run == list(range(run[0], run[-1] + 1)) and mode in (0, 1, 3):
        a, b = ref(run[0], own, salt), ref(run[-1], own, salt + 1).split('!')[-1]   # a prefix goes on the first corner only
        rng_txt = f'{a}:{b}'
        if run == [1, 2, 3] and mode == 3:
            # the WHOLE column A of S1 (its stored cells are exactly nodes 1..3; the sheet may be narrower than it is tall)
            rng_txt = 'A:A' if own == 0 and salt % 2 else f'{TITLES[0]}!A:A'
        terms.append(f'SUM({rng_txt})' if mode == 0 else f'COUNT({rng_txt})*10' if mode == 1 else f'SUM({rng_txt},0)')
        rest = [d for d in rest if d not in run]
    # nodes 6 and 7 (Z1, AA1) may be mentioned as the row area Z1:AA1 (one-letter to two-letter columns)
    if 6 in rest and 7 in rest and mode in (0, 2, 4) and n not in (6, 7):
        a, b = ref(6, own, salt), ref(7, own, salt + 1).split('!')[-1]
        terms.append(f'SUM({a}:{b})')
        rest = [d for d in rest if d not in (6, 7)]
    for i, d in enumerate(rest):
        f = salt + i * 3 + n
        m = (salt + i + n) % 6
        if d == 8 and m in (3, 4):
            # node 8 is the only stored cell of column C of the second sheet (row 4 of a three-column sheet): the whole column mentions it alone
            terms.append("SUM('Sh 2'!C:C)" if own != 1 or m == 3 else 'SUM(C:C)')
        elif m == 0:
            terms.append(f'IF({ref(d, own, f)}>0,{ref(d, own, f + 1)},1)')
        elif m == 1:
            terms.append(f'IFERROR({ref(d, own, f)},0)')
        elif m == 2:
            terms.append(f'{ref(d, own, f)}+{ref(d, own, f + 2)}')      # mentioned twice
        elif m == 3:
            terms.append(f'({ref(d, own, f)}*2)')
        else:
            terms.append(ref(d, own, f))
    return '=' + '+'.join(terms) + f'+{PRIMES[n]}'


def build(deps, salt):
    """deps: {node: [nodes]} -> in-memory Excel + sheets description."""
    sheets = [(TITLES[0], {}), (TITLES[1], {})]
    for n, d in deps.items():
        s, c, r = POS[n]
        sheets[s][1][(c, r)] = formula(n, d, salt)
    return sheets


def uid(n):
    s, c, r = POS[n]
    return f'_{s}_{c}_{r}'


def observe(deps, entry, salt, via_file=False, scratch=None, evaluate=True):
    """Translate from the entry; returns event dict {outcome, members, values, whole}"""
    sheets = build(deps, salt)
    ev = {}
    try:
        if via_file:
            path = os.path.join(scratch, f'c03-{os.getpid()}.xlsx')
            repo.write_xlsx(path, sheets)
            s, c, r = POS[entry]
            text = repo.with_timeout(30, lambda: repo.Parser().set_excel_file_path(path).set_entrypoint_cell(Cell(s, c, r)).get_translation())
        else:
            excel = repo.mem_excel(sheets)
            s, c, r = POS[entry]
            text, _ = repo.with_timeout(30, repo.translate_entry, excel, Cell(s, c, r))
    except BaseException as e:  # noqa
        if isinstance(e, (KeyboardInterrupt, SystemExit)):
            raise
        o = repo.outcome_of_exception(e)
        ev['outcome'] = o['o'] if o['o'] != 'foreign' else 'foreign:' + o['t']
        ev['members'] = []
        return ev
    ev['outcome'] = 'ok'
    inv = {uid(n): n for n in deps}
    names = MEMBER.findall(text)
    ev['members'] = sorted(inv[m] for m in names if m in inv)
    ev['extra_members'] = sorted(m for m in names if m not in inv)
    # values of the slice vs whole-workbook translation
    try:
        klass = repo.load_class(text)
    except SyntaxError:
        ev['outcome'] = 'syntax'
        return ev
    vals = {}
    ev['values'] = vals
    if not evaluate:
        # the slice is cyclic by the specification: a class that was produced all the same is already the violation; evaluating a
        # cyclic class may not come back (an IFERROR around the loop swallows every RecursionError and tries again)
        return ev
    ex = repo.fresh_executor(klass)
    for n in ev['members']:
        s, c, r = POS[n]
        try:
            vals[n] = absval.to_spec(repo.read_cell(ex, Cell(s, c, r), 10))
        except repo.CaseTimeout:
            vals[n] = {'k': 'other', 't': 'evaluation does not come back (10 s)'}
        except Exception as e:
            vals[n] = {'k': 'err', 'e': 'ANY', 'exc': type(e).__name__}
    ev['values'] = vals
    return ev


def whole_values(deps, salt, evaluate=True):
    sheets = build(deps, salt)
    try:
        text, _ = repo.with_timeout(60, repo.translate_file, repo.mem_excel(sheets))
        klass = repo.load_class(text)
    except BaseException as e:  # noqa
        if isinstance(e, (KeyboardInterrupt, SystemExit)):
            raise
        o = repo.outcome_of_exception(e)
        return o['o'] if o['o'] != 'foreign' else 'foreign:' + o['t']
    if not evaluate:
        return {}
    ex = repo.fresh_executor(klass)
    vals = {}
    for n in deps:
        s, c, r = POS[n]
        try:
            vals[n] = absval.to_spec(repo.read_cell(ex, Cell(s, c, r), 10))
        except repo.CaseTimeout:
            vals[n] = {'k': 'other', 't': 'evaluation does not come back (10 s)'}
        except Exception as e:
            vals[n] = {'k': 'err', 'e': 'ANY', 'exc': type(e).__name__}
    return vals


def judge_graph(rec, salt, via_file, scratch):
    deps = {i + 1: d for i, d in enumerate(rec['deps'])}
    entry = rec['entry']
    ev = observe(deps, entry, salt, via_file, scratch, evaluate=not rec['cyclic'])
    if rec['cyclic']:
        if ev['outcome'] != 'lib':
            return False, f"cyclic slice: outcome {ev['outcome']}, expected the library's parser exception", ev
        return True, '', ev
    if ev['outcome'] != 'ok':
        return False, f"acyclic slice not translated: {ev['outcome']}", ev
    if ev['members'] != rec['slice']:
        return False, f"members {ev['members']} differ from the dependency closure {rec['slice']}", ev
    if ev.get('extra_members'):
        return False, f"class defines cell members outside the workbook graph: {ev['extra_members']}", ev
    if not rec['anycycle']:
        whole = whole_values(deps, salt)
        if isinstance(whole, str):
            return False, f'whole-workbook translation of an acyclic workbook failed: {whole}', ev
        for n in rec['slice']:
            if not absval.same(ev['values'][n], whole[n]) and not (ev['values'][n].get('k') == 'err' and whole[n].get('k') == 'err'):
                return False, f"node {n}: slice value {absval.show(ev['values'][n])} differs from whole-workbook value {absval.show(whole[n])}", ev
    else:
        whole = whole_values(deps, salt, evaluate=False)
        if whole != 'lib':
            return False, f'whole-workbook translation of a cyclic workbook: outcome {whole if isinstance(whole, str) else "ok"}, expected the parser exception', ev
    return True, '', ev


_SCRATCH = None


def _job(args):
    rec, salt, via_file = args
    try:
        return judge_graph(rec, salt, via_file, _SCRATCH)
    except Exception as e:
        return None, f'harness: {type(e).__name__}: {e}', {}


def mc(run):
    n = '{1,2,3}' if run.quick else '{1,2,3,4}'
    r = run.tlc('MC_Translator', ['SPECIFICATION Spec', f'CONSTANTS Nodes = {n} Variant = "fixed" DepthCap = 8',
                                  'INVARIANT Closed', 'INVARIANT RejectIffCyclic', 'INVARIANT NoForeignOutcome',
                                  'INVARIANT StackDiscipline', 'PROPERTY Terminates'],
                workers=12, timeout=1800, coverage=True, tag='MC_Translator_fixed')
    run.vacuity(r, ['Visit', 'Exit'])
    rp = run.tlc('MC_Translator', ['SPECIFICATION Spec', 'CONSTANTS Nodes = {1,2} Variant = "pinned" DepthCap = 6',
                                   'INVARIANT NoForeignOutcome'], workers=2, timeout=300, expect_ok=False,
                 tag='MC_Translator_pinned')
    if rp.ok:
        raise core.MachineryError('pinned-variant translator model unexpectedly never overflows')
    run.notes.append('pinned-variant census: NoForeignOutcome violated (unbounded recursion on a cycle), as expected')


def gen(run):
    global _SCRATCH
    _SCRATCH = run.scratch
    recs = run.tlc('Gen_C03', ['INIT Init', 'NEXT Next', 'CONSTANTS Nodes = {1,2,3}', 'INVARIANT SliceClosed',
                               'INVARIANT SliceMinimal'], workers=2, timeout=600, tag='Gen_C03_n3').records
    run.exhaustive['all 512 graphs on 3 nodes x 3 entries'] = True
    twins(run, recs)
    jobs = [(rec, i % 11, i % 40 == 0) for i, rec in enumerate(recs)]
    r4 = run.tlc('Gen_C03', ['INIT Init', 'NEXT Next', 'CONSTANTS Nodes = {1,2,3,4}', 'INVARIANT SliceClosed',
                             'INVARIANT SliceMinimal'], workers=4, timeout=1800, tag='Gen_C03_n4').records
    if run.quick:
        r4 = run.rng.sample(r4, 1500)
    else:
        run.exhaustive['all 65536 graphs on 4 nodes x 4 entries'] = True
    jobs += [(rec, (i * 7) % 11, i % 400 == 0) for i, rec in enumerate(r4)]
    res = core.pmap(_job, jobs)
    for (rec, salt, via_file), (ok, clause, ev) in zip(jobs, res):
        if ok is None:
            raise core.MachineryError(clause)
        case = {'in': {'deps': rec['deps'], 'entry': rec['entry'], 'salt': salt, 'via_file': via_file},
                'ideal': {'cyclic': rec['cyclic'], 'slice': rec['slice']}, 'obs': {k: v for k, v in ev.items() if k != 'values'},
                'kind': 'graph'}
        run.judge(case, ok, clause=clause, nontrivial=len(rec['slice']) > 1, part='gen')
        run.traces_validated += 1


# ---------------------------------------------------------------- twin sheets
def twin_case(rec, order):
    """The same graph placed at the same coordinates of two sheets, every formula spelled with unprefixed references (so the
    formula TEXTS of the two sheets are identical while the constants they reach differ), plus a top cell that needs both copies.
    The slice from the top cell must contain the closure on both sheets and every value must be the fold over its own sheet."""
    deps = {i + 1: d for i, d in enumerate(rec['deps'])}
    entry = rec['entry']
    consts = [{1: 2, 2: 3, 3: 5, 4: 7}, {1: 200, 2: 300, 3: 500, 4: 700}]
    sheets = [(TITLES[0], {}), (TITLES[1], {})]
    for s in (0, 1):
        for n, d in deps.items():
            sheets[s][1][(0, n - 1)] = '=' + '+'.join([f'A{x}' for x in d] + [f'B{n}'])
            sheets[s][1][(1, n - 1)] = consts[s][n]
    a, b = f'A{entry}', f"'{TITLES[1]}'!A{entry}"
    sheets[0][1][(3, 0)] = f'={a}+{b}' if order == 0 else f'={b}+{a}'
    # expected values: fold over the closure (the graph is acyclic)
    val = [{}, {}]

    def v(s, n):
        if n not in val[s]:
            val[s][n] = consts[s][n] + sum(v(s, x) for x in deps[n])
        return val[s][n]
    want = {}
    for s in (0, 1):
        for n in rec['slice']:
            want[(s, 0, n - 1)] = v(s, n)
            want[(s, 1, n - 1)] = consts[s][n]
    want[(0, 3, 0)] = v(0, entry) + v(1, entry)
    problems = []
    for mode in ('entry', 'whole'):
        try:
            excel = repo.mem_excel(sheets)
            text, _ = repo.with_timeout(30, repo.translate_entry, excel, Cell(0, 3, 0)) if mode == 'entry' else repo.with_timeout(60, repo.translate_file, excel)
            klass = repo.load_class(text)
        except BaseException as e:  # noqa
            if isinstance(e, (KeyboardInterrupt, SystemExit)):
                raise
            problems.append(f'{mode}: translation failed with {type(e).__name__}: {e}'[:160])
            continue
        names = set(MEMBER.findall(text))
        missing = sorted(f'_{s}_{c}_{r}' for (s, c, r) in want if f'_{s}_{c}_{r}' not in names)
        if missing:
            problems.append(f'{mode}: members missing from the generated class: {missing}')
        ex = repo.fresh_executor(klass)
        for (s, c, r), e in sorted(want.items()):
            try:
                got = ex.get_cell(Cell(s, c, r)).value
            except Exception as exn:  # noqa
                got = f'raises {type(exn).__name__}'
            if got != e:
                problems.append(f"{mode}: {TITLES[s]}!{repo.col_letters(c + 1)}{r + 1} = {got!r}, its own sheet's cells give {e}")
    return problems, sheets


def _twin_job(args):
    rec, order = args
    try:
        return twin_case(rec, order)
    except Exception as e:
        return None, f'harness: {type(e).__name__}: {e}'


def twins(run, recs):
    acyc = [r for r in recs if not r['anycycle']]
    jobs = [(r, i % 2) for i, r in enumerate(acyc)]
    res = core.pmap(_twin_job, jobs)
    for (rec, order), (problems, sheets) in zip(jobs, res):
        if problems is None:
            raise core.MachineryError(sheets)
        case = {'in': {'deps': rec['deps'], 'entry': rec['entry'], 'order': order, 'twin': True}, 'ideal': {'slice': rec['slice']}, 'obs': problems[:4], 'kind': 'twin'}
        run.judge(case, not problems, clause='twin sheets (identical formula texts on two sheets): ' + '; '.join(problems[:3]), nontrivial=len(rec['slice']) > 1, part='twin')
        run.traces_validated += 1


def random_graph(rng, n):
    p = rng.choice([0.15, 0.25, 0.4])
    deps = []
    acyclic = rng.random() < 0.6
    for i in range(1, n + 1):
        cand = [j for j in range(1, n + 1) if (j > i if acyclic else True)]
        deps.append(sorted(j for j in cand if rng.random() < p))
    return deps


def _tjob(args):
    seed, n = args
    rng = random.Random(seed)
    deps = random_graph(rng, n)
    entry = rng.randint(1, n)
    salt = rng.randint(0, 10)
    try:
        ev = observe({i + 1: d for i, d in enumerate(deps)}, entry, salt, rng.random() < 0.03, _SCRATCH, evaluate=False)
    except Exception as e:
        return {'harness_error': f'{type(e).__name__}: {e}'}
    return {'deps': deps, 'entry': entry, 'salt': salt, 'outcome': ev['outcome'], 'members': ev['members']}


def validate(run, events, tag='Trace_C03'):
    from harness.tlc import parse_tuple
    path = os.path.join(run.scratch, tag + '.json')
    json.dump({'events': events}, open(path, 'w'))
    r = run.tlc('Trace_C03', ['SPECIFICATION Spec'], workers=1, timeout=1500, env={'TRACE_FILE': path}, tag=tag)
    rej, done = {}, False
    for t in r.tuples:
        v = parse_tuple(t)
        if v[0] == 'REJECT':
            rej[v[1]] = v[3]
        elif v[0] == 'DONE' and v[1] == len(events) + 1:
            done = True
    if not done:
        raise core.MachineryError(f'{tag}: not all events consumed')
    return rej


def trace(run):
    global _SCRATCH
    _SCRATCH = run.scratch
    n = 400 if run.quick else 6000
    seeds = [run.seed * 100043 + i for i in range(n)]
    evs = core.pmap(_tjob, [(s, 5 + s % 4) for s in seeds])
    for e in evs:
        if 'harness_error' in e:
            raise core.MachineryError(e['harness_error'])
    rej = validate(run, [{'deps': e['deps'], 'entry': e['entry'], 'outcome': e['outcome'].split(':')[0], 'members': e['members']} for e in evs])
    for i, e in enumerate(evs):
        rj = rej.get(i + 1)
        case = {'in': {'deps': e['deps'], 'entry': e['entry'], 'salt': e['salt']}, 'obs': {'outcome': e['outcome'], 'members': e['members']}, 'kind': 'trace'}
        run.judge(case, rj is None, clause='Trace_C03: ' + rj if rj else '', nontrivial=len(e['members']) > 1 or e['outcome'] != 'ok', part='trace')
        run.traces_validated += 1


CHAIN_GUARD = 60           # finding C03-F1: slices deeper than 60..170 cells (by reference form and the caller's own stack depth) are rejected from an entry point


def chains(run):
    """Dependency CHAINS (cell i reads cell i-1, alternately directly and through a one-cell area): the slice of the last cell is the
    whole chain. Short chains must translate from the entry and agree with the whole-workbook translation; beyond CHAIN_GUARD the
    rejection with the library's parser exception is the recorded finding C03-F1 (any other outcome is judged as usual)."""
    for n in (30, 50, 120, 220, 400):
        cells = {(0, 0): 1}
        for i in range(1, n):
            cells[(0, i)] = f'=A{i}+1' if i % 2 else f'=SUM(A{i}:A{i})+1'
        excel = repo.mem_excel([('S', cells)])
        try:
            text, _ = repo.with_timeout(120, repo.translate_entry, excel, Cell(0, 0, n - 1))
            members = len(MEMBER.findall(text))
            try:
                v = repo.fresh_executor(repo.load_class(text)).get_cell(Cell(0, 0, min(n, 150) - 1)).value
            except RecursionError:
                v = 'evaluation: RecursionError'
            o, obs = 'ok', {'members': members, 'value_at_row_%d' % min(n, 150): v}
            conforms = members == n and v == min(n, 150)
        except BaseException as e:  # noqa
            if isinstance(e, (KeyboardInterrupt, SystemExit)):
                raise
            oc = repo.outcome_of_exception(e)
            o, obs, conforms = oc['o'], {'outcome': oc['o'], 'detail': oc.get('t', '')}, False
        devs = ['C03-F1'] if (n >= CHAIN_GUARD and o == 'lib') else []
        run.judge({'in': {'chain': n}, 'ideal': f'a class with {n} members', 'obs': obs, 'kind': 'chain'}, conforms, devs=devs,
                  clause=f'chain of {n} cells translated from its last cell: {obs}', part='chains')
        run.traces_validated += 1


def witnesses(run):
    for fid, f in run.open.items():
        if fid == 'C03-F1':
            n = f['witness']['chain']
            cells = {(0, 0): 1}
            for i in range(1, n):
                cells[(0, i)] = f'=A{i}+1'
            try:
                repo.with_timeout(120, repo.translate_entry, repo.mem_excel([('S', cells)]), Cell(0, 0, n - 1))
                run.witness_note(fid, False, f'a chain of {n} cells translates from its last cell')
            except repo.E2PyclException:
                run.witness_note(fid, True)


def check(run):
    run.rule = ('every dependency graph on 3 nodes (and on 4 nodes: all in thorough, a seeded sample in quick) x every entry, '
                'enumerated by TLC with closure/cyclic verdict, realised as two-sheet workbooks with rotating reference forms; '
                'random graphs on 5-8 nodes judged by Trace_C03. Non-trivial = slice with more than one cell or a cyclic slice.')
    run.assumptions += ['member set is read from the generated text (one "def _s_c_r(self)" per cell)',
                        'slice values are compared with the whole-workbook translation (metamorphic oracle of the statement)']
    mc(run)
    witnesses(run)
    gen(run)
    trace(run)
    chains(run)


def replay(run, case):
    global _SCRATCH
    if case.get('kind') == 'chain':
        chains(run)
        return
    _SCRATCH = run.scratch
    i = case['in']
    if i.get('twin'):
        rec = {'deps': i['deps'], 'entry': i['entry'], 'slice': case['ideal']['slice']}
        problems, _ = twin_case(rec, i['order'])
        run.judge(dict(case, obs=problems[:4]), not problems, clause='twin sheets: ' + '; '.join(problems[:3]))
        return
    deps = {k + 1: d for k, d in enumerate(i['deps'])}
    ev = observe(deps, i['entry'], i['salt'], i.get('via_file', False), run.scratch)
    rej = validate(run, [{'deps': i['deps'], 'entry': i['entry'], 'outcome': ev['outcome'].split(':')[0], 'members': ev['members']}])
    ok = 1 not in rej
    clause = rej.get(1, '')
    if ok and case.get('ideal') and not case['ideal']['cyclic']:
        rec = {'deps': i['deps'], 'entry': i['entry'], 'cyclic': False, 'slice': case['ideal']['slice'],
               'anycycle': False}
        # value comparison needs the whole-workbook translation to exist
        whole = whole_values(deps, i['salt'])
        if not isinstance(whole, str):
            ok, clause, ev = judge_graph(rec, i['salt'], i.get('via_file', False), run.scratch)
    run.judge(dict(case, obs={k: v for k, v in ev.items() if k != 'values'}), ok, clause=clause)
