"""C06 - translation is total: a loadable Python class or a library exception.

MC   : Translator (C03's state machine): every behaviour ends in done / lib (NoForeignOutcome, Terminates);
       ImplGrammar: InvWholeOrLib on all enumerated token sequences.
GEN  : (a) C05's token sequences (soups, mutations, arity sweep): outcome class must be ok or lib;
       (b) Gen_C06: adversarial workbook descriptors (title kind x constant kind x formula kind x placement)
           with the admissible outcome set per descriptor;
       for every 'ok': the text compiles, the class reports the workbook's titles and sizes, defines one callable
       member per translated cell, evaluation raises no NameError, and loading the written file behaves like the
       class object (value by value).
TRACE: random damaged formulas judged by Trace_C05 including the outcome-class clause.
"""
import datetime
import json
import os
import random
import re

from harness import absval, core, repo
from harness.props import c05
from harness.repo import Cell, Parser, Executor

MEMBER = re.compile(r'^    def (_\d+_\d+_\d+)\(self\):', re.M)
TITLES = {'plain': 'Data', 'space': 'My Sheet', 'quote': "it's", 'dquote': 'say "hi"', 'brace': 'a{b}c', 'format': '{functions}',
          'digit': '1st', 'unicode': 'Лист1', 'long': 'L' * 31,
          # runs of quotes, and a quote as the very last character of the last title of the workbook
          'dquote3': 'a"""b', 'dquote_last': '"Q1"', 'squote3': "a'''b"}
CONSTS = {'int': 42, 'float': 2.5, 'bigint': 12345678901234, 'bool': True, 'text': 'hello', 'text_quote': "it's \"q\"",
          'text_backslash': 'a\\', 'text_newline': 'a\nb', 'text_brace': '{x} {0} %s', 'datetime': datetime.datetime(2024, 1, 2, 3, 4, 5),
          'date': datetime.date(2024, 2, 29), 'time': datetime.time(3, 4, 5), 'timedelta': datetime.timedelta(hours=30),
          'errstr': '#N/A', 'empty': '', 'numtext': '0012', 'eqtext_const': "'=1+1", 'datatable': 'DATATABLE',
          # placeholders: the stored number is rewritten in the file to one beyond the range of a double (see overflow_in_file)
          'overflow': 987654321.25, 'overflow_neg': -987654321.25}
FORMULAS = {
    'none': None, 'valid_arith': '=(B1+2)*3-B1/4', 'valid_fn': '=ROUND(SUM(B1:B2,1)/3,2)',
    'valid_nested3': '=IF(B1>1,IF(B1>2,MAX(B1,3),2),1)', 'valid_crosssheet': "={T}!B1+1", 'valid_wholecol': '=SUM(B:B)',
    'array_formula': 'ARRAY', 'unknown_fn': '=FOO(1)', 'unknown_sheet': '=Nope!A1+1', 'far_ref': '=XFD9999+1', 'lowercase_fn': '=sum(1,2)',
    'name': '=abc', 'error_literal': '=#REF!+1', 'unbalanced': '=(1+2', 'trailing_op': '=1+', 'lit_quote': '="it\'s"',
    'lit_backslash': '="a\\"', 'lit_brace': '="{x}"&"{0}"', 'lit_newline': '="a\nb"', 'adjacent_pct': '=1%2', 'match2': '=MATCH(1,B1:B2)',
    'xmatch2': '=XMATCH(1,B1:B2)', 'vlookup3': '=VLOOKUP(1,B1:C2,2)', 'empty_formula': '=', 'only_eq_space': '=  ', 'nested4': '=SUM(SUM(SUM(SUM(1,2),3),4),5)',
    'self_ref': '=A1+1', 'diag_range': '=B1:C2', 'cross_sheet_range': "=SUM(B1:{T}!B2)", 'column_noarg': '=COLUMN()+COLUMN(C1)',
    'count_mixed': '=COUNT(B1:B2,1,"2",B1)', 'index_multi': '=INDEX((B1:B2,C1:C2),1,1,2)', 'sumif_cell': '=SUMIF(B1,">0")',
    'address5': '=ADDRESS(1,2,4,TRUE,"S")', 'text_fn': '=TEXT(B1,"0.00")', 'neg_pct_chain': '=-B1%+2%',
    'row_zero': '=A0+1', 'abs_row_zero': '=$B$0', 'range_row_zero': '=SUM(A0:A2)', 'col_4letters': '=ZZZZ1+1', 'wholecol_4letters': '=SUM(AAAA:AAAA)',
    'half_open_area': '=SUM(B1:C)', 'half_open_area2': '=SUM(B:C2)', 'empty_title': '=!B1+1', 'empty_quoted_title': "=''!B1+1",
    # a number no double can hold; a flat sum of 1500 terms (4.5k characters: within Excel's limit); a whole column as the sum range; COLUMN of a column that cannot exist
    'exp_huge': '=1e5000+1', 'long_sum': '=' + '+'.join(['B1'] * 1500), 'sumif_wholecol_target': '=SUMIF(B1:B2,">1",C:C)', 'column_4letters': '=COLUMN(ZZZZ1)',
    # digits that are not ASCII digits (Arabic-Indic three): inside a criterion text and as a number literal
    'crit_unicode_digit': '=COUNTIFS(B1:B2,">\u0663")', 'unicode_digit_literal': '=\u0663+1',
    # a flat chain of 220 comparisons (each one wraps the ones before it); a row number of 5000 digits
    'cmp_chain_220': '=' + '='.join(['1'] * 220), 'row_5000_digits': '=A' + '9' * 5000 + '+1',
    'crit_leading_zero': '=SUMIF(B1:B2,">007",C1:C2)', 'crit_huge': '=SUMIF(B1:B2,">1e999",C1:C2)',
    # the same chain as an ARGUMENT of a call (the call is emitted as a member of its own: the cell's own expression stays short)
    'cmp_chain_in_call': '=INDEX(B1:B2,' + '='.join(['1'] * 220) + ',1)',
    'col_beyond_xfd': '=XFE1+1', 'row_huge': '=A99999999+1', 'brackets8': '=((((((((B1))))))))+1',
}


def build_sheets(d):
    title = TITLES[d['title']]
    other = 'Other'
    f = FORMULAS[d['formula']]
    off = (0, 0) if d['place'] == 'origin' else (3, 5)
    cells = {(1, 0): 3, (1, 1): 4, (2, 0): 5, (2, 1): 6}            # B1 B2 C1 C2
    cells[(0 + off[0], 3 + off[1])] = CONSTS[d['const']]
    if d['const'] == 'datatable':
        # a what-if data table cell ({=TABLE(..)}): openpyxl delivers an object, not a value
        from openpyxl.worksheet.formula import DataTableFormula
        cells[(0 + off[0], 3 + off[1])] = DataTableFormula(ref='A4:A4', dt2D=False, r1='B1')
    if f is not None:
        if f == 'ARRAY':
            from openpyxl.worksheet.formula import ArrayFormula
            f = ArrayFormula('A1:A2', '=SUM(B1:B2)')
        else:
            qt = "'" + title.replace("'", "''") + "'"
            f = f.replace('{T}', qt)
        cells[(0, 0)] = f                                            # A1
    if d['title'] == 'dquote_last':
        return [(other, {(1, 0): 9}), (title, cells)]
    return [(title, cells), (other, {(1, 0): 9})]


def overflow_in_file(path):
    """The placeholder number of the file becomes 1e999 / -1e999: a stored number no double can hold (a file written by another tool)"""
    import shutil
    import zipfile
    tmp = path + '.tmp'
    n = 0
    with zipfile.ZipFile(path) as zin, zipfile.ZipFile(tmp, 'w', zipfile.ZIP_DEFLATED) as zout:
        for name in zin.namelist():
            data = zin.read(name)
            if name.startswith('xl/worksheets/'):
                n += data.count(b'<v>987654321.25</v>') + data.count(b'<v>-987654321.25</v>')
                data = data.replace(b'<v>987654321.25</v>', b'<v>1e999</v>').replace(b'<v>-987654321.25</v>', b'<v>-1e999</v>')
            zout.writestr(zin.getinfo(name), data)
    shutil.move(tmp, path)
    if n != 1:
        raise RuntimeError(f'overflow placeholder found {n} times in {path}')


DEEP = {'long_sum', 'cmp_chain_220', 'cmp_chain_in_call', 'nested4', 'brackets8', 'row_5000_digits', 'exp_huge', 'self_ref', 'valid_nested3', 'valid_wholecol'}


def probe(d, scratch):
    """The whole workbook, and - for the formulas that are deep, long or cyclic, and for every fifth descriptor - the same workbook
    translated from the formula cell as ENTRY POINT: the obligation (terminates; the library's exception or a loadable class; never a
    foreign exception) holds for both ways into the translator."""
    first = probe_whole(d, scratch)
    if first[0] not in ('ok', 'lib') or FORMULAS[d['formula']] is None:
        return first
    if d['formula'] not in DEEP and (sum(map(ord, d['title'] + d['const'] + d['formula'])) % 5):
        return first
    xlsx = os.path.join(scratch, f'c06-{os.getpid()}.xlsx')
    si = 1 if d['title'] == 'dquote_last' else 0
    try:
        ps = Parser().set_excel_file_path(xlsx).disable_safety_check().set_entrypoint_cell(Cell(si, 0, 0))
        text = repo.with_timeout(30, ps.get_translation)
    except BaseException as e:  # noqa
        if isinstance(e, (KeyboardInterrupt, SystemExit)):
            raise
        o = repo.outcome_of_exception(e)
        if o['o'] == 'lib':
            return first if first[0] == 'lib' or d['formula'] in ('long_sum', 'cmp_chain_220', 'cmp_chain_in_call') else ('badclass', f'the whole workbook translates, the entry point A1 is rejected: {str(e)[:80]}')
        return o['o'], 'entry point A1: ' + o.get('t', '') + ':' + str(e)[:80]
    try:
        klass = repo.load_class(text)
        klass()
    except SyntaxError as e:
        return 'syntax', 'entry point A1: ' + str(e)[:80]
    except Exception as e:  # noqa
        return 'foreign', 'entry point A1: load:' + type(e).__name__
    if f'def _{si}_0_0(self)' not in text:
        return 'badclass', 'entry point A1: the class has no member for the entry cell'
    return first


def probe_whole(d, scratch):
    """Full public path: xlsx -> Parser.write_translation -> load both ways. Returns (outcome, detail)."""
    sheets = build_sheets(d)
    xlsx = os.path.join(scratch, f'c06-{os.getpid()}.xlsx')
    py = os.path.join(scratch, f'c06-{os.getpid()}.py')
    repo.write_xlsx(xlsx, sheets)
    if d['const'] in ('overflow', 'overflow_neg'):
        overflow_in_file(xlsx)
    try:
        ps = Parser().set_excel_file_path(xlsx).disable_safety_check()
        repo.with_timeout(30, ps.write_translation, py)
        text = ps.get_translation()
    except BaseException as e:  # noqa
        if isinstance(e, (KeyboardInterrupt, SystemExit)):
            raise
        o = repo.outcome_of_exception(e)
        if o['o'] == 'lib':
            # the same request once more on the same Parser: translation is total on every call, not only on the first
            # (it must be rejected again - never a stale or empty result, never a foreign exception)
            try:
                again = repo.with_timeout(30, ps.get_translation)
                return 'badclass', f'rejected with {type(e).__name__}, but the same request repeated returned {type(again).__name__}'
            except BaseException as e2:  # noqa
                if isinstance(e2, (KeyboardInterrupt, SystemExit)):
                    raise
                o2 = repo.outcome_of_exception(e2)
                if o2['o'] != 'lib':
                    return o2['o'], 'repeated request: ' + o2.get('t', '') + ':' + str(e2)[:80]
            try:
                repo.with_timeout(30, ps.write_translation, py)
                return 'badclass', f'rejected with {type(e).__name__}, but the same write request repeated succeeded'
            except BaseException as e3:  # noqa
                if isinstance(e3, (KeyboardInterrupt, SystemExit)):
                    raise
                o3 = repo.outcome_of_exception(e3)
                if o3['o'] != 'lib':
                    return o3['o'], 'repeated write request: ' + o3.get('t', '') + ':' + str(e3)[:80]
        return o['o'], o.get('t', '') + ':' + str(e)[:80]
    return check_ok_text(text, sheets, py)


def check_ok_text(text, sheets, pyfile=None, expect_cells=None):
    """Obligations for an 'ok' outcome. Returns (outcome, detail): 'ok' or a failed-clause outcome."""
    try:
        klass = repo.load_class(text)
    except SyntaxError as e:
        return 'syntax', str(e)[:80]
    except Exception as e:
        return 'foreign', 'load:' + type(e).__name__
    try:
        inst = klass()
        titles = inst.get_titles()
        sizes = inst.get_sheets_size()
    except Exception as e:
        return 'foreign', 'instantiate:' + type(e).__name__
    want_titles = {t: i for i, (t, _) in enumerate(sheets)}
    if titles != want_titles:
        return 'badclass', f'titles {titles} != {want_titles}'
    want_sizes = []
    for _, cells in sheets:
        want_sizes.append({'last_column': max((c for c, _ in cells), default=-1) + 1, 'last_row': max((r for _, r in cells), default=-1) + 1})
    if sizes != want_sizes:
        return 'badclass', f'sizes {sizes} != {want_sizes}'
    members = set(MEMBER.findall(text))
    want_members = {f'_{si}_{c}_{r}' for si, (_, cells) in enumerate(sheets) for (c, r) in cells} if expect_cells is None else expect_cells
    missing = want_members - members
    if missing:
        return 'badclass', f'no member for translated cell(s) {sorted(missing)[:4]}'
    vals = {}
    for m in sorted(members):
        if not callable(getattr(klass, m, None)):
            return 'badclass', f'member {m} is not callable'
        try:
            vals[m] = ('v', repr(klass().exec_function_in(m)))
        except NameError as e:
            return 'badclass', f'member {m} refers to an undefined name: {e}'
        except Exception as e:
            vals[m] = ('e', type(e).__name__)
    if sheets:
        # the class carries the WORKBOOK's sizes for every instance: one executor that appends a cell beside / below the stored ones
        # changes its own instance only, a new instance of the same class object still reports the sizes of the workbook
        try:
            ex1 = repo.fresh_executor(klass)
            ex1.set_cells([Cell(0, want_sizes[0]['last_column'] + 1, want_sizes[0]['last_row'] + 2, 1)])
            again = klass().get_sheets_size()
            again2 = repo.fresh_executor(klass).get_executed_class().get_sheets_size()
        except Exception as e:
            return 'foreign', 'append:' + type(e).__name__
        if again != want_sizes or again2 != want_sizes:
            return 'badclass', f'after one executor appended a cell, a new instance of the class object reports sizes {again} / {again2}, the workbook has {want_sizes}'
    if pyfile:
        try:
            ex = Executor().set_executed_class(class_file=pyfile)
            inst2 = ex.get_executed_class()
        except SyntaxError as e:
            return 'syntax', 'file:' + str(e)[:80]
        except Exception as e:
            return 'foreign', 'fileload:' + type(e).__name__
        if inst2.get_titles() != titles or inst2.get_sheets_size() != sizes:
            return 'badclass', 'file-loaded class reports different titles/sizes'
        for m in sorted(members):
            try:
                v2 = ('v', repr(inst2.exec_function_in(m)))
            except Exception as e:
                v2 = ('e', type(e).__name__)
            a, b = vals[m], v2
            if a != b and not ('_today' in text and 'datetime' in a[1]):
                return 'badclass', f'member {m}: class object gives {a}, file-loaded class gives {b}'
    return 'ok', ''


_SCRATCH = None


def _djob(d):
    try:
        return probe(d, _SCRATCH)
    except Exception as e:
        return 'harness', f'{type(e).__name__}: {e}'


def _tjob(args):
    rec, variant = args
    try:
        toks = rec['t']
        text = c05.concretise(toks, variant)
        cells = dict(c05.CONSTS)
        cells[(25, 0)] = text
        sheets = [('S', cells)]
        excel = repo.mem_excel(sheets)
        try:
            src, ctx = repo.with_timeout(20, repo.translate_entry, excel, Cell(0, 25, 0))
        except BaseException as e:  # noqa
            if isinstance(e, (KeyboardInterrupt, SystemExit)):
                raise
            o = repo.outcome_of_exception(e)
            return text, o['o'], o.get('t', '')
        o, det = check_ok_text(src, sheets, None, expect_cells=set(ctx._cell_translations))
        return text, o, det
    except Exception as e:
        return '', 'harness', f'{type(e).__name__}: {e}'


def mc(run):
    r = run.tlc('MC_Translator', ['SPECIFICATION Spec', 'CONSTANTS Nodes = {1,2,3} Variant = "fixed" DepthCap = 8',
                                  'INVARIANT NoForeignOutcome', 'INVARIANT Closed', 'PROPERTY Terminates'],
                workers=8, timeout=900, coverage=True, tag='MC_Translator_total')
    run.vacuity(r, ['Visit', 'Exit'])


def gen_tokens(run):
    recs = c05.gen_records(run)
    for part, rs in recs.items():
        jobs = [(r, i % 12) for i, r in enumerate(rs)]
        res = core.pmap(_tjob, jobs)
        for (rec, variant), (text, o, det) in zip(jobs, res):
            if o == 'harness':
                raise core.MachineryError(det)
            case = {'in': {'tokens': rec['t'], 'text': text}, 'obs': {'outcome': o, 'detail': det}, 'kind': 'tokens:' + part}
            run.judge(case, o in ('ok', 'lib'), devs=devs_for(text, o, det),
                      clause=f"outcome class '{o}' ({det}) is neither a loadable, well-formed class nor a library exception",
                      nontrivial=o == 'ok', part=part)
            run.traces_validated += 1


def devs_for(text, o, det):
    return []


def gen_workbooks(run):
    global _SCRATCH
    _SCRATCH = run.scratch
    r = run.tlc('Gen_C06', ['INIT Init', 'NEXT Next', 'INVARIANT Total'], workers=2, timeout=600)
    recs = r.records
    if run.quick:
        # every (const x formula) and every (title x formula) pair occurs; placements alternate
        keep, seen1, seen2 = [], set(), set()
        run.rng.shuffle(recs)
        for d in recs:
            k1, k2 = (d['const'], d['formula']), (d['title'], d['formula'])
            if k1 not in seen1 or k2 not in seen2:
                seen1.add(k1)
                seen2.add(k2)
                keep.append(d)
        recs = keep
        run.exhaustive['workbook descriptors: all pairs (const x formula), (title x formula)'] = True
    else:
        run.exhaustive['workbook descriptors: full product title x const x formula x placement'] = True
    res = core.pmap(_djob, recs)
    for d, (o, det) in zip(recs, res):
        if o == 'harness':
            raise core.MachineryError(det)
        exp = d['expected']
        ok = o in exp
        clause = (f"outcome class '{o}' ({det}); admissible for this descriptor: {exp}")
        case = {'in': {k: d[k] for k in ('title', 'const', 'formula', 'place')}, 'ideal': exp, 'obs': {'outcome': o, 'detail': det}, 'kind': 'workbook'}
        run.judge(case, ok, clause=clause, nontrivial=True, part='workbooks')
        run.traces_validated += 1


def nesting(run):
    """'never hangs': nesting depth sweep under a per-case wall-clock limit. Depth <= 5 must finish (measured: depth 5
    takes ~3 s, x6 per level). The witness of finding C06-F1 (depth 8, ~10 min of backtracking) is run under the same
    limit; Guard_C06_F1 = nesting depth >= 7."""
    depths = [1, 2, 3, 4, 5] if run.quick else [1, 2, 3, 4, 5, 6]
    jobs = []
    for d in depths:
        jobs.append(('SUM', d, '=' + 'SUM(' * d + '1' + ',2)' * d))
        jobs.append(('IF', d, '=' + 'IF(B1>0,' * d + '1' + ',0)' * d))
        jobs.append(('PAREN', d * 2, '=' + '(' * (d * 2) + '1' + '+1)' * (d * 2)))
    for fid, f in run.open.items():
        if fid == 'C06-F1':
            w = f['witness']
            jobs.append((w['nest'], w['depth'], w['text']))
            jobs.append(('PAREN', 20, '=' + '(' * 20 + '1' + ')' * 20))       # plain brackets double the time per level: same finding
    res = core.pmap(_nest_job, jobs, chunksize=1)
    for (kind, d, text), (o, det, secs) in zip(jobs, res):
        case = {'in': {'text': text, 'nest': kind, 'depth': d}, 'obs': {'outcome': o, 'detail': det, 'seconds': secs}, 'kind': 'nesting'}
        guard = (kind in ('SUM', 'IF') and d >= 7) or (kind == 'PAREN' and d >= 15)
        run.judge(case, o in ('ok', 'lib'), devs=['C06-F1'] if (o == 'timeout' and guard) else [],
                  clause=f"depth-{d} {kind} nest: outcome '{o}' after {secs}s", part='nesting')


NEST_LIMIT = 60.0


def _nest_job(args):
    import time
    kind, d, text = args
    t0 = time.time()
    cells = dict(c05.CONSTS)
    cells[(25, 0)] = text
    excel = repo.mem_excel([('S', cells)])
    try:
        repo.with_timeout(NEST_LIMIT if d <= 6 else 15.0, repo.translate_entry, excel, Cell(0, 25, 0))
        return 'ok', '', round(time.time() - t0, 2)
    except BaseException as e:  # noqa
        if isinstance(e, (KeyboardInterrupt, SystemExit)):
            raise
        o = repo.outcome_of_exception(e)
        return o['o'], o.get('t', ''), round(time.time() - t0, 2)


def check(run):
    run.rule = ('token sequences of C05 (soups, mutations, arity sweep) judged by outcome class only, with the full well-formedness '
                'obligations on every loadable result; adversarial workbook descriptors enumerated by TLC (Gen_C06) run through '
                'xlsx -> Parser.write_translation -> Executor(class_file); nesting-depth sweep under a wall-clock limit. '
                'Non-trivial = the translation succeeded (all obligations checked) or the descriptor is adversarial.')
    run.assumptions += ['openpyxl decides what a "readable workbook" is', 'NameError during evaluation counts as a malformed member; other evaluation errors are data-dependent and not C06\'s business',
                        f'"never hangs" is a wall-clock bound of {NEST_LIMIT}s per formula']
    mc(run)
    gen_tokens(run)
    gen_workbooks(run)
    nesting(run)
    c05.trace(run, c06=True)


def replay(run, case):
    global _SCRATCH
    _SCRATCH = run.scratch
    k = case.get('kind', '')
    if k == 'workbook':
        o, det = probe(case['in'], run.scratch)
        run.judge(dict(case, obs={'outcome': o, 'detail': det}), o in case['ideal'], clause=f"outcome class '{o}' ({det}); admissible: {case['ideal']}")
    elif k == 'nesting':
        o, det, secs = _nest_job((case['in']['nest'], case['in']['depth'], case['in']['text']))
        guard = (case['in']['nest'] in ('SUM', 'IF') and case['in']['depth'] >= 7) or (case['in']['nest'] == 'PAREN' and case['in']['depth'] >= 15)
        run.judge(dict(case, obs={'outcome': o, 'seconds': secs}), o in ('ok', 'lib'), devs=['C06-F1'] if (o == 'timeout' and guard) else [], clause=f"outcome '{o}' after {secs}s")
    else:
        text = case['in']['text']
        cells = dict(c05.CONSTS)
        cells[(25, 0)] = text
        sheets = [('S', cells)]
        try:
            src, ctx = repo.with_timeout(20, repo.translate_entry, repo.mem_excel(sheets), Cell(0, 25, 0))
            o, det = check_ok_text(src, sheets, None, expect_cells=set(ctx._cell_translations))
        except BaseException as e:  # noqa
            oo = repo.outcome_of_exception(e)
            o, det = oo['o'], oo.get('t', '')
        run.judge(dict(case, obs={'outcome': o, 'detail': det}), o in ('ok', 'lib'), clause=f"outcome class '{o}' ({det})")
