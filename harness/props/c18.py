"""C18 - the workbook is read at true coordinates, with true types and sizes.

MC/GEN: Gen_C18 (Kind = LAYOUT) enumerates workbook layouts: 1..3 sheets, each a subset of a 3 x 3 corner grid plus beacons far
       from the origin ((D,7), (AA,1), (A,100), (XFD,3)), content kinds rotated over the cells (integer, float, boolean, text,
       date-time, negative, array formula, date, FALSE, large integer), with the size of every sheet; invariants WellFormed and
       SizesAreBoundingBox hold on every layout. Each layout is written to a real xlsx file by openpyxl and read through the
       public path (Parser.write_translation -> Executor(class_file)): titles, sizes, and value + type at every coordinate of
       the bounding box plus one ring (far rows / columns sampled), also Excel.parse(...).get_cells().
TRACE: every observation is judged by TLC against Workbook.At / SizeOf (Trace_C18).
"""
import datetime
import json
import os
import random

from harness import absval, core, repo
from harness.repo import Cell

KINDS = ['int', 'float', 'bool', 'one', 'text', 'datetime', 'negint', 'zero', 'array', 'date', 'boolf', 'bigint', 'eqtext', 'calltext']


def planted(kind, c, r):
    """value written into the workbook"""
    if kind == 'int':
        return 1000 * (c % 97) + r + 2
    if kind == 'float':
        return (c % 97) + r / 8 + 0.0625
    if kind == 'bool':
        return True
    if kind == 'one':          # the integer 1 next to the boolean TRUE, the integer 0 next to FALSE: equal values, different stored types
        return 1
    if kind == 'zero':
        return 0
    if kind == 'boolf':
        return False
    if kind == 'text':
        return f't{c}_{r}'
    if kind == 'datetime':
        return datetime.datetime(2024, 1, 1) + datetime.timedelta(days=c % 300, seconds=r * 60)
    if kind == 'negint':
        return -((c % 97) * 100 + r)
    if kind == 'date':
        return datetime.date(2024, 2, 1) + datetime.timedelta(days=(c + r) % 20)
    if kind == 'bigint':
        return 2 ** 40 + (c % 97)
    if kind == 'eqtext':       # a TEXT cell whose text starts with '=' (typed with a leading apostrophe in Excel): stored type is text
        return f'={c % 97}+{r}'
    if kind == 'calltext':     # a text that reads like a call (what the safety check reports): a cell like any other once the check is switched off
        return f'rate(net {c}_{r})'
    if kind == 'array':
        from openpyxl.worksheet.formula import ArrayFormula
        return ArrayFormula(f'{repo.col_letters(c)}{r}', f'=SUM({c % 97},{r})')
    raise ValueError(kind)


def expected(kind, c, r):
    """value the executor must deliver for that cell"""
    if kind == 'date':
        d = planted(kind, c, r)
        return datetime.datetime(d.year, d.month, d.day)
    if kind == 'array':
        return (c % 97) + r
    return planted(kind, c, r)


def classify(v, c, r):
    if absval.is_empty_cell(v) or v is None:
        return 'blank'
    for k in KINDS:
        e = expected(k, c, r)
        if type(v) is type(e) and v == e:
            return k
    return f'other:{type(v).__name__}:{v!r}'[:60]


def coords_to_probe(cells, size):
    """bounding box plus one ring when small; otherwise the stored cells, their neighbours and the corners"""
    cols, rows = size['cols'], size['rows']
    if (cols + 1) * (rows + 1) <= 400:
        return [(c, r) for r in range(1, rows + 2) for c in range(1, cols + 2)]
    pts = set()
    for x in cells:
        for dc in (-1, 0, 1):
            for dr in (-1, 0, 1):
                c, r = x['c'] + dc, x['r'] + dr
                if c >= 1 and r >= 1:
                    pts.add((c, r))
    pts |= {(1, 1), (cols, rows), (cols + 1, rows), (cols, rows + 1), (1, rows), (cols, 1)}
    return sorted(p for p in pts if p[0] >= 1 and p[1] >= 1)


def stale_dimension(path, sheets):
    """Rewrite the <dimension ref> records of the sheets to a range SMALLER than the cells actually stored (a stale record, as tools
    that append cells without updating it leave behind): the record is a hint, the cells of the file are what the workbook holds."""
    import re
    import shutil
    import zipfile
    tmp = path + '.tmp'
    with zipfile.ZipFile(path) as zin, zipfile.ZipFile(tmp, 'w', zipfile.ZIP_DEFLATED) as zout:
        names = [n for n in zin.namelist()]
        sheet_files = sorted((n for n in names if re.fullmatch(r'xl/worksheets/sheet\d+\.xml', n)), key=lambda n: int(re.findall(r'\d+', n)[-1]))
        for n in names:
            data = zin.read(n)
            if n in sheet_files:
                z = sheets[sheet_files.index(n)]['size'] if sheet_files.index(n) < len(sheets) else {'cols': 0, 'rows': 0}
                c, r = max(1, min(z['cols'], 16384) - 1), max(1, z['rows'] - 1)
                if (c, r) != (1, 1) and (c < z['cols'] or r < z['rows']):
                    ref = f'A1:{repo.col_letters(c)}{r}'.encode()
                    data = re.sub(rb'<dimension ref="[^"]*"', b'<dimension ref="' + ref + b'"', data, count=1)
            zout.writestr(zin.getinfo(n), data)
    shutil.move(tmp, path)


def _job(args):
    idx, recs, scratch = args
    try:
        import openpyxl
        out = []
        # every second chunk: ONE Parser for all its workbooks, each written to the SAME path in turn (a regenerated file) and announced again
        # with set_excel_file_path; the other chunks: a new Parser and a new path per workbook
        shared = repo.Parser().disable_safety_check() if idx % 2 else None
        for k, rec in enumerate(recs):
            x = os.path.join(scratch, f'c18_{idx}_{0 if shared else k}.xlsx')
            p = os.path.join(scratch, f'c18_{idx}_{k}.py')
            wb = openpyxl.Workbook()
            wb.remove(wb.active)
            for si, sh in enumerate(rec['sheets']):
                if rec.get('chartAt', 0) == si + 1:
                    pending_chart = wb.create_chartsheet('Chart')          # a chart sheet among the tabs: not a worksheet
                ws = wb.create_sheet(sh['title'])
                for cell in sorted(sh['cells'], key=lambda q: (q['r'], q['c'])):
                    oc = ws.cell(row=cell['r'], column=cell['c'], value=planted(cell['k'], cell['c'], cell['r']))
                    if cell['k'] == 'eqtext':
                        oc.data_type = 's'
            if rec.get('chartAt', 0):
                from openpyxl.chart import BarChart, Reference
                ch = BarChart()
                ch.add_data(Reference(wb.worksheets[0], min_col=1, min_row=1, max_row=2))
                pending_chart.add_chart(ch)
            wb.save(x)
            if (idx + k) % 4 == 2:
                stale_dimension(x, rec['sheets'])
            ev = {'sheets': rec['sheets'], 'titles': [], 'sizes': [], 'cells': [], 'err': ''}
            try:
                (shared or repo.Parser().disable_safety_check()).set_excel_file_path(x).write_translation(p)
                ex = repo.Executor().set_executed_class(class_file=p)
                inst = ex.get_executed_class()
                titles = inst.get_titles()
                ev['titles'] = [t for t, _ in sorted(titles.items(), key=lambda kv: kv[1])]
                ev['sizes'] = [{'cols': z['last_column'], 'rows': z['last_row']} for z in inst.get_sheets_size()]
                for si, sh in enumerate(rec['sheets']):
                    for (c, r) in coords_to_probe(sh['cells'], sh['size']):
                        try:
                            v = ex.get_cell(Cell(si, c - 1, r - 1)).value
                            kd = classify(v, c, r)
                        except Exception as e:  # noqa
                            kd = f'raises:{type(e).__name__}'
                        ev['cells'].append([si + 1, c, r, kd])
                # a second executor of the same class object extends a sheet by an override far outside; a third one, created afterwards,
                # must still report the workbook's own sizes (sizes belong to the executor's overrides, not to the class)
                klass = type(inst)
                far = repo.Executor().set_executed_class(class_object=klass)
                far.set_cells([Cell(0, 40, 50, 1)])
                far.get_cell(Cell(0, 0, 0))
                fresh = repo.Executor().set_executed_class(class_object=klass).get_executed_class()
                ev['sizes_fresh'] = [{'cols': z['last_column'], 'rows': z['last_row']} for z in fresh.get_sheets_size()]
                # the reader's own view: coordinates of Excel.get_cells()
                n = len(repo.Excel.parse(x).get_cells())
                ev['ncells'] = n
            except BaseException as e:  # noqa
                if isinstance(e, (KeyboardInterrupt, SystemExit)):
                    raise
                ev['err'] = f'{type(e).__name__}: {e}'[:160]
            for f in (x, p):
                try:
                    os.remove(f)
                except OSError:
                    pass
            out.append(ev)
        return out
    except Exception as e:
        import traceback
        return {'harness_error': f'{type(e).__name__}: {e} {traceback.format_exc()[-400:]}'}


def validate(run, events, tag='Trace_C18'):
    from harness.tlc import parse_tuple
    verdicts = {}
    base = 0
    for pi, part in enumerate(core.chunks(events, 1500)):
        path = os.path.join(run.scratch, f'{tag}_{pi}.json')
        json.dump({'events': [{k: e[k] for k in ('sheets', 'titles', 'sizes', 'cells')} for e in part]}, open(path, 'w'))
        r = run.tlc('Trace_C18', ['SPECIFICATION Spec'], workers=1, timeout=2400, env={'TRACE_FILE': path}, tag=f'{tag}_{pi}', heap='6g')
        done = False
        for t in r.tuples:
            v = parse_tuple(t)
            if v[0] == 'V':
                verdicts[base + v[1]] = v[2]
            elif v[0] == 'DONE' and v[1] == len(part) + 1:
                done = True
        if not done:
            raise core.MachineryError(f'{tag}: not all events consumed')
        base += len(part)
    return verdicts


def describe(ev, v):
    if v == 'TITLES':
        return f"titles {ev['titles']} differ from the workbook's {[s['title'] for s in ev['sheets']]}"
    if v == 'SIZES':
        return f"sizes {ev['sizes']} differ from the bounding boxes {[s['size'] for s in ev['sheets']]}"
    bad = []
    for (s, c, r, kd) in ev['cells']:
        want = next((x['k'] for x in ev['sheets'][s - 1]['cells'] if x['c'] == c and x['r'] == r), 'blank')
        if want != kd:
            bad.append(f"sheet {s} {repo.col_letters(c)}{r}: stored {want}, seen {kd}")
    return '; '.join(bad[:3])


def check(run):
    run.rule = ('workbook layouts enumerated by TLC (1..3 sheets; subsets of a 3x3 corner grid + beacons at D7, AA1, A100, XFD3; 10 content kinds rotated over the '
                'cells) written to real xlsx files and read through Parser.write_translation + Executor(class_file): titles, sizes, value and type at every '
                'coordinate of the bounding box plus one ring (far layouts: stored cells, neighbours, corners); judged by Trace_C18. Non-trivial = a layout with a gap '
                '(an empty row or column inside the bounding box) or more than one sheet.')
    run.assumptions += ['openpyxl is the writer and the xlsx decoder (trusted base): a date is delivered as the date-time at its midnight, an array formula by its formula text (its value is compared)',
                        'float cells carry a fractional part (openpyxl reads 5.0 back as 5)']
    th = 'FALSE' if run.quick else 'TRUE'
    r = run.tlc('Gen_C18', ['INIT Init', 'NEXT Next', 'CONSTANT Kind = "LAYOUT"', f'CONSTANT Thorough = {th}', 'INVARIANT Laws'], workers=6, timeout=3000, heap='8g')
    seen, recs = set(), []
    for rec in r.records:
        k = json.dumps(rec, sort_keys=True)
        if k not in seen:
            seen.add(k)
            recs.append(rec)
    run.exhaustive['layouts'] = True
    jobs = [(i, c, run.scratch) for i, c in enumerate(core.chunks(recs, 12))]
    outs = core.pmap(_job, jobs, chunksize=1)
    evs = []
    for o in outs:
        if isinstance(o, dict):
            raise core.MachineryError(o['harness_error'])
        evs += o
    ok_evs = [e for e in evs if not e['err']]
    verdicts = validate(run, ok_evs)
    j = 0
    for rec, ev in zip(recs, evs):
        gap = any(len({x['r'] for x in s['cells']}) < s['size']['rows'] or len({x['c'] for x in s['cells']}) < s['size']['cols'] for s in rec['sheets'])
        case = {'in': {'sheets': rec['sheets'], 'chartAt': rec.get('chartAt', 0)}, 'kind': 'layout'}
        if ev['err']:
            run.judge(dict(case, obs=ev['err']), False, clause=f"reading the workbook failed: {ev['err']}", part='layout')
            continue
        j += 1
        v = verdicts.get(j)
        want_cells = sum(len(s['cells']) for s in rec['sheets'])
        run.judge(dict(case, obs={'titles': ev['titles'], 'sizes': ev['sizes']}), v is None, clause=f'Trace_C18 {v}: ' + (describe(ev, v) if v else ''),
                  nontrivial=gap or len(rec['sheets']) > 1, part='layout')
        run.evaluations += len(ev['cells'])
        run.traces_validated += 1 + len(ev['cells'])
        if ev.get('sizes_fresh') != ev['sizes']:
            run.judge(dict(case, obs={'sizes': ev['sizes'], 'sizes_of_a_later_executor_of_the_class': ev.get('sizes_fresh')}), False,
                      clause=f"another executor of the same class set a cell far outside; a new executor of that class then reports {ev.get('sizes_fresh')} instead of the workbook's {ev['sizes']}",
                      part='layout')


def replay(run, case):
    rec = {'sheets': case['in']['sheets']}
    ev = _job((0, [rec], run.scratch))[0]
    if ev['err']:
        run.judge(dict(case, obs=ev['err']), False, clause=ev['err'])
        return
    v = validate(run, [ev], 'Trace_C18_replay').get(1)
    run.judge(dict(case, obs={'titles': ev['titles'], 'sizes': ev['sizes']}), v is None, clause=f'Trace_C18 {v}: ' + (describe(ev, v) if v else ''))
