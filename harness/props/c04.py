"""C04 - overrides mean edit-the-cell-and-recalculate; the last write wins.

MC   : ideal Executor laws (LastWriteWins, OverriddenIsConstant, UntouchedKeepMeaning, ...);
       ExecutorImpl (code-shaped, Variant=fixed) refines Executor; Variant=pinned census must fail.
GEN  : every sequence of <= R batches (TLC, Gen_C04) replayed on a real Executor under several
       PYTHONHASHSEEDs; after each batch every coordinate / grid / size is compared with the
       spec's snapshot; a sample is also compared with a fresh translation of the edited workbook
       (the statement's own oracle, which at the same time validates the spec's Ev).
TRACE: long random histories recorded from the real Executor, validated by Trace_C04.tla.
"""
import json
import os
import random
import subprocess
import sys

from harness import absval, core, repo
from harness.props import exec_common as xc
from harness.repo import Cell

COORDS_Q = '{"S1A1","S1B2","S1A2","S1C1"}'
COORDS_T = '{"S1A1","S1B2","S1A2","S1C1","S1F4","S2B1"}'


def mc(run):
    wc = COORDS_Q if run.quick else '{"S1A1","S1B2","S1A2","S1C1","S1F4"}'
    consts = [f'CONSTANTS WCoords = {wc} Values = {{2,4}} MaxBatch = 2']
    r = run.tlc('MC_Executor', ['SPECIFICATION Spec'] + consts + [
        'PROPERTY LastWriteWins', 'PROPERTY QueriesArePure', 'INVARIANT OverriddenIsConstant',
        'INVARIANT UntouchedKeepMeaning', 'INVARIANT GridIsBox', 'INVARIANT SizesGrow'],
        workers=12, timeout=1500, coverage=True)
    run.vacuity(r, ['SetCells', 'Get', 'GetSheet', 'RejectedSet'])
    ci = ['CONSTANTS WCoords = {"S1A1","S1B2","S1A2"} Values = {2,4} MaxBatch = 2'] if run.quick else consts
    r = run.tlc('MC_ExecutorImpl', ['SPECIFICATION Spec'] + ci + ['CONSTANT Variant = "fixed"', 'PROPERTY Refines',
                                                                  'INVARIANT ArgsCoherent', 'INVARIANT MarksAreOverrides'],
                workers=12, timeout=1500, tag='MC_ExecutorImpl_fixed', coverage=True)
    run.vacuity(r, ['SetCells', 'Query', 'RejectedSet'])
    rp = run.tlc('MC_ExecutorImpl', ['SPECIFICATION Spec', 'CONSTANTS WCoords = {"S1A1","S1B2","S1A2"} Values = {2,4} MaxBatch = 2',
                                     'CONSTANT Variant = "pinned"', 'PROPERTY Refines'],
                 workers=4, timeout=600, tag='MC_ExecutorImpl_pinned', expect_ok=False)
    if rp.ok:
        raise core.MachineryError('pinned-variant executor model unexpectedly refines the ideal executor')
    re_ = run.tlc('MC_ExecutorImpl', ['SPECIFICATION Spec', 'CONSTANTS WCoords = {"S1A1","S1F4"} Values = {2} MaxBatch = 2',
                                      'CONSTANT Variant = "eager_sizes"', 'PROPERTY Refines'],
                  workers=4, timeout=600, tag='MC_ExecutorImpl_eager_sizes', expect_ok=False)
    if re_.ok:
        raise core.MachineryError('the executor model whose rejected calls leave size marks behind unexpectedly refines the ideal executor')
    run.notes.append(f'eager-sizes census: {re_.violated} violated after {len(re_.error_trace)} states (expected)')
    run.notes.append(f'pinned-variant census: {rp.violated} violated after {len(rp.error_trace)} states (expected)')


# --------------------------------------------------------------- replay of one history (worker side)
def replay_history(w, h, rng, from_file=False):
    """Returns (ok, clause, observed events)."""
    ex = xc.new_executor(w, from_file)
    pos = w.pos
    obs = []
    lazy = rng.random() < 0.34          # a third of the replays ask nothing until the last batch has been set
    # a quarter of the replays: the caller keeps ONE Cell object and re-addresses it for every write (each write a call of its own, no
    # query in between), and one Cell object for every query - a Cell is its present address and value, not what it was when first used
    reuse = rng.random() < 0.25
    own, qown = None, None

    def q_get(name, style):
        nonlocal qown
        if not reuse:
            return xc.q_get(ex, pos[name], style)
        s_, c_, r_ = pos[name]
        if qown is None:
            qown = Cell(s_ - 1, c_ - 1, r_ - 1)
        else:
            qown.title, qown.column, qown.row, qown.value = s_ - 1, c_ - 1, r_ - 1, None
        try:
            return xc.val_json('val', ex.get_cell(qown).value)
        except repo.E2PyclException:
            raise
        except Exception:
            return xc.val_json('exc', None)
    for rnd, step in enumerate(h):
        if reuse:
            cells = []
            for c, v in step['batch']:
                s_, c_, r_ = pos[c]
                if own is None:
                    own = Cell(s_ - 1, c_ - 1, r_ - 1, xc.pyval(v))
                else:
                    own.title, own.column, own.row, own.value = s_ - 1, c_ - 1, r_ - 1, xc.pyval(v)
                ex.set_cells([own])
                cells.append(Cell(s_ - 1, c_ - 1, r_ - 1, xc.pyval(v)))
        else:
            cells = [xc.mk_cell(pos[c], v, rng.randint(0, 3)) for c, v in step['batch']]
            ex.set_cells(cells)
        # calls that change nothing in the ideal executor: an empty batch, the same batch once more
        if rng.random() < 0.3:
            ex.set_cells([])
        if rng.random() < 0.2:
            ex.set_cells([xc.mk_cell(pos[c], v, rng.randint(0, 3)) for c, v in step['batch']])
        if rng.random() < 0.3:
            # the caller's own override Cell (the last write of the batch) is used as the query for its coordinate, first thing after the call
            c_last, v_last = step['batch'][-1]
            try:
                got = xc.val_json('val', ex.get_cell(cells[-1]).value)
            except repo.E2PyclException:
                raise
            except Exception:
                got = xc.val_json('exc', None)
            want = next(it['v'] for it in step['snap']['vals'] if it['c'] == c_last)
            if not same_small(got, want):
                return False, f'round {rnd + 1}: get_cell with the very Cell object that was passed to set_cells ({c_last} = {v_last}) -> {got}, expected {want}', obs
        if rng.random() < 0.2:
            # a blank that was READ is written back as an override of that same blank cell: the workbook stays what it was
            blank = ex.get_cell(xc.mk_cell(pos['S1A2'], None, 0)).value if 'S1A2' not in {c for st in h[:rnd + 1] for c, _ in st['batch']} else None
            if blank is not None:
                try:
                    ex.set_cells([xc.mk_cell(pos['S1A2'], blank, rng.randint(0, 3))])
                    ex.set_cells([xc.mk_cell(pos['S1A2'], None, 0)])
                except repo.E2PyclException:
                    raise
                except Exception as e:  # noqa
                    return False, f'round {rnd + 1}: writing a blank that was read back ({blank!r}) into its own cell raises {type(e).__name__}: {e}', obs
        if rng.random() < 0.3:
            cells[0].value = 'changed by the caller afterwards'          # the value supplied AT the call is the override
        if rng.random() < 0.25 and not xc.rejected_set(ex, pos, rng):          # Executor!RejectedSet: changes nothing
            return False, f'round {rnd + 1}: a set_cells call naming a cell that cannot exist was accepted', obs
        if lazy and rnd < len(h) - 1:
            continue
        snap = step['snap']
        order = list(snap['vals'])
        rng.shuffle(order)
        for item in order:
            got = q_get(item['c'], rng.randint(0, 3))
            if not same_small(got, item['v']):
                return False, f"round {rnd + 1}: get {item['c']} = {got} but (workbook (+) overrides) gives {item['v']}" + (' (one re-addressed Cell object for the writes, one for the queries)' if reuse else ''), obs
        cs = [it['c'] for it in order[:5]]
        try:
            many = [xc.val_json('val', c.value) for c in ex.get_cells([xc.mk_cell(pos[c], None, rng.randint(0, 3)) for c in cs])]
        except repo.E2PyclException:
            raise
        except Exception:
            many = None
        expm = [it['v'] for it in order[:5]]
        if many is None:
            if not any(v['k'] == 'err' for v in expm):
                return False, f'round {rnd + 1}: get_cells raised although no requested cell fails', obs
        elif not all(same_small(a, b) for a, b in zip(many, expm)):
            return False, f'round {rnd + 1}: get_cells {many} differs from {expm}', obs
        for s in (1, 2):
            raised, g = xc.q_sheet(ex, s, rng.random() < 0.5)
            exp = snap['grids'][s - 1]
            if raised:
                if not any(v['k'] == 'err' for row in exp for v in row):
                    return False, f'round {rnd + 1}: get_sheet({s}) raised although no cell of the grid fails', obs
            else:
                if len(g) != len(exp) or any(len(a) != len(b) for a, b in zip(g, exp)) or \
                        not all(same_small(x, y) for a, b in zip(g, exp) for x, y in zip(a, b)):
                    return False, f'round {rnd + 1}: get_sheet({s}) grid {g} differs from {exp}', obs
        z = xc.q_sizes(ex)
        if z != snap['sizes']:
            return False, f"round {rnd + 1}: sizes {z} differ from used range (+) overrides {snap['sizes']}", obs
    return True, '', obs


def same_small(a, b):
    if a['k'] != b['k']:
        return False
    if a['k'] == 'bool':
        return a['b'] == b['b']
    return a['k'] != 'num' or a['n'] == b['n']


def worker_main(argv):
    """Subprocess entry: replays a shard of histories under this process's PYTHONHASHSEED."""
    infile, outfile = argv
    job = json.load(open(infile))

    class W:
        pass
    w = W()
    w.pos, w.pyfile = job['pos'], job['pyfile']
    w.klass = repo.load_class(open(w.pyfile, encoding='utf-8').read())
    rng = random.Random(job['seed'])
    out = []
    for i, h in enumerate(job['hists']):
        try:
            ok, clause, _ = replay_history(w, h, rng, from_file=(i % 97 == 0))
        except Exception as e:
            ok, clause = None, f'harness: {type(e).__name__}: {e}'
        out.append([ok, clause])
    json.dump(out, open(outfile, 'w'))


def run_seeded(run, w, hists, seeds, shards):
    procs = []
    for s in seeds:
        for k in range(shards):
            part = hists[k::shards]
            inf = os.path.join(run.scratch, f'c04_in_{s}_{k}.json')
            outf = os.path.join(run.scratch, f'c04_out_{s}_{k}.json')
            json.dump({'pos': w.pos, 'pyfile': w.pyfile, 'seed': run.seed * 1000 + s, 'hists': part}, open(inf, 'w'))
            e = dict(os.environ, PYTHONHASHSEED=str(s))
            p = subprocess.Popen([sys.executable, '-m', 'harness.props.c04', '--worker', inf, outf], env=e,
                                 cwd=core.VERIF, stdout=subprocess.PIPE, stderr=subprocess.PIPE, text=True)
            procs.append((s, k, part, outf, p))
    results = []
    for s, k, part, outf, p in procs:
        so, se = p.communicate(timeout=3000)
        if p.returncode != 0:
            raise core.MachineryError(f'seeded replay worker failed: {se[-800:]}')
        res = json.load(open(outf))
        for h, (ok, clause) in zip(part, res):
            results.append((s, h, ok, clause))
    return results


def strip(h):
    return [s['batch'] for s in h]


def gen(run, w):
    rounds = 2
    wc = COORDS_Q if run.quick else COORDS_T
    r = run.tlc('Gen_C04', ['SPECIFICATION GSpec', f'CONSTANTS WCoords = {wc} Values = {{2,4}} MaxBatch = 2 Rounds = {rounds}'],
                workers=2, timeout=1500)
    hists = [rec['h'] for rec in r.records]
    run.exhaustive[f'batch sequences: <= {rounds} batches of <= 2 writes over {wc} x {{2,4}}'] = True
    # overrides of cells beyond the used ranges, which a formula of the workbook (S1!E1 = F4 + S2!C3) reads
    rf = run.tlc('Gen_C04', ['SPECIFICATION GSpec', 'CONSTANTS WCoords = {"S1F4","S2C3","S1A1"} Values = {2,4} MaxBatch = 1 Rounds = 3'],
                 workers=2, timeout=1500, tag='Gen_C04_far')
    hists += [rec['h'] for rec in rf.records]
    run.exhaustive['batch sequences: <= 3 single-write batches over two out-of-range cells and one constant'] = True
    # a written value keeps its type: 1 / TRUE and 0 / FALSE written in turn to one constant (dependants: C1 = A1+B1, D1, S2!A1)
    rb = run.tlc('Gen_C04', ['SPECIFICATION GSpec', 'CONSTANTS WCoords = {"S1A1"} Values = {0,1,1000,1001} MaxBatch = 1 Rounds = 3'],
                 workers=2, timeout=1500, tag='Gen_C04_types')
    hists += [rec['h'] for rec in rb.records]
    # ... and a cell may be cleared (None): the formula cell S1C1 and the constants it reads
    rb = run.tlc('Gen_C04', ['SPECIFICATION GSpec', 'CONSTANTS WCoords = {"S1A1","S1C1"} Values = {999,4} MaxBatch = 2 Rounds = 2'],
                 workers=2, timeout=1500, tag='Gen_C04_cleared')
    hists += [rec['h'] for rec in rb.records]
    run.exhaustive['batch sequences: <= 3 single writes of 0 / 1 / FALSE / TRUE to one constant'] = True
    if not run.quick:
        r3 = run.tlc('Gen_C04', ['SPECIFICATION GSpec', f'CONSTANTS WCoords = {COORDS_Q} Values = {{2,4}} MaxBatch = 1 Rounds = 4'],
                     workers=2, timeout=1500, tag='Gen_C04_r4')
        hists += [rec['h'] for rec in r3.records]
        run.exhaustive['batch sequences: <= 4 single-write batches over 4 coords'] = True
    seeds = [0, 1, 2, 3] if run.quick else list(range(16))
    shards = 4 if run.quick else 1
    for s, h, ok, clause in run_seeded(run, w, hists, seeds, shards):
        if ok is None:
            raise core.MachineryError(clause)
        case = {'in': {'batches': strip(h), 'hash_seed': s}, 'kind': 'history', 'obs': clause or 'all snapshots equal'}
        coords = [c for b in strip(h) for c, _ in b]
        run.judge(case, ok, clause=clause, nontrivial=len(coords) != len(set(coords)) or len(coords) > 1, part='gen')
        run.traces_validated += 1
    # the statement's own oracle on a sample: fresh translation of the edited workbook
    sample = run.rng.sample(hists, min(len(hists), 250 if run.quick else 3000))
    res = core.pmap(_fresh_job, [(w.wbj, strip(h), h[-1]['snap']) for h in sample])
    for h, (ok, clause) in zip(sample, res):
        if ok is None:
            raise core.MachineryError(clause)
        case = {'in': {'batches': strip(h)}, 'kind': 'fresh-translation-oracle', 'obs': clause or 'equal'}
        run.judge(case, ok, clause=clause, part='oracle')


def _fresh_job(args):
    """Translate the workbook edited according to the spec's final ov; compare with the spec's snapshot."""
    wbj, batches, snap = args
    try:
        ov = {}
        for b in batches:
            for c, v in b:
                ov[c] = v
        excel = repo.mem_excel(xc.sheets_from_spec(wbj, ov))
        text, _ = repo.translate_file(excel)
        klass = repo.load_class(text)
        ex = repo.fresh_executor(klass)
        for item in snap['vals']:
            got = xc.q_get(ex, wbj['pos'][item['c']], 0)
            if not same_small(got, item['v']):
                return False, f"fresh translation of the edited workbook gives {item['c']} = {got}, spec Ev gives {item['v']}"
        return True, ''
    except Exception as e:
        return None, f'harness: {type(e).__name__}: {e}'


# --------------------------------------------------------------- direction B
def record_trace(w, rng, n):
    ex = xc.new_executor(w, from_file=rng.random() < 0.05)
    pos = w.pos
    names = sorted(pos)
    wnames = ['S1A1', 'S1B2', 'S1A2', 'S1C1', 'S1F4', 'S2B1', 'S1D2', 'S2C3']
    tr = []
    for _ in range(n):
        x = rng.random()
        if x < 0.3:
            batch = [[rng.choice(wnames), rng.choice([2, 4, 6, 12])] for _ in range(rng.randint(1, 3))]
            ex.set_cells([xc.mk_cell(pos[c], v, rng.randint(0, 3)) for c, v in batch])
            tr.append({'ev': 'set', 'batch': batch})
        elif x < 0.36:
            tr.append({'ev': 'rejected', 'raised': xc.rejected_set(ex, pos, rng)})
        elif x < 0.7:
            c = rng.choice(names)
            tr.append({'ev': 'get', 'c': c, 'res': xc.q_get(ex, pos[c], rng.randint(0, 3))})
        elif x < 0.8:
            cs = [rng.choice(names) for _ in range(rng.randint(1, 4))]
            try:
                res = [xc.val_json('val', c.value) for c in ex.get_cells([xc.mk_cell(pos[c], None, rng.randint(0, 3)) for c in cs])]
                tr.append({'ev': 'many', 'cs': cs, 'res': res})
            except repo.E2PyclException:
                raise
            except Exception:
                # a failing cell makes the whole call raise: recorded as single gets instead
                for c in cs:
                    tr.append({'ev': 'get', 'c': c, 'res': xc.q_get(ex, pos[c], 0)})
        elif x < 0.9:
            s = rng.choice([1, 2])
            raised, g = xc.q_sheet(ex, s, rng.random() < 0.5)
            tr.append({'ev': 'sheet', 's': s, 'raised': raised, 'res': g})
        else:
            tr.append({'ev': 'sizes', 'res': xc.q_sizes(ex)})
        if tr[-1]['ev'] in ('get', 'many', 'sheet') and rng.random() < 0.3:  # queries flush the overrides into the instance
            om = xc.ovmap(ex, pos)
            if om is not None and all(isinstance(v, int) for _, v in om):
                tr.append({'ev': 'ovmap', 'res': om})
    return tr


def _trace_job(args):
    w, seed, n = args
    try:
        return record_trace(w, random.Random(seed), n)
    except Exception as e:
        return {'harness_error': f'{type(e).__name__}: {e}'}


def validate(run, traces, tag='Trace_C04'):
    from harness.tlc import parse_tuple
    path = os.path.join(run.scratch, tag + '.json')
    json.dump({'traces': traces}, open(path, 'w'))
    r = run.tlc('Trace_C04', ['SPECIFICATION Spec'], workers=1, timeout=1500, env={'TRACE_FILE': path}, tag=tag)
    rejected, done = {}, False
    for t in r.tuples:
        v = parse_tuple(t)
        if v[0] == 'REJECT':
            rejected[v[1]] = (v[2], v[3])
        elif v[0] == 'DONE' and v[1] == len(traces) + 1:
            done = True
    if not done:
        raise core.MachineryError(f'{tag}: not all traces consumed')
    return rejected


def trace(run, w):
    n, ln = (200, 30) if run.quick else (3000, 45)

    class Lite:
        pass
    lw = Lite()
    lw.pos, lw.pyfile, lw.klass = w.pos, w.pyfile, w.klass
    global _LW
    _LW = lw
    seeds = [run.seed * 100003 + i for i in range(n)]
    traces = core.pmap(_trace_job2, [(s, ln) for s in seeds])
    for t in traces:
        if isinstance(t, dict):
            raise core.MachineryError(t['harness_error'])
    rej = validate(run, traces)
    for i, tr in enumerate(traces):
        rj = rej.get(i + 1)
        case = {'in': {'trace_seed': seeds[i], 'len': ln}, 'kind': 'trace', 'obs': tr if rj else 'accepted'}
        run.judge(case, rj is None, clause=f'Trace_C04 rejected event {rj[0]}: {rj[1]}' if rj else '', part='trace')
        run.traces_validated += 1


_LW = None


def _trace_job2(args):
    seed, n = args
    return _trace_job((_LW, seed, n))


def check(run):
    run.rule = ('override histories enumerated by TLC (all sequences of <= R batches of <= 2 writes over the write '
                'coordinates x 2 values), each replayed on a real Executor under several PYTHONHASHSEEDs with full '
                'snapshots compared after every batch; random long histories validated by Trace_C04. Non-trivial = the '
                'history writes more than one cell or one cell more than once.')
    run.assumptions += ['Workbook4 formulas are restricted to + * / over integers so that the specification evaluates '
                        '(workbook (+) overrides) itself; the spec Ev is cross-checked against fresh translations of edited workbooks',
                        'openpyxl writer/reader']
    w = xc.World(run)
    mc(run)
    gen(run, w)
    trace(run, w)
    title_spellings(run)
    from harness.props import e2p
    e2p.check(run, w)           # sessions of several executors over the one translation (spec/E2P.tla)


def title_spellings(run):
    from harness.props import c08
    c08.title_spellings(run)


def replay(run, case):
    if case.get('kind') == 'title_spellings':
        title_spellings(run)
        return
    w = xc.World(run)
    if case.get('kind') == 'trace':
        tr = record_trace(w, random.Random(case['in']['trace_seed']), case['in']['len'])
        rj = validate(run, [tr]).get(1)
        run.judge(dict(case, obs=tr), rj is None, clause=f'Trace_C04 rejected event {rj}' if rj else '')
        return
    # history: recompute snapshots with TLC? the replay file stores only the batches: re-derive via Trace_C04
    batches = case['in']['batches']
    seed = case['in'].get('hash_seed', 0)
    code = ('import sys, json, random; sys.path.insert(0, %r); from harness.props import c04, exec_common as xc; from harness import repo;\n'
            'class W: pass\n'
            'w = W(); w.pos = json.load(open(%r)); w.pyfile = %r; w.klass = repo.load_class(open(w.pyfile).read())\n'
            'ex = xc.new_executor(w); tr = []\n'
            'for b in %r:\n'
            '    ex.set_cells([xc.mk_cell(w.pos[c], v, 0) for c, v in b]); tr.append({"ev": "set", "batch": b})\n'
            '    for c in sorted(w.pos): tr.append({"ev": "get", "c": c, "res": xc.q_get(ex, w.pos[c], 0)})\n'
            '    tr.append({"ev": "sizes", "res": xc.q_sizes(ex)})\n'
            'print(json.dumps(tr))\n') % (core.VERIF, os.path.join(run.scratch, 'pos.json'), w.pyfile, batches)
    json.dump(w.pos, open(os.path.join(run.scratch, 'pos.json'), 'w'))
    p = subprocess.run([sys.executable, '-c', code], env=dict(os.environ, PYTHONHASHSEED=str(seed)), cwd=core.VERIF,
                       stdout=subprocess.PIPE, stderr=subprocess.PIPE, text=True, timeout=600)
    if p.returncode != 0:
        raise core.MachineryError(p.stderr[-800:])
    tr = json.loads(p.stdout.strip().splitlines()[-1])
    rj = validate(run, [tr]).get(1)
    run.judge(dict(case, obs=tr), rj is None, clause=f'Trace_C04 rejected event {rj}' if rj else '')


if __name__ == '__main__':
    if len(sys.argv) > 1 and sys.argv[1] == '--worker':
        worker_main(sys.argv[2:])
