"""C20 - the importable runtime base class and the emitted runtime agree.

GEN  : the argument vectors are the ones the specification generates for the other properties, taken at helper level:
       Gen_C10 pairs x 6 operators (_compare, _by_operator, EmptyCell comparisons), Gen_C16 decimals x digit counts (_round, _roundup,
       _rounddown, _normalize_float_number), Gen_C15 rows (_date, _year/_month/_day, _edate, _eomonth, _datedif, _network_days),
       Gen_C17 rows (_left, _right, _mid, _search, _regexp, _value, _excel_value_to_string), Gen_C11 blocks (_sum, _average, _min, _max,
       _count, _count_blank, _and, _or, _flatten_list, _only_numeric_list ...), Gen_C14 key columns (_match, _xmatch, _vlookup, _index,
       _address, _binary_search), Gen_C12 columns x criteria (_sum_if, _sumifs, _countifs, _averageifs with criterion callables),
       plus _ifs / _iferror / _find_error_in_list / _concat_arrays_values / _cell_preprocessor vectors.
       Every vector is applied to AbstractExcelInPython() and to an instance of a class freshly generated from the working tree.
TRACE: the helper-name sets and the digests of every pair of outcomes (value, or exception type) are judged by TLC
       (Trace_C20: Runtime2.SameHelpers / Agree).
"""
import datetime
import hashlib
import inspect
import json
import os
import random
from decimal import Decimal

from harness import absval, core, repo
from harness.props import c10 as p10, c12 as p12

EPOCH = datetime.datetime(1899, 12, 30)
_INST = {}


def instances():
    if 'a' not in _INST:
        from excel2pycl.src.utilities.abstract_excel_in_python_class import AbstractExcelInPython
        _INST['a'] = AbstractExcelInPython()
        _INST['g'] = repo.runtime_class()()
    return _INST['a'], _INST['g']


def canon(v, depth=0):
    """canonical text of a result: type and value; blank cells by class name; callables / matches by kind only"""
    if absval.is_empty_cell(v):
        return 'EmptyCell'
    if isinstance(v, bool):
        return f'bool:{v}'
    if isinstance(v, int):
        return f'int:{v}'
    if isinstance(v, float):
        return f'float:{v!r}'
    if isinstance(v, str):
        return f'str:{v!r}'
    if v is None:
        return 'None'
    if isinstance(v, (datetime.datetime, datetime.date)):
        return f'{type(v).__name__}:{v.isoformat()}'
    if isinstance(v, (list, tuple)):
        return f'{type(v).__name__}[' + ','.join(canon(x, depth + 1) for x in v) + ']'
    if isinstance(v, dict):
        return 'dict{' + ','.join(f'{k!r}:{canon(x)}' for k, x in sorted(v.items(), key=lambda kv: repr(kv[0]))) + '}'
    return f'<{type(v).__name__}>'


def outcome(obj, name, args):
    """value (or exception type) AND the state the call leaves its arguments in: a helper that rewrites a caller's list in one
    copy only computes different values on the next call with the same object"""
    try:
        r = 'val ' + canon(getattr(obj, name)(*args))
    except BaseException as e:  # noqa
        if isinstance(e, (KeyboardInterrupt, SystemExit)):
            raise
        r = 'exc ' + type(e).__name__
    return r + ' || arguments afterwards: ' + canon(list(args))


def digest(s):
    return int(hashlib.sha256(s.encode()).hexdigest()[:7], 16)


def helper_names(obj):
    names = []
    for n, m in inspect.getmembers(type(obj)):
        if n.startswith('__') or n == '_abc_impl':
            continue
        if callable(m) or isinstance(m, (staticmethod, classmethod)) or inspect.isclass(m):
            names.append(n)
    return sorted(names)


# ---------------------------------------------------------------- vectors
def dt(s):
    return EPOCH + datetime.timedelta(days=s)


class _Blank:
    """placeholder for a blank cell inside a vector: each copy gets an instance of its own EmptyCell class"""

    def __call__(self):
        return self


BLANK = _Blank()


def subst(x, cls):
    if x is BLANK:
        return cls()
    if isinstance(x, list):
        return [subst(y, cls) for y in x]
    if isinstance(x, tuple):
        return tuple(subst(y, cls) for y in x)
    return x


def vectors(run):
    """-> list of (helper, args) ; args are python values (shared by both instances)"""
    V = []
    q = run.quick
    A, G = instances()
    E = BLANK
    # C10
    r = run.tlc('Gen_C10', ['INIT Init', 'NEXT Next', 'CONSTANT Fine = FALSE'], workers=4, timeout=900, tag='C20_Gen_C10')
    for rec in r.records:
        a, b = p10.py_value(rec['a']), p10.py_value(rec['b'])
        for op in ('>=', '>', '<=', '<', '==', '!='):
            V.append(('_compare', (op, BLANK if a is None else a, BLANK if b is None else b)))
    # C16
    r = run.tlc('Gen_C16', ['INIT Init', 'NEXT Next', 'CONSTANT IntParts = {0, 2, 1234}', 'CONSTANT FracStep = 50', 'CONSTANT FracRes = {0, 1, 5, 25, 45, 49}'] if q else
                ['INIT Init', 'NEXT Next', 'CONSTANT IntParts = {0, 1, 2, 10, 99, 1234}', 'CONSTANT FracStep = 10', 'CONSTANT FracRes = {0, 1, 5, 9}'],
                workers=4, timeout=1800, tag='C20_Gen_C16')
    for rec in r.records:
        x = rec['m'] if rec['s'] == 0 else float(Decimal(rec['m']).scaleb(-rec['s']))
        for n in (-3, -1, 0, 1, 2, 4, 6):
            for h in ('_round', '_roundup', '_rounddown'):
                V.append((h, (x, n)))
        V.append(('_normalize_float_number', (x / 100,)))
        if float(x).is_integer():
            # the same whole number held as an int and as a float, in both orders (a result keeps the kind of its own argument)
            xi = int(x)
            for n in (-1, 0, 2):
                for h in ('_round', '_roundup', '_rounddown'):
                    V.append((h, (xi, n)))
                    V.append((h, (float(xi), n)))
            for n in (-2, 1):
                for h in ('_round', '_roundup', '_rounddown'):
                    V.append((h, (float(xi), n)))
                    V.append((h, (xi, n)))
    # C15
    th = 'FALSE'
    for kind in ('DATE', 'EDATE', 'DATEDIF', 'NWD'):
        r = run.tlc('Gen_C15', ['INIT Init', 'NEXT Next', f'CONSTANT Kind = "{kind}"', f'CONSTANT Thorough = {th}'], workers=4, timeout=1800, tag='C20_Gen_C15_' + kind)
        for rec in r.records:
            if kind == 'DATE':
                for i in range(0, len(rec['v']), 3 if q else 1):
                    d = rec['d0'] + i
                    V.append(('_date', (rec['y'], rec['m'], d)))
                    if rec['v'][i] != -1:
                        for h in ('_year', '_month', '_day'):
                            V.append((h, (dt(rec['v'][i]),)))
            elif kind == 'EDATE':
                for k in rec['ks']:
                    V.append(('_edate', (dt(rec['s']), k)))
                    V.append(('_eomonth', (dt(rec['s']), k)))
            elif kind == 'DATEDIF':
                for s2 in rec['ends'][::4 if q else 1]:
                    for u in ('D', 'M', 'Y', 'YM', 'MD', 'YD'):
                        V.append(('_datedif', (dt(rec['s']), dt(s2), u)))
            else:
                hol = [[dt(h)] if h else [E()] for h in rec['hol']]
                for i in range(len(rec['v'])):
                    V.append(('_network_days', (dt(rec['s']), dt(rec['n0'] + i), hol)))
    # the date helpers once more with times of day (same day / adjacent days, start later in the day than the end)
    tod = [datetime.timedelta(0), datetime.timedelta(hours=9), datetime.timedelta(hours=18, minutes=30), datetime.timedelta(hours=23, minutes=59, seconds=59)]
    for s1 in (45292, 45296, 45297, 45350):            # a Monday, a Friday, a Saturday, a leap day's neighbourhood
        for ds in (0, 1, -1, 3):
            for t1 in tod:
                for t2 in tod:
                    a_, b_ = dt(s1) + t1, dt(s1 + ds) + t2
                    V.append(('_network_days', (a_, b_, None)))
                    V.append(('_network_days', (a_, b_, [[dt(s1)], [dt(s1 + 1) + t1]])))
                    for u in ('D', 'M', 'Y', 'YM', 'MD', 'YD'):
                        V.append(('_datedif', (a_, b_, u)))
                    V.append(('_compare', ('<', a_, b_)))
                    V.append(('_compare', ('==', a_, b_.date())))
            for k in (-13, -1, 0, 1, 12):
                for t1 in tod:
                    V.append(('_edate', (dt(s1) + t1, k)))
                    V.append(('_eomonth', (dt(s1) + t1, k)))
                    V.append(('_edate', (dt(s1) + t1, k + 0.5)))
    for h in ('_year', '_month', '_day', '_excel_value_to_string'):
        for t1 in tod:
            V.append((h, (dt(45350) + t1,)))
    # C17
    for kind in ('LRM', 'SEARCH', 'VALUE', 'CONCAT'):
        r = run.tlc('Gen_C17', ['INIT Init', 'NEXT Next', f'CONSTANT Kind = "{kind}"', 'CONSTANT Alphabet = {97, 66, 63, 126, 46}', 'CONSTANT L = 3',
                                'CONSTANT SAlphabet = {97, 66, 98, 63, 42, 126, 46}', 'CONSTANT LF = 2', f'CONSTANT LT = {2 if q else 3}'], workers=4, timeout=1800,
                    tag='C20_Gen_C17_' + kind)
        for rec in r.records:
            if kind == 'LRM':
                t = ''.join(chr(c) for c in rec['t'])
                for n in rec['ns']:
                    V.append(('_left', (t, n)))
                    V.append(('_right', (t, n)))
                    for k in rec['ns']:
                        V.append(('_mid', (t, k, n)))
                V.append(('_left', (t, None)))
                V.append(('_right', (t, None)))
                V.append(('_regexp', (t,)))
            elif kind == 'SEARCH':
                t, p = ''.join(chr(c) for c in rec['t']), ''.join(chr(c) for c in rec['p'])
                for s in (None, 0, 1, 2, len(t), len(t) + 1):
                    V.append(('_search', (p, t, s)))
                V.append(('_regexp', (p,)))
            elif kind == 'VALUE':
                V.append(('_value', (''.join(chr(c) for c in rec['t']),)))
            else:
                from harness.props import c17 as p17
                for v in rec['vs']:
                    V.append(('_excel_value_to_string', (E() if v['k'] == 'blank' else p17.pyval(v),)))
    for t in ('12', ' 7 ', '1,5', '12%', '01/02/2024', '2024-02-01', '10:30', 'abc', '', '1 234,5', '1e3', '-0.5', True, 2.0, 2.5):
        V.append(('_value', (str(t),)))
        V.append(('_excel_value_to_string', (t,)))
    # numbers at the edges of their notations (whole-valued floats around 10**15 / 10**16 / 10**21, negative zero, tiny and huge magnitudes,
    # integers beyond 2**63): the text of a number is part of what both runtimes must agree on
    for x in (1e15, -1e15, 1e15 + 2, 999999999999999.0, 1e16, 2e16, 123456789012345680.0, 1e21, 1e22, -0.0, 0.0, 1e-5, 1.5e-7, 1e-16, 1.5e300, -2.5e-300,
              0.1 + 0.2, 1 / 3, 2 / 3 * 1e15, 10 ** 15, 10 ** 20, -(2 ** 63), 2 ** 53 + 1, 100.0, -7.0):
        V.append(('_excel_value_to_string', (x,)))
        V.append(('_concat_arrays_values', ([x], ['u'])))
        V.append(('_compare', ('==', x, x)))
    # C11
    r = run.tlc('Gen_C11', ['INIT Init', 'NEXT Next', 'CONSTANT Kind = "SHAPES"', 'CONSTANT R = 2', 'CONSTANT Cols = 2'], workers=1, timeout=300, tag='C20_Gen_C11_S')
    tab = r.records[0]
    from harness.props import c11 as p11
    r = run.tlc('Gen_C11', ['INIT Init', 'NEXT Next', 'CONSTANT Kind = "BLOCKS"', 'CONSTANT R = 2', 'CONSTANT Cols = 2'], workers=4, timeout=1800, tag='C20_Gen_C11_B')
    for rec in r.records[::1 if not q else 2]:
        vals = [E() if k == 'B' else p11.kind_value(k, i, tab) for i, k in enumerate(rec['blk'])]
        for h in ('_sum', '_average', '_min', '_max', '_count_blank', '_and', '_or', '_find_error_in_list', '_when_cell_is_empty_cast_to_zero'):
            V.append((h, (vals,)))
        V.append(('_only_numeric_list', (vals,)))
        V.append(('_only_numeric_list', (vals, True)))
        V.append(('_only_bool_list', (vals,)))
        V.append(('_flatten_list', ([[vals[0], [vals[1]]], [[vals[2]], vals[3]]],)))
        V.append(('_count', ([[vals[:2]], [vals[2:]]], [5, '7', True], [vals[0]])))
        V.append(('_concat_arrays_values', (vals[:2], vals[1:])))
    # lists holding error values (every ordered pair of the seven, alone, with numbers around them) and texts that merely start with '#'
    errs = ['#NUM!', '#DIV/0!', '#N/A', '#NAME?', '#NULL!', '#REF!', '#VALUE!']
    for a in errs + ['#41', '#A7', '#tag']:
        for b in errs + [None]:
            if a == b:
                continue
            lst = [3, a, 'x', 5] if b is None else [3, a, 'x', b, 5]
            for h in ('_find_error_in_list', '_min', '_max', '_count_blank', '_sum', '_average'):
                V.append((h, (list(lst),)))
            V.append(('_iferror', ((lambda v=a: v), (lambda: 'fallback'))))
            V.append(('_ifs', ([(lambda v=a: v), (lambda: 1), (lambda: True), (lambda v=b: v)],)))
    # C14
    r = run.tlc('Gen_C14', ['INIT Init', 'NEXT Next', 'CONSTANT Kind = "LOOKUP"', 'CONSTANT Keys = {10, 20, 30, 40}', f'CONSTANT L = {3 if q else 4}',
                            'CONSTANT Vals = {5, 10, 15, 20, 25, 30, 35, 40, 45}'], workers=4, timeout=1800, tag='C20_Gen_C14_L')
    recs14 = r.records
    r = run.tlc('Gen_C14', ['INIT Init', 'NEXT Next', 'CONSTANT Kind = "TEXT"', 'CONSTANT Keys = {10}', 'CONSTANT L = 1', 'CONSTANT Vals = {5}'], workers=2, timeout=900,
                tag='C20_Gen_C14_T')
    recs14 += r.records
    for rec in recs14:
        keys = [''.join(chr(c) for c in k) if isinstance(k, list) else k for k in rec['keys']]
        arr = [[k] for k in keys]
        table = [[k, 100 * (i + 1) + 2, 100 * (i + 1) + 3] for i, k in enumerate(keys)]
        for v in rec['vals']:
            v = ''.join(chr(c) for c in v) if isinstance(v, list) else v
            for mt in (0, 1, -1):
                V.append(('_match', (v, arr, mt)))
            for mm, sm in ((0, 1), (0, -1), (1, 1), (-1, 1), (0, 2), (0, -2), (1, 2), (0, 5)):
                V.append(('_xmatch', (v, arr, mm, sm)))
            for col in (1, 2, 3, 4):
                for rl in (False, True, 0, 1):
                    V.append(('_vlookup', (v, table, col, rl)))
            if all(isinstance(k, int) for k in keys):
                V.append(('_binary_search', (arr, v)))
                V.append(('_binary_search', (sorted(arr, reverse=True), v, True)))
    m33 = [[11, 12, 13], [21, 22, 23], [31, 32, 33]]
    for rr in (-1, 0, 1, 2, 3, 4, None):
        for cc in (-1, 0, 1, 2, 3, 4, None):
            V.append(('_index', (m33, rr, cc, 1)))
            V.append(('_index', ((m33, [[1, 2]]), rr, cc, 2)))
            V.append(('_index', ([[7, 8, 9]], rr, cc, 1)))
            V.append(('_index', ([[7], [8], [9]], rr, cc, 1)))
    cols = list(range(1, 800)) + list(range(16000, 16385)) if q else list(range(1, 16385))
    for c in cols:
        V.append(('_address', (5, c)))
    for extra in (('1',), ('2',), ('3',), ('4',), ('4', 'False'), ('2', 'False', 'Sheet'), ('1', 'True', 'S')):
        V.append(('_address', (7, 28) + extra))
    # C12
    r = run.tlc('Gen_C12', ['INIT Init', 'NEXT Next', 'CONSTANT R = 3', 'CONSTANT Reduced = TRUE', 'CONSTANT Bools = FALSE'], workers=4, timeout=1800, tag='C20_Gen_C12')
    target = [[10], [20], [40]]
    for rec in r.records[::4 if q else 1]:
        col = [[E() if c['k'] == 'blank' else p12.cell_value(c)] for c in rec['col']]
        crit = rec['crit']
        f = criterion_callable(crit)
        V.append(('_sum_if', (col, f, target)))
        V.append(('_sum_if', (col, f, [[1], [True], [2.5]])))            # truth values, texts, blanks among the cells to be summed
        V.append(('_sum_if', (col, f, [[False], ['7'], [E()]])))
        V.append(('_sumifs', ([[1], [True], [2.5]], col, f)))
        V.append(('_averageifs', ([[4], [True], [False]], col, f)))
        V.append(('_sum_if', (col, f, col)))
        V.append(('_sumifs', (target, col, f)))
        V.append(('_countifs', (col, f)))
        V.append(('_countifs', (col, f, target, f)))
        V.append(('_averageifs', (target, col, f)))
        V.append(('_sumifs', ([[1], [2]], col, f)))
        # flat lists, as a hand-written subclass would pass them (the same list object may be passed again later)
        flat = [x[0] for x in col]
        V.append(('_sumifs', ([10, 20, 40], flat, f)))
        V.append(('_averageifs', ([10, 20, 40], flat, f)))
        V.append(('_countifs', (flat, f)))
        V.append(('_sum_if', (flat, f, [10, 20, 40])))
    # C13 helpers and the rest
    for vals in ([True, 7, False, 9], [False, 7, True, 9], [False, 7, False, 9], [0, '#N/A', 1, 5], ['#N/A', 1, True, 2], [lambda: False, lambda: 1 / 0, lambda: True, lambda: 9],
                 [lambda: True, lambda: '#N/A'], [], [True]):
        V.append(('_ifs', (vals,)))
    for cond, fb in ((lambda: 7, 9), (lambda: 1 / 0, 9), (lambda: '#N/A', lambda: 9), (lambda: '#REF!', '#N/A'), (lambda: 7, lambda: 1 / 0), (lambda: '', 1), (lambda: ' #NULL!', 3)):
        V.append(('_iferror', (cond, fb)))
    for x in ('2024-02-01', '01.02.2024 10:30', 'x', '', None, 12, dt(45000), 'apple', 'b?'):
        V.append(('_parse_date_obj', (x,)))
    for op in ('>=', '>', '<=', '<', '==', '!=', '<>', 'x'):
        V.append(('_by_operator', (op, 2, 3)))
        V.append(('_by_operator', (op, 'a', 'B')))
    import decimal
    for x in (2.5, -2.5, 2.675, 1234, 0.07, -1.1):
        for n in (-2, 0, 2):
            for mode in (decimal.ROUND_HALF_UP, decimal.ROUND_UP, decimal.ROUND_DOWN):
                V.append(('_decimal_round', (x, n, mode)))
    V.append(('_only_datetime_list', ([dt(45000), 5, 'x', BLANK, dt(1).date(), True],)))
    for d, fmt in (('01/02/2024', '%d/%m/%Y'), ('2024-02-01', '%Y-%m-%d'), ('01/02/2024 00:00:00', '%d/%m/%Y'), ('x', '%d/%m/%Y'), ('31-12-1999', '%d-%m-%Y')):
        V.append(('_parse_date_formats', (d, fmt)))
    V.append(('_today', ()))
    V.append(('set_arguments', ([{'uid': '_0_0_0', 'value': 5}, {'uid': '_0_0_1', 'value': 'x'}],)))
    V.append(('_cell_preprocessor', ('_0_0_0',)))
    V.append(('_cell_preprocessor', ('_0_0_1',)))
    V.append(('exec_function_in', ('_9_9_9',)))
    V.append(('get_titles', ()))
    V.append(('get_sheets_size', ()))
    return V


def criterion_callable(crit):
    o = crit['operand']
    v = p12.cell_value(o)
    op = crit['op']
    import operator
    import re
    if isinstance(v, str):
        rx = None
        return (lambda x, v=v: isinstance(x, str) and x.lower() == v.lower()) if op == 'EQ' else (lambda x, v=v: not (isinstance(x, str) and x.lower() == v.lower()))
    f = {'EQ': operator.eq, 'NE': operator.ne, 'GT': operator.gt, 'GE': operator.ge, 'LT': operator.lt, 'LE': operator.le}[op]
    return lambda x, v=v, f=f: f(x, v)


def _pair_job(chunk):
    try:
        A, G = instances()
        out = []
        for (h, args) in chunk:
            argsA = subst(tuple(args), A.EmptyCell)
            argsG = subst(tuple(args), G.EmptyCell)
            ra, rb = outcome(A, h, argsA), outcome(G, h, argsG)
            out.append((h, digest(ra), digest(rb), ra if ra != rb else '', rb if ra != rb else ''))
        return out
    except Exception as e:
        import traceback
        return {'harness_error': f'{type(e).__name__}: {e} {traceback.format_exc()[-300:]}'}


def show_args(args):
    def one(a):
        if a is BLANK:
            return 'EmptyCell'
        if callable(a):
            return '<callable>'
        if isinstance(a, (list, tuple)):
            return '[' + ', '.join(one(x) for x in a) + ']'
        return canon(a)
    return ('(' + ', '.join(one(a) for a in args))[:200] + ')'


def check(run):
    run.rule = ('helper-level argument vectors derived from the TLC generators of C10-C17 (and hand-listed ones for the remaining helpers) applied to '
                'AbstractExcelInPython() and to an instance of a freshly generated class; outcome = canonical text of the value or the exception type; digests '
                'and the helper-name sets judged by Trace_C20. One evaluation = one call on both copies; distinct_nontrivial = distinct (helper, arguments) pairs.')
    run.assumptions += ['vectors are evaluated in one process (forked workers): lambdas as arguments are the same objects for both copies',
                        'digest = first 28 bits of sha256 of the canonical outcome text; a disagreement is also reported with both texts']
    A, G = instances()
    na, ng = helper_names(A), helper_names(G)
    V = vectors(run)
    # lambdas do not pickle: evaluate in forked workers over index ranges
    global _V
    _V = V
    idx = list(range(len(V)))
    outs = core.pmap(_idx_job, core.chunks(idx, 2000), chunksize=1)
    flat = []
    for o in outs:
        if isinstance(o, dict):
            raise core.MachineryError(o['harness_error'])
        flat += o
    events = [{'ev': 'names', 'a': na, 'b': ng, 'h': '', 'da': 0, 'db': 0}]
    for (h, da, db, _, _) in flat:
        events.append({'ev': 'call', 'a': [], 'b': [], 'h': h, 'da': da, 'db': db})
    from harness.tlc import parse_tuple
    bad, names_bad = {}, None
    base = 0
    for pi, part in enumerate(core.chunks(events, 40000)):
        path = os.path.join(run.scratch, f'Trace_C20_{pi}.json')
        json.dump({'events': part}, open(path, 'w'))
        r = run.tlc('Trace_C20', ['SPECIFICATION Spec'], workers=1, timeout=2400, env={'TRACE_FILE': path}, tag=f'Trace_C20_{pi}', heap='6g')
        done = False
        for t in r.tuples:
            if t.replace(' ', '').startswith('<<"N"'):
                names_bad = t
                continue
            v = parse_tuple(t)
            if v[0] == 'V':
                bad[base + v[1]] = v[2]
            elif v[0] == 'DONE' and v[1] == len(part) + 1:
                done = True
        if not done:
            raise core.MachineryError('Trace_C20: not all events consumed')
        base += len(part)
    run.judge({'in': {'base_class': na, 'generated': ng}, 'obs': names_bad or 'same helper names', 'kind': 'names'}, names_bad is None,
              clause=f'the two runtime copies expose different helper sets: {names_bad}', part='names')
    used = set()
    per = {}
    for i, ((h, args), (h2, da, db, ra, rb)) in enumerate(zip(V, flat)):
        per[h] = per.get(h, 0) + 1
        run.evaluations += 1
        run.traces_validated += 1
        key = (h, show_args(args))
        if key not in used:
            used.add(key)
        if (i + 2) in bad:
            case = {'in': {'helper': h, 'args': show_args(args), 'index': i}, 'obs': {'base_class': ra, 'generated': rb}, 'kind': 'call'}
            run.judge(case, False, clause=f'{h}{show_args(args)}: base class -> {ra}; generated class -> {rb}', part='call')
            run.evaluations -= 1
    run.nontrivial |= {json.dumps(k) for k in used}
    run.parts.update({f'calls:{h}': n for h, n in sorted(per.items())})
    run.samples += [{'helper': h, 'args': show_args(a)} for h, a in V[:: max(1, len(V) // 6)]][:6]
    missing = [n for n in na if n not in per and not n[0].isupper()]
    run.notes.append(f'helpers without a vector: {missing}')
    run.exhaustive['every helper of the base class has at least one vector'] = not missing
    run.extra = {'programs': len(na), 'disagreements_checked': len(flat)}


_extra = {}
_V = []


def _idx_job(idxs):
    return _pair_job([_V[i] for i in idxs])


def replay(run, case):
    check(run)
