"""C12 - conditional aggregates select exactly the positions meeting every criterion.

MC   : MC_XlCriteria: Complement (<> is the complement of =), OrderingOnlyNumbers, NumberCriterionRejectsText,
       TextCriterionRejectsNumbers, PlainIsCaseInsensitiveEquality, WildcardLaws, SelectionIsConjunction on the criteria oracle.
GEN  : Gen_C12: every criteria column (R cells over numbers / texts / blank) x every criterion (6 operators x numbers, = / <> x
       texts and wildcard patterns) with the selected positions, alone and together with a fixed second pair, and the open
       findings whose Guard holds per spelling of the criterion (literal value, value in a cell, "=v", "op v" literal,
       op & cell, criterion text in a cell). Replayed: SUMIF (2- and 3-argument), SUMIFS, COUNTIFS, AVERAGEIFS with 1 and 2
       pairs in both orders, and the mis-sized variants (must be an error outcome); column contents by overrides.
TRACE: random longer columns with 1..3 pairs; the accepted set is observed through SUMIFS over a power-of-two target
       column and judged by TLC (Trace_C12).
"""
import json
import os
import random

from harness import absval, core, repo

OPS = {'EQ': '=', 'NE': '<>', 'GT': '>', 'GE': '>=', 'LT': '<', 'LE': '<='}
_CRITS = {}


def cell_value(c):
    if c['k'] == 'num':
        return c['q'] // 4 if c['q'] % 4 == 0 else c['q'] / 4
    if c['k'] == 'text':
        return ''.join(chr(x) for x in c['c'])
    if c['k'] == 'bool':
        return bool(c['b'])
    return None


def operand_text(o):
    v = cell_value(o)
    return v if isinstance(v, str) else repr(v)


def crit_text(crit, sp):
    """-> (formula fragment, {cell: value} needed)"""
    o = crit['operand']
    v = cell_value(o)
    op = OPS[crit['op']]
    if sp == 'value':
        return (f'"{v}"' if isinstance(v, str) else repr(v)), {}
    if sp == 'valuecell':
        return 'D1', {(3, 0): v}
    if sp == 'eqlit':
        return f'"={operand_text(o)}"', {}
    if sp == 'oplit':
        return f'"{op}{operand_text(o)}"', {}
    if sp == 'opcat':
        return f'"{op}"&D1', {(3, 0): v}
    if sp == 'cellcrit':
        return 'D2', {(3, 1): f'{op}{operand_text(o)}'}
    raise ValueError(sp)


def formulas(T, R):
    a, b, c = f'A1:A{R}', f'B1:B{R}', f'C1:C{R}'
    return [f'=SUMIF({a},{T})', f'=SUMIF({a},{T},{b})', f'=SUMIFS({b},{a},{T})', f'=COUNTIFS({a},{T})', f'=AVERAGEIFS({b},{a},{T})',
            f'=SUMIFS({b},{a},{T},{c},">1")', f'=COUNTIFS({a},{T},{c},">1")', f'=SUMIFS({b},{c},">1",{a},{T})', f'=AVERAGEIFS({b},{c},">1",{a},{T})',
            f'=SUMIFS(B1:B{R - 1},{a},{T})', f'=COUNTIFS({a},{T},C1:C{R - 1},">1")', f'=AVERAGEIFS({b},{a},{T},C1:C{R + 1},">1")',
            # same number of rows but more columns: still a different size
            f'=SUMIFS(B1:C{R},{a},{T})', f'=AVERAGEIFS(B1:C{R},{a},{T})', f'=COUNTIFS({a},{T},B1:C{R},">1")',
            f'=COUNTIFS({c},">1",{a},{T})',
            # a whole column as the sum range: aligned from ITS first row, wherever the criteria range starts
            f'=SUMIF({a},{T},B:B)', f'=SUMIF(A2:A{R},{T},B:B)',
            # mis-sized ranges in a pair that is NOT the last one (the last pair fits)
            f'=AVERAGEIFS({b},C1:C{R - 1},">1",{a},{T})', f'=SUMIFS({b},C1:C{R + 1},">1",{a},{T})', f'=COUNTIFS(C1:C{R - 1},">1",{a},{T})']
NF = 21
COUNT_SHAPES = {3, 6, 10, 14, 15, 20}          # COUNTIFS shapes: GuardsSum does not apply to them


def target(i):
    return 10 * 2 ** i          # B column: 10, 20, 40, 80 - the sum identifies the selected set


def expected(rec, R):
    """-> list of expected values per formula index: number | 'ERR' | None (not pinned)"""
    sel, sel12 = rec['sel'], rec['sel12']
    if sel == [-1]:
        return [None] * NF
    col = rec['col']
    s_a = sum(cell_value(col[i - 1]) for i in sel if col[i - 1]['k'] == 'num')
    if any(col[i - 1]['k'] == 'bool' for i in sel):
        s_a = None          # two-argument SUMIF summing truth values: not pinned
    s_b = sum(target(i - 1) for i in sel)
    out = [s_a, s_b, s_b, len(sel), (s_b / len(sel)) if sel else 'ERR']
    if sel12 == [-1]:
        out += [None] * 4
    else:
        s12 = sum(target(i - 1) for i in sel12)
        out += [s12, len(sel12), s12, (s12 / len(sel12)) if sel12 else 'ERR']
    out += ['ERR', 'ERR', 'ERR', 'ERR', 'ERR', 'ERR']
    out += [None if sel12 == [-1] else len(sel12)]
    out += [s_b, sum(target(i - 2) for i in sel if i >= 2)]
    out += ['ERR', 'ERR', 'ERR']
    return out


def expected_dev(rec, sp, R):
    """What the CODE is modelled to return per formula shape (XlCriteria!ImplAccepts verdicts 'yes' / 'no' / 'raise' per position,
    exported by the specification) - the deviation model of the open findings C12-F1..F4. The order in which the helpers call the
    criteria is theirs: _sumifs / _averageifs / _sum_if ask every position; _countifs asks its FIRST pair only at positions the
    other pairs accepted. 'ERR' = a raised exception."""
    vc, vn = rec['iv'][sp]['c'], rec['iv'][sp]['n']
    col = rec['col']
    c_acc = [i + 1 > 1 for i in range(R)]                  # second pair: column C holds 1..R, criterion ">1"

    def sel_all(v, other=None, first=1):
        if any(x == 'raise' for x in v[first - 1:]):
            return None
        return [i + 1 for i in range(first - 1, R) if v[i] == 'yes' and (other is None or other[i])]

    out = []
    s = sel_all(vn)
    out.append('ERR' if s is None else sum(cell_value(col[i - 1]) for i in s if col[i - 1]['k'] == 'num'))          # 0 SUMIF(a,T)
    out.append('ERR' if s is None else sum(target(i - 1) for i in s))                                                  # 1 SUMIF(a,T,b)
    sc = sel_all(vc)
    out.append('ERR' if sc is None else sum(target(i - 1) for i in sc))                                                # 2 SUMIFS
    out.append('ERR' if s is None else len(s))                                                                         # 3 COUNTIFS(a,T)
    out.append('ERR' if sc is None or not sc else sum(target(i - 1) for i in sc) / len(sc))                            # 4 AVERAGEIFS
    sc12 = sel_all(vc, c_acc)
    out.append('ERR' if sc12 is None else sum(target(i - 1) for i in sc12))                                            # 5 SUMIFS(b,a,T,c,">1")
    lazy = None if any(vn[i] == 'raise' and c_acc[i] for i in range(R)) else [i + 1 for i in range(R) if c_acc[i] and vn[i] == 'yes']
    out.append('ERR' if lazy is None else len(lazy))                                                                   # 6 COUNTIFS(a,T,c,">1"): T asked where C accepted
    out.append('ERR' if sc12 is None else sum(target(i - 1) for i in sc12))                                            # 7 SUMIFS(b,c,">1",a,T)
    out.append('ERR' if sc12 is None or not sc12 else sum(target(i - 1) for i in sc12) / len(sc12))                    # 8 AVERAGEIFS(b,c,">1",a,T)
    out += ['ERR'] * 6                                                                                                 # 9-14 mis-sized
    sn12 = sel_all(vn, c_acc)
    out.append('ERR' if sn12 is None else len(sn12))                                                                   # 15 COUNTIFS(c,">1",a,T)
    out.append('ERR' if s is None else sum(target(i - 1) for i in s))                                                  # 16 SUMIF(a,T,B:B)
    s2 = sel_all(vn, None, 2)
    out.append('ERR' if s2 is None else sum(target(i - 2) for i in s2))                                                # 17 SUMIF(A2:An,T,B:B)
    out += ['ERR'] * 3                                                                                                 # 18-20 mis-sized, not in the last pair
    return out


def outcome(kind, p):
    if kind == 'eexc':
        return 'ERR'
    if kind != 'val':
        return f'{kind}:{type(p).__name__}'
    if isinstance(p, str) and p in absval.ERRS:
        return 'ERR'
    if isinstance(p, bool) or absval.is_empty_cell(p):
        return f'other:{p!r}'
    if isinstance(p, (int, float)):
        return p
    return f'other:{p!r}'[:60]


def same(exp, got):
    if exp is None:
        return True
    if exp == 'ERR':
        return got == 'ERR'
    return isinstance(got, (int, float)) and abs(got - exp) < 1e-9


def show(kind, p):
    return repr(p) if kind == 'val' else f'raises {type(p).__name__}: {p}'[:90]


def setup_crit(ci, crit, sps, R):
    forms, needs, index = [], {}, []
    for sp in sps:
        T, need = crit_text(crit, sp)
        for j, f in enumerate(formulas(T, R)):
            forms.append(f)
            index.append((sp, j))
        needs[sp] = need
    consts = {}
    for i in range(R + 1):
        consts[(1, i)] = target(i)
        consts[(2, i)] = i + 1
    return {'probe': repo.Probe(forms, consts), 'index': index, 'needs': needs, 'forms': forms}


def _crit_job(args):
    """all columns of one criterion"""
    ci, recs, R = args
    try:
        crit = recs[0]['crit']
        sps = sorted(recs[0]['g'].keys())
        st = setup_crit(ci, crit, sps, R)
        p = st['probe']
        out = []
        for rec in recs:
            exp = expected(rec, R)
            bad, n = [], 0
            base = [(0, 0, i, cell_value(c)) for i, c in enumerate(rec['col']) if c['k'] != 'blank']
            for sp in sps:
                ov = base + [(0, c, r, v) for (c, r), v in st['needs'][sp].items()]
                idxs = [k for k, (s2, _) in enumerate(st['index']) if s2 == sp]
                res = p.eval(ov, idxs=idxs)
                for k, r in zip(idxs, res):
                    j = st['index'][k][1]
                    if exp[j] is None:
                        continue
                    n += 1
                    got = outcome(*r)
                    if not same(exp[j], got):
                        dev = expected_dev(rec, sp, R)[j]
                        bad.append((sp, j, st['forms'][k], exp[j], show(*r), same(dev, got), dev))
            out.append((n, bad))
        return out
    except Exception as e:
        import traceback
        return {'harness_error': f'{type(e).__name__}: {e} {traceback.format_exc()[-400:]}'}


def gen(run):
    R = 3
    r = run.tlc('Gen_C12', ['INIT Init', 'NEXT Next', f'CONSTANT R = {R}', f'CONSTANT Reduced = {"TRUE" if run.quick else "FALSE"}', 'CONSTANT Bools = FALSE'], workers=6, timeout=3000,
                heap='8g')
    recs = r.records
    # truth values in criteria ranges: 1 / 0 / TRUE / FALSE / blank under the criteria TRUE, FALSE, 1, 0
    rb = run.tlc('Gen_C12', ['INIT Init', 'NEXT Next', f'CONSTANT R = {R}', 'CONSTANT Reduced = FALSE', 'CONSTANT Bools = TRUE'], workers=4, timeout=3000, tag='Gen_C12_bools')
    for rec in rb.records:
        rec['ci'] += 1000
    recs = recs + rb.records
    run.exhaustive[f'criteria columns of {R} cells over 1, 0, TRUE, FALSE, blank x 11 criteria (TRUE / FALSE / 1 / 0) x spellings x 13 formula shapes'] = True
    run.exhaustive[f'criteria columns of {R} cells x 36 criteria x spellings x 12 formula shapes'] = True
    by = {}
    for rec in recs:
        by.setdefault(rec['ci'], []).append(rec)
    jobs = []
    for ci, rs in sorted(by.items()):
        for c in core.chunks(rs, 120):
            jobs.append((ci, c, R))
    res = core.pmap(_crit_job, jobs, chunksize=1)
    for (ci, rs, _), out in zip(jobs, res):
        if isinstance(out, dict):
            raise core.MachineryError(out['harness_error'])
        for rec, (n, bad) in zip(rs, out):
            run.evaluations += n
            run.traces_validated += n
            cont = [('blank' if c['k'] == 'blank' else cell_value(c)) for c in rec['col']]
            crit = f"{OPS[rec['crit']['op']]}{operand_text(rec['crit']['operand'])}"
            if not bad:
                run.judge({'in': {'col': cont, 'crit': crit}, 'obs': f'{n} results select exactly the accepted positions', 'kind': 'gen_case'}, True, part='gen_cases',
                          nontrivial=len(rec['sel']) not in (0, R))
                run.evaluations -= 1
            seen = set()
            for (sp, j, form, exp, got, as_modelled, dev) in bad:
                devs = sorted(set(rec['g'][sp]) | (set(rec.get('gsum', {}).get(sp, [])) if j not in COUNT_SHAPES else set()))
                if devs and not as_modelled:
                    # inside the Guard of an open finding, but NOT the deviation the finding describes: a different violation
                    run.judge({'in': {'col': rec['col'], 'crit': rec['crit'], 'spelling': sp, 'formula': form, 'contents': cont, 'R': R, 'shape': j},
                               'ideal': exp if exp != 'ERR' else 'an error outcome', 'obs': got, 'kind': 'gen', 'modelled_deviation': dev}, False,
                              clause=f'{form} with A1..={cont} (criterion {crit} spelled as {sp}) = {got}: neither the selection of the accepted positions ({exp}) '
                                     f'nor the deviation recorded as {devs} ({dev})', part='gen')
                    continue
                key = (sp, j if not devs else -1)
                if key in seen and devs:
                    continue
                seen.add(key)
                case = {'in': {'col': rec['col'], 'crit': rec['crit'], 'spelling': sp, 'formula': form, 'contents': cont, 'R': R, 'shape': j},
                        'ideal': exp if exp != 'ERR' else 'an error outcome', 'obs': got, 'kind': 'gen'}
                run.judge(case, False, devs=devs, clause=f'{form} with A1..={cont} (criterion {crit} spelled as {sp}) = {got}, selecting exactly the accepted positions gives {case["ideal"]}',
                          part='gen')


# ---------------------------------------------------------------- direction B
def rand_cell(rng):
    x = rng.random()
    if x < 0.45:
        return {'k': 'num', 'q': rng.choice([0, 4, 8, 10, 12, 20, 28, -4, 40])}
    if x < 0.9:
        return {'k': 'text', 'c': [ord(ch) for ch in rng.choice(['x', 'X', 'apple', 'apply', 'b?', 'ab', 'pear', 'a*', 'Apple'])]}
    return {'k': 'blank'}


def rand_crit(rng):
    x = rng.random()
    if x < 0.5:
        op = rng.choice(list(OPS))
        return {'op': op, 'operand': {'k': 'num', 'q': rng.choice([0, 8, 10, 20])}}, ('value' if op == 'EQ' else 'oplit')
    t = rng.choice(['x', 'app*', 'appl?', '*p*', 'b~?', '?', '*', 'a?', 'apple', '*e', 'a~*', '??'])
    return {'op': 'EQ', 'operand': {'k': 'text', 'c': [ord(ch) for ch in t]}}, 'value'


def _trace_job(seeds):
    try:
        n = 5
        evs, forms = [], []
        for sd in seeds:
            rng = random.Random(sd)
            k = rng.randint(1, 3)
            pairs = [rand_crit(rng) for _ in range(k)]
            args = []
            for pi, (crit, sp) in enumerate(pairs):
                T, _ = crit_text(crit, sp)
                col = 'ABC'[pi]
                args.append(f'{col}1:{col}{n},{T}')
            forms.append(f'=SUMIFS(E1:E{n},' + ','.join(args) + ')')
            cols = [[rand_cell(rng) for _ in range(n)] for _ in range(k)]
            evs.append({'cols': cols, 'crits': [c for c, _ in pairs], 'sps': [s for _, s in pairs], 'n': n, 'seed': sd})
        consts = {(4, i): 2 ** i for i in range(n)}
        p = repo.Probe(forms, consts)
        ses = p.session() if seeds and (seeds[0] // max(1, len(seeds))) % 2 else None      # every second batch: ONE Executor, blanks written as None
        for i, e in enumerate(evs):
            if ses is not None:
                full = [(0, ci, ri, cell_value(e['cols'][ci][ri]) if ci < len(e['cols']) else None) for ci in range(3) for ri in range(n)]
                r = ses.eval(full, idxs=(i,))[0]
            else:
                ov = [(0, ci, ri, cell_value(c)) for ci, col in enumerate(e['cols']) for ri, c in enumerate(col) if c['k'] != 'blank']
                r = p.eval(ov, idxs=(i,))[0]
            got = outcome(*r)
            if isinstance(got, (int, float)) and float(got).is_integer() and 0 <= got < 2 ** n:
                e['obs'] = [b + 1 for b in range(n) if int(got) >> b & 1]
            else:
                e['obs'] = [-2]
            e['raw'] = show(*r)
            e['formula'] = forms[i]
        return evs
    except Exception as e:
        import traceback
        return {'harness_error': f'{type(e).__name__}: {e} {traceback.format_exc()[-300:]}'}


def validate(run, events, tag='Trace_C12'):
    import re
    verdicts = {}
    base = 0
    for pi, part in enumerate(core.chunks(events, 10000)):
        path = os.path.join(run.scratch, f'{tag}_{pi}.json')
        json.dump({'events': [{k: e[k] for k in ('cols', 'crits', 'sps', 'n', 'obs')} for e in part]}, open(path, 'w'))
        r = run.tlc('Trace_C12', ['SPECIFICATION Spec'], workers=1, timeout=1800, env={'TRACE_FILE': path}, tag=f'{tag}_{pi}')
        done = False
        for t in r.tuples:
            m = re.match(r'<<\s*"V",\s*(\d+),\s*\{(.*)\}\s*>>\s*$', t)
            if m:
                verdicts[base + int(m.group(1))] = re.findall(r'"([^"]+)"', m.group(2))
            elif re.match(r'<<\s*"DONE",\s*%d\s*>>' % (len(part) + 1), t):
                done = True
        if not done:
            raise core.MachineryError(f'{tag}: not all events consumed')
        base += len(part)
    return verdicts


def judge_events(run, evs, part):
    verdicts = validate(run, evs, 'Trace_C12_' + part)
    for i, e in enumerate(evs):
        g = verdicts.get(i + 1)
        cont = [[('blank' if c['k'] == 'blank' else cell_value(c)) for c in col] for col in e['cols']]
        case = {'in': {'formula': e['formula'], 'cols': e['cols'], 'crits': e['crits'], 'sps': e['sps'], 'n': e['n'], 'contents': cont}, 'obs': e['raw'], 'kind': part}
        run.judge(case, g is None, devs=g or [], clause=f"Trace_C12: {e['formula']} over columns {cont} = {e['raw']}: not the set of positions every criterion accepts", part=part)
        run.traces_validated += 1


def trace(run):
    n = 1500 if run.quick else 30000
    seeds = [run.seed * 1000117 + i for i in range(n)]
    outs = core.pmap(_trace_job, core.chunks(seeds, 50), chunksize=1)
    evs = []
    for o in outs:
        if isinstance(o, dict):
            raise core.MachineryError(o['harness_error'])
        evs += o
    judge_events(run, evs, 'trace')


def date_criteria(run):
    """Criteria ranges of date-times (several on one calendar day) under criteria taken from a cell: the plain value and every operator
    assembled with &. A date-time is a number (days and fraction of a day): the acceptances are those of XlCriteria for the numbers
    4 * day + quarter (Trace_C12); positions are observed through a SUMIFS / COUNTIFS / AVERAGEIFS over powers of two."""
    import datetime
    base = datetime.datetime(2024, 3, 5)
    quarters = [0, 1, 2, 3, 4, 6, -2, 2]                 # quarter days from the base: 00:00, 06:00, 12:00, 18:00, next day 00:00, next day 12:00, day before 12:00, 12:00 again
    n = len(quarters)
    col = [{'k': 'num', 'q': 4 * 45356 + k} for k in quarters]
    cells = [base + datetime.timedelta(hours=6 * k) for k in quarters]
    evs, forms, ov_list = [], [], []
    for crit_q in (0, 2, 3, 4):
        for op in OPS:
            crit = {'op': op, 'operand': {'k': 'num', 'q': 4 * 45356 + crit_q}}
            T = 'E1' if op == 'EQ' else f'"{OPS[op]}"&E1'
            forms.append(f'=SUMIFS(G1:G{n},A1:A{n},{T})')
            ov_list.append(base + datetime.timedelta(hours=6 * crit_q))
            evs.append({'cols': [col], 'crits': [crit], 'sps': ['valuecell' if op == 'EQ' else 'opcat'], 'n': n, 'seed': -1})
    consts = {(6, i): 2 ** i for i in range(n)}
    consts.update({(0, i): c for i, c in enumerate(cells)})
    p = repo.Probe(forms, consts)
    for i, e in enumerate(evs):
        r = p.eval([(0, 4, 0, ov_list[i])], idxs=(i,))[0]
        got = outcome(*r)
        e['obs'] = [b + 1 for b in range(n) if int(got) >> b & 1] if isinstance(got, (int, float)) and float(got).is_integer() and 0 <= got < 2 ** n else [-2]
        e['raw'] = show(*r)
        e['formula'] = forms[i] + f' with A1..A{n} = the base day 2024-03-05 + {quarters} quarter days, E1 = base + {ov_list[i] - base}'
    judge_events(run, evs, 'date_criteria')


def witnesses(run):
    for fid, f in run.open.items():
        w = f['witness']
        p = repo.Probe([w['formula']], {(1, 0): 10, (1, 1): 20, (1, 2): 40})
        ov = [(0, 0, i, v) for i, v in enumerate(w['col']) if v is not None] + [(0, 3, 1, w['d2'])] if w.get('d2') else \
             [(0, 0, i, v) for i, v in enumerate(w['col']) if v is not None]
        r = p.eval(ov)[0]
        got = outcome(*r)
        run.witness_note(fid, not same(w['expected'], got), f"{w['formula']} = {show(*r)}")


def check(run):
    run.rule = ('criteria columns of 3 cells over {0, 3, 5, 7, -1, 2.5, x, X, apple, apply, b?, blank} x 36 criteria (6 operators x 3 numbers; = / <> x 9 texts and '
                'wildcard patterns) enumerated by TLC with the selected positions (alone and with a fixed second pair, in either pair position) and the open findings per spelling; '
                'columns over {1, 0, TRUE, FALSE, blank} x criteria TRUE / FALSE / 1 / 0 likewise; '
                'SUMIF/SUMIFS/COUNTIFS/AVERAGEIFS in 12 formula shapes replayed by overrides; random longer columns with 1..3 pairs judged by Trace_C12. '
                'One evaluation = one formula result; a case is non-trivial when the criterion selects a proper non-empty subset.')
    run.assumptions += ['ordering operators with a text operand, wildcards against blank cells, numeric-looking / calendar-word texts (dateutil clock hazard), '
                        'texts under a TRUE / FALSE criterion, two-argument SUMIF summing truth values, non-numeric AVERAGEIFS targets: out of scope', 'mis-sized ranges: an error value or a raised exception both count as "reported as an error"']
    inv = ['Complement', 'OrderingOnlyNumbers', 'NumberCriterionRejectsText', 'TextCriterionRejectsNumbers', 'PlainIsCaseInsensitiveEquality', 'WildcardLaws',
           'SelectionIsConjunction']
    run.tlc('MC_XlCriteria', ['INIT Init', 'NEXT Next'] + ['INVARIANT ' + i for i in inv], workers=4, timeout=900)
    witnesses(run)
    gen(run)
    trace(run)
    date_criteria(run)


def replay(run, case):
    i = case['in']
    if case.get('kind') == 'date_criteria':
        date_criteria(run)
        return
    if case.get('kind') == 'gen':
        R = i['R']
        sps = [i['spelling']]
        st = setup_crit(0, i['crit'], sps, R)
        ov = [(0, 0, k, cell_value(c)) for k, c in enumerate(i['col']) if c['k'] != 'blank'] + [(0, c, r, v) for (c, r), v in st['needs'][i['spelling']].items()]
        r = st['probe'].eval(ov, idxs=(i['shape'],))[0]
        ok = (case['ideal'] == 'an error outcome' and outcome(*r) == 'ERR') or same(case['ideal'] if case['ideal'] != 'an error outcome' else 'ERR', outcome(*r))
        run.judge(dict(case, obs=show(*r)), ok, clause=f"{i['formula']} with A1..={i['contents']} = {show(*r)}, expected {case['ideal']}")
        return
    n = i['n']
    p = repo.Probe([i['formula']], {(4, k): 2 ** k for k in range(n)})
    ov = [(0, ci, ri, cell_value(c)) for ci, col in enumerate(i['cols']) for ri, c in enumerate(col) if c['k'] != 'blank']
    r = p.eval(ov)[0]
    got = outcome(*r)
    obs = [b + 1 for b in range(n) if int(got) >> b & 1] if isinstance(got, (int, float)) and float(got).is_integer() and 0 <= got < 2 ** n else [-2]
    judge_events(run, [dict(i, obs=obs, raw=show(*r))], 'replay')
