"""C02 - every reference form denotes exactly the intended cells of the intended sheet.

MC/GEN: Gen_C02 enumerates structured references (prefix none / word title / quoted titles, $ markers, columns A..XFD, rows 1..99999,
       cell / row / column / rectangle / whole-column areas), prints each as text, parses the text back with the specification's own
       character-level reference grammar (RoundTrip invariant) and computes the coordinates it denotes in row-major order
       (AreaCardinality invariant). Binding: each reference is put into formulas (=ref, INDEX(ref,i,j) for every position, SUM, COUNT,
       VLOOKUP / MATCH / SUMIFS argument positions) of a workbook whose cells hold numbers that encode their own coordinate; the
       coordinates read must be exactly the denotation, in order. References to a title that does not exist must be rejected.
TRACE: random reference texts over random title sets / sheet orders; the specification parses the text itself (Trace_C02).
"""
import json
import os
import random

from harness import absval, core, repo
from harness.repo import Cell, Context, CellTranslator

TITLES3 = ['Data', 'My  Sheet', "It's 2"]
FCOL = 100          # formulas of the far workbook live in this column (no grid column is near it)
FROW = 200


def encode(s, c, r):
    return s * 3_000_000_000 + r * 20000 + c


def decode(v):
    if absval.is_empty_cell(v) or v is None:
        return [0, 0, 0]
    if isinstance(v, bool) or not isinstance(v, (int, float)):
        return [-3, 0, 0]
    v = int(v)
    s, rest = divmod(v, 3_000_000_000)
    r, c = divmod(rest, 20000)
    return [s, c, r]


def text_of(codes):
    return ''.join(chr(c) for c in codes)


def plant(cellmaps, den, ring=True):
    for (s, c, r) in den:
        for dc, dr in ((0, 0), (1, 0), (-1, 0), (0, 1), (0, -1)) if ring else ((0, 0),):
            cc, rr = c + dc, r + dr
            if 1 <= cc <= 16384 and rr >= 1:
                cellmaps[s - 1][(cc - 1, rr - 1)] = encode(s, cc, rr)


def build(titles, cellmaps, formulas):
    """formulas: list of (sheet0, col0, row0, text). -> (klass or None, translate errors per formula, load error)"""
    maps = [dict(m) for m in cellmaps]
    for (s, c, r, t) in formulas:
        maps[s][(c, r)] = t
    excel = repo.mem_excel(list(zip(titles, maps)))
    ctx = Context()
    ctx._titles = excel.get_titles()
    ctx._sheets_size = excel.get_sheets_size()
    terr = []
    for (s, c, r, t) in formulas:
        saved = (dict(ctx._cell_translations), {k: list(v) for k, v in ctx._sub_cell_translations.items()})
        try:
            repo.with_timeout(30, CellTranslator.translate, Cell(s, c, r), excel, ctx)
            terr.append(None)
        except BaseException as e:  # noqa
            if isinstance(e, (KeyboardInterrupt, SystemExit)):
                raise
            ctx._cell_translations, ctx._sub_cell_translations = saved
            terr.append(e)
    try:
        klass = repo.load_class(ctx.build_class())
    except BaseException as e:  # noqa
        return None, terr, e
    return klass, terr, None


def read_cells(klass, terr, formulas):
    ex = repo.fresh_executor(klass)
    out = []
    for (s, c, r, _), te in zip(formulas, terr):
        if te is not None:
            out.append(('texc', te))
            continue
        try:
            out.append(('val', ex.get_cell(Cell(s, c, r)).value))
        except BaseException as e:  # noqa
            if isinstance(e, (KeyboardInterrupt, SystemExit)):
                raise
            out.append(('eexc', e))
    return out


def formulas_for(rec, ref):
    """-> list of (tag, formula text); tag = ('at', index into den) | ('sum',) | ('count',) | ('match', i) ..."""
    rows, cols = rec['rows'], rec['cols']
    fs = []
    if rec['shape'] == 'cell':
        fs.append((('at', 0), f'={ref}'))
        fs.append((('at', 0), f'={ref}+0'))
        fs.append((('sum',), f'=SUM({ref},0)'))
        fs.append((('sum2',), f'={ref}+SUM({ref})'))            # two (possibly quoted) references in one formula text
        return fs
    for i in range(rows):
        for j in range(cols):
            fs.append((('at', i * cols + j), f'=INDEX({ref},{i + 1},{j + 1})'))
    fs.append((('sum',), f'=SUM({ref})'))
    fs.append((('count',), f'=COUNT({ref})'))
    fs.append((('sum2',), f'=SUM({ref})+SUM({ref})'))
    pre = ref.rpartition('!')[0]
    fs.append((('sum',), f"={pre + '!' if pre else ''}A1*0+SUM({ref})"))     # a cell reference, then an area, each with the same prefix
    fs.append((('sum',), f'=SUMIFS({ref},{ref},">0")'))
    if cols >= 2:
        fs.append((('vlookup',), f'=VLOOKUP(INDEX({ref},{rows},1),{ref},{cols},FALSE)'))     # key = first cell of the last row
    fs.append((('match',), f'=MATCH(INDEX({ref},{rows},1),{ref},0)') if cols == 1 else (('sum',), f'=SUM({ref},{ref})/2'))
    return fs


def judge_rec(rec, results, fs):
    """-> list of (formula, expected, got) mismatches"""
    den = rec['den']
    bad = []
    total = sum(encode(*d) for d in den)
    for (tag, f), r in zip(fs, results):
        kind, p = r
        if tag[0] == 'at':
            exp = den[tag[1]]
            got = decode(p) if kind == 'val' else [-9, 0, 0]
            if got != list(exp):
                bad.append((f, f'the value planted at {exp}', repo_show(kind, p, got)))
        elif tag[0] == 'sum':
            if not (kind == 'val' and isinstance(p, (int, float)) and not isinstance(p, bool) and abs(p - total) < 0.5):
                bad.append((f, f'the sum of the {len(den)} planted values', repo_show(kind, p, None)))
        elif tag[0] == 'sum2':
            if not (kind == 'val' and isinstance(p, (int, float)) and not isinstance(p, bool) and abs(p - 2 * total) < 0.5):
                bad.append((f, f'twice the sum of the {len(den)} planted values', repo_show(kind, p, None)))
        elif tag[0] == 'count':
            if not (kind == 'val' and p == len(den)):
                bad.append((f, str(len(den)), repo_show(kind, p, None)))
        elif tag[0] == 'vlookup':
            exp = den[-1]
            got = decode(p) if kind == 'val' else [-9, 0, 0]
            if got != list(exp):
                bad.append((f, f'the value planted at {exp}', repo_show(kind, p, got)))
        elif tag[0] == 'match':
            if not (kind == 'val' and p == rec['rows']):
                bad.append((f, str(rec['rows']), repo_show(kind, p, None)))
    return bad


def repo_show(kind, p, got):
    if kind != 'val':
        return f'raises {type(p).__name__}: {p}'[:100]
    return f'{p!r}' + (f' (the value planted at {got})' if got and got[0] > 0 else '')


def _near_job(recs):
    """one far workbook per chunk, formulas on the own sheet of each record"""
    try:
        cellmaps = [{}, {}, {}]
        formulas, spans = [], []
        nxt = [0, 0, 0]
        for rec in recs:
            plant(cellmaps, [tuple(d) for d in rec['den']])
            fs = formulas_for(rec, text_of(rec['text']))
            s0 = rec['own'] - 1
            start = len(formulas)
            for (_, f) in fs:
                formulas.append((s0, FCOL, FROW + nxt[s0], f))
                nxt[s0] += 1
            spans.append((start, len(formulas), fs))
        klass, terr, lerr = build(TITLES3, cellmaps, formulas)
        if klass is None:
            return {'harness_error': f'generated module does not load: {lerr}'}
        res = read_cells(klass, terr, formulas)
        return [judge_rec(rec, res[a:b], fs) for rec, (a, b, fs) in zip(recs, spans)]
    except Exception as e:
        import traceback
        return {'harness_error': f'{type(e).__name__}: {e} {traceback.format_exc()[-400:]}'}


def _wcol_job(recs):
    """whole-column references: three sheets of exactly 5 used rows; formulas packed into rows 1..5 of far columns"""
    try:
        cellmaps = [{}, {}, {}]
        for s in (1, 2, 3):
            for r in range(1, 6):
                for c in range(1, 7):
                    if (c + r + s) % 4:          # leave some cells blank inside the used range
                        cellmaps[s - 1][(c - 1, r - 1)] = encode(s, c, r)
            cellmaps[s - 1][(6, 4)] = encode(s, 7, 5)    # keeps row 5 and the width in place
        formulas, spans = [], []
        nxt = [0, 0, 0]
        for rec in recs:
            fs = formulas_for(rec, text_of(rec['text']))
            s0 = rec['own'] - 1
            start = len(formulas)
            for (_, f) in fs:
                k = nxt[s0]
                formulas.append((s0, 10 + k // 5, k % 5, f))
                nxt[s0] += 1
            spans.append((start, len(formulas), fs))
        klass, terr, lerr = build(TITLES3, cellmaps, formulas)
        if klass is None:
            return {'harness_error': f'generated module does not load: {lerr}'}
        res = read_cells(klass, terr, formulas)
        out = []
        for rec, (a, b, fs) in zip(recs, spans):
            den = rec['den']
            planted = [d if tuple(x - 1 for x in d[1:]) in cellmaps[d[0] - 1] else [0, 0, 0] for d in den]
            bad = []
            for (tag, f), (kind, p) in zip(fs, res[a:b]):
                if tag[0] == 'at':
                    exp = planted[tag[1]]
                    got = decode(p) if kind == 'val' else [-9, 0, 0]
                    if got != list(exp):
                        bad.append((f, f'the content of {den[tag[1]]} ({"blank" if exp[0] == 0 else "planted"})', repo_show(kind, p, got)))
                elif tag[0] == 'sum':
                    total = sum(encode(*d) for d in planted if d[0])
                    if not (kind == 'val' and isinstance(p, (int, float)) and abs(p - total) < 0.5):
                        bad.append((f, 'the sum of the planted values of the columns', repo_show(kind, p, None)))
                elif tag[0] == 'count':
                    n = sum(1 for d in planted if d[0])
                    if not (kind == 'val' and p == n):
                        bad.append((f, str(n), repo_show(kind, p, None)))
            # a later write into a cell of the area (also one that was never stored) must be seen through the reference
            if rec['shape'] == 'area' and not bad:
                last = den[-1]
                idx = [k for k, (tag, _) in enumerate(fs) if tag[0] == 'at' and tag[1] == len(den) - 1]
                if idx:
                    ex = repo.fresh_executor(klass, [Cell(last[0] - 1, last[1] - 1, last[2] - 1, 424242)])
                    s0, c0, r0, ftxt = formulas[a + idx[0]]
                    try:
                        got = ex.get_cell(Cell(s0, c0, r0)).value
                    except Exception as exn:  # noqa
                        got = f'raises {type(exn).__name__}'
                    if got != 424242:
                        bad.append((ftxt, f'424242 after set_cells wrote it into {last}', repr(got)))
            out.append(bad)
        return out
    except Exception as e:
        import traceback
        return {'harness_error': f'{type(e).__name__}: {e} {traceback.format_exc()[-400:]}'}


def gen(run):
    th = 'FALSE' if run.quick else 'TRUE'
    for kind, job, size in (('NEAR', _near_job, 40), ('WCOL', _wcol_job, 60), ('BEYOND', _wcol_job, 60)):
        r = run.tlc('Gen_C02', ['INIT Init', 'NEXT Next', f'CONSTANT Kind = "{kind}"', f'CONSTANT Thorough = {th}', 'INVARIANT RoundTrip', 'INVARIANT AreaCardinality'],
                    workers=6, timeout=3000, tag='Gen_C02_' + kind, heap='8g')
        recs = r.records
        run.exhaustive[f'{kind}: references x spellings'] = True
        outs = core.pmap(job, core.chunks(recs, size), chunksize=1)
        flat = []
        for o in outs:
            if isinstance(o, dict):
                raise core.MachineryError(o['harness_error'])
            flat += o
        for rec, bad in zip(recs, flat):
            ref = text_of(rec['text'])
            n = rec['rows'] * rec['cols'] + 3
            run.evaluations += n - 1
            run.traces_validated += n
            if not bad:
                run.judge({'in': {'ref': ref, 'own_sheet': TITLES3[rec['own'] - 1]}, 'obs': 'reads exactly the denoted cells, in row-major order', 'kind': kind.lower()},
                          True, part=kind.lower(), nontrivial=rec['shape'] != 'cell' or '!' in ref)
            for (f, exp, got) in bad[:2]:
                case = {'in': {'ref': ref, 'own': rec['own'], 'formula': f, 'rec': rec, 'kind': kind}, 'ideal': exp, 'obs': got, 'kind': kind.lower()}
                run.judge(case, False, clause=f'{f} on sheet {TITLES3[rec["own"] - 1]!r} = {got}, the reference denotes {exp}', part=kind.lower())


def unknown_titles(run):
    cases = ['=Nope!A1', "='No Such'!A1", '=SUM(Nope!A1:B2)', "=INDEX('My Sheets'!A1:B2,1,1)", '=data!A1', "='Data '!A1", '=Nope!A:A', '=Dat!B2+Data!A1', '=!A1', "=''!A1", '=SUM(!A1:B2)', '=COLUMN(Nope!C1)', "=COLUMN('No Such'!C1:D2)+1", "='My Sheet'!A1", "='My   Sheet'!A1"]      # the workbook's sheet has TWO blanks in its title
    cellmaps = [{(0, 0): 11, (1, 1): 12}, {(0, 0): 21}, {(0, 0): 31}]
    for f in cases:
        klass, terr, lerr = build(TITLES3, cellmaps, [(0, 5, 0, f)])
        rejected = terr[0] is not None
        got = f'rejected with {type(terr[0]).__name__}' if rejected else repr(read_cells(klass, terr, [(0, 5, 0, f)])[0])
        run.judge({'in': {'formula': f, 'titles': TITLES3}, 'obs': got, 'kind': 'unknown_title'}, rejected,
                  clause=f'{f} names a sheet that does not exist (titles {TITLES3}) but was not rejected: {got}', part='unknown_title')
        run.traces_validated += 1


# ---------------------------------------------------------------- direction B
POOL = [('Data', False), ('S1', False), ('Лист1', False), ('My  Sheet', True), ('a-b.c', True), ("O'Brien", True), ('2024', True), ('Q&A (x)', True), ('sheet_2', False)]


def rand_ref(rng, titles):
    pre = rng.randint(0, len(titles))
    shape = rng.choice(['cell', 'cell', 'area', 'area', 'area', 'wcol'])
    d = [rng.random() < 0.4 for _ in range(4)]
    dl = lambda b: '$' if b else ''   # noqa
    if shape == 'wcol':
        c1 = rng.randint(1, 4)
        c2 = c1 + rng.randint(0, 2)
        body = f'{dl(d[0])}{repo.col_letters(c1)}:{dl(d[2])}{repo.col_letters(c2)}'
    else:
        c1 = rng.choice([rng.randint(1, 30), rng.randint(1, 16380), rng.choice([26, 27, 52, 53, 702, 703, 16382])])
        r1 = rng.choice([rng.randint(1, 30), rng.randint(1, 99990), rng.choice([9, 10, 99, 100, 9999, 10000])])
        if shape == 'cell':
            body = f'{dl(d[0])}{repo.col_letters(c1)}{dl(d[1])}{r1}'
        else:
            c2, r2 = c1 + rng.randint(0, 2), r1 + rng.randint(0, 2)
            body = f'{dl(d[0])}{repo.col_letters(c1)}{dl(d[1])}{r1}:{dl(d[2])}{repo.col_letters(c2)}{dl(d[3])}{r2}'
    if pre == 0:
        return body
    t, q = titles[pre - 1]
    if rng.random() < 0.08:
        t, q = rng.choice([('Nope', False), ('No Such', True)])
    tq = t.replace("'", "''")            # inside quotes an apostrophe is written twice
    return (f"'{tq}'!" if (q or rng.random() < 0.3) else f'{t}!') + body


def _trace_job(seeds):
    try:
        out = []
        for sd in seeds:
            rng = random.Random(sd)
            titles = rng.sample(POOL, rng.randint(1, 4))
            own = rng.randint(1, len(titles))
            ref = rand_ref(rng, titles)
            wcol = ':' in ref and not any(ch.isdigit() for ch in ref.split('!')[-1])
            nt = len(titles)
            cellmaps = [{} for _ in range(nt)]
            nrows = [0] * nt
            if wcol:
                for s in range(1, nt + 1):
                    n = rng.randint(2, 5)
                    nrows[s - 1] = n
                    for r in range(1, n + 1):
                        for c in range(1, 8):
                            cellmaps[s - 1][(c - 1, r - 1)] = encode(s, c, r)
            # what to read: parse only enough to know the shape (the verdict comes from the specification's parser)
            body = ref.split('!')[-1].replace('$', '')
            formulas = []
            if ':' not in body:
                formulas = [f'={ref}']
                shape = (1, 1)
            else:
                a, b = body.split(':')
                if wcol:
                    from openpyxl.utils import column_index_from_string as ci
                    cols = ci(b) - ci(a) + 1
                    rows = None
                else:
                    import re
                    ma, mb = re.match(r'([A-Z]+)(\d+)', a), re.match(r'([A-Z]+)(\d+)', b)
                    from openpyxl.utils import column_index_from_string as ci
                    cols = ci(mb.group(1)) - ci(ma.group(1)) + 1
                    rows = int(mb.group(2)) - int(ma.group(2)) + 1
                shape = (rows, cols)
            # plant: every sheet gets the same coordinates planted (so a wrong sheet is visible as a wrong code)
            if not wcol:
                import re
                from openpyxl.utils import column_index_from_string as ci
                pts = re.findall(r'([A-Z]+)(\d+)', body)
                c1, r1 = ci(pts[0][0]), int(pts[0][1])
                c2, r2 = (ci(pts[-1][0]), int(pts[-1][1]))
                for s in range(1, nt + 1):
                    plant(cellmaps, [(s, c, r) for r in range(r1, r2 + 1) for c in range(c1, c2 + 1)])
            frm = []
            if ':' in body:
                rws = shape[0]
                if wcol:
                    # rows of the referenced sheet are not known to the driver: read up to 5 rows, blanks decode to (0,0,0) and are cut by the spec's nrows
                    rws = 5
                for i in range(rws):
                    for j in range(shape[1]):
                        frm.append(f'=INDEX({ref},{i + 1},{j + 1})')
            else:
                frm = formulas
            fcells = []
            for k, f in enumerate(frm):
                if wcol:
                    fcells.append((own - 1, 10 + k // 2, k % 2, f))      # rows 1..2 exist on every sheet
                else:
                    fcells.append((own - 1, FCOL, FROW + k, f))
            klass, terr, lerr = build([t for t, _ in titles], cellmaps, fcells)
            if klass is None:
                return {'harness_error': f'module does not load: {lerr}'}
            if any(t is not None for t in terr):
                obs = [[-1]]
                raw = f'rejected with {type([t for t in terr if t is not None][0]).__name__}'
            else:
                res = read_cells(klass, terr, fcells)
                obs = [decode(p) if kind == 'val' else [-9, 0, 0] for kind, p in res]
                if wcol:
                    # cut trailing positions beyond the used rows of the sheet that was read (they are blank by construction)
                    while obs and obs[-1] == [0, 0, 0]:
                        obs.pop()
                    # INDEX beyond the area yields '#REF!' -> decode gives -3: drop those too
                    obs = [o for o in obs if o[0] != -3]
                raw = str(obs[:6])
            out.append({'text': [ord(ch) for ch in ref], 'titles': [[ord(ch) for ch in t] for t, _ in titles], 'own': own, 'nrows': nrows if wcol else [1] * nt,
                        'obs': obs, 'ref': ref, 'raw': raw, 'seed': sd})
        return out
    except Exception as e:
        import traceback
        return {'harness_error': f'{type(e).__name__}: {e} {traceback.format_exc()[-500:]}'}


def validate(run, events, tag='Trace_C02'):
    from harness.tlc import parse_tuple
    verdicts = {}
    base = 0
    for pi, part in enumerate(core.chunks(events, 10000)):
        path = os.path.join(run.scratch, f'{tag}_{pi}.json')
        json.dump({'events': [{k: e[k] for k in ('text', 'titles', 'own', 'nrows', 'obs')} for e in part]}, open(path, 'w'))
        r = run.tlc('Trace_C02', ['SPECIFICATION Spec'], workers=1, timeout=1800, env={'TRACE_FILE': path}, tag=f'{tag}_{pi}')
        done = False
        for t in r.tuples:
            v = parse_tuple(t)
            if v[0] == 'V':
                verdicts[base + v[1]] = v[2]
            elif v[0] == 'DONE' and v[1] == len(part) + 1:
                done = True
        if not done:
            raise core.MachineryError(f'{tag}: not all events consumed')
        base += len(part)
    return verdicts


def judge_events(run, evs, part):
    verdicts = validate(run, evs, 'Trace_C02_' + part)
    for i, e in enumerate(evs):
        v = verdicts.get(i + 1)
        case = {'in': {'ref': e['ref'], 'titles': [text_of(t) for t in e['titles']], 'own': e['own'], 'seed': e['seed']}, 'obs': e['raw'], 'kind': part}
        run.judge(case, v is None, clause=f"Trace_C02: ={e['ref']} on sheet {e['own']} of {case['in']['titles']}: {v}; cells read: {e['raw']}", part=part,
                  nontrivial='!' in e['ref'] or ':' in e['ref'])
        run.traces_validated += 1


def trace(run):
    n = 600 if run.quick else 12000
    seeds = [run.seed * 1000151 + i for i in range(n)]
    outs = core.pmap(_trace_job, core.chunks(seeds, 25), chunksize=1)
    evs = []
    for o in outs:
        if isinstance(o, dict):
            raise core.MachineryError(o['harness_error'])
        evs += o
    judge_events(run, evs, 'trace')


def public_path(run):
    """a real xlsx with three sheets; references in all forms; whole-file translation through Parser + Executor(class_file)"""
    maps = [{}, {}, {}]
    for s in (1, 2, 3):
        for r in range(1, 5):
            for c in range(1, 5):
                maps[s - 1][(c - 1, r - 1)] = encode(s, c, r) % 1_000_000 + s * 1_000_000     # openpyxl keeps ints < 2^53; keep them small anyway
    val = lambda s, c, r: encode(s, c, r) % 1_000_000 + s * 1_000_000   # noqa
    forms = [("=B2", 1, val(1, 2, 2)), ("=$C$3", 1, val(1, 3, 3)), ("='My  Sheet'!B2", 1, val(2, 2, 2)), ("=Data!C1", 2, val(1, 3, 1)), ("='It''s 2'!$A4", 1, val(3, 1, 4)),
             ("=INDEX('My  Sheet'!A1:C2,2,3)", 3, val(2, 3, 2)), ("=INDEX(A:B,3,2)", 2, val(2, 2, 3)), ("=SUM('It''s 2'!A1:A2)", 1, val(3, 1, 1) + val(3, 1, 2)),
             ("=INDEX('Data'!A:C,2,3)", 3, val(1, 3, 2))]
    for k, (f, own, _) in enumerate(forms):
        maps[own - 1][(6, k)] = f
    # the same workbook once more with a chart sheet among its tabs (before the second worksheet): titles still denote worksheets
    for chart_before in (None, 1):
        res = repo.public_path_eval(run.scratch, list(zip(TITLES3, maps)), [(own - 1, 6, k) for k, (_, own, _) in enumerate(forms)], tag='c02pp',
                                    chart_before=chart_before)
        for (f, own, exp), (kind, p) in zip(forms, res):
            ok = kind == 'val' and p == exp
            run.judge({'in': {'formula': f, 'own_sheet': TITLES3[own - 1], 'mode': 'file', 'chart_before': chart_before}, 'ideal': exp, 'obs': repo_show(kind, p, None),
                       'kind': 'public_path'}, ok,
                      clause=f'file path{" (a chart sheet before the 2nd worksheet)" if chart_before is not None else ""}: {f} on {TITLES3[own - 1]!r} = '
                             f'{repo_show(kind, p, None)}, expected {exp}', part='public_path')
            run.traces_validated += 1
    # a chart sheet is not a worksheet: a reference to its title names a sheet that does not exist
    res = repo.public_path_eval(run.scratch, [(TITLES3[0], {(0, 0): 1, (0, 1): 2, (3, 0): '=Chart!A1+1'}), (TITLES3[1], {(0, 0): 5})], [(0, 3, 0)], tag='c02ppc', chart_before=1)
    run.judge({'in': {'formula': '=Chart!A1+1', 'mode': 'file', 'chart_before': 1}, 'obs': repo_show(*res[0], None), 'kind': 'public_path'}, res[0][0] == 'texc',
              clause=f'file path: =Chart!A1+1 names the chart sheet (not a worksheet) but was not rejected: {repo_show(*res[0], None)}', part='public_path')


def reordered(run):
    """The SAME formula texts in the SAME cells, translated one after the other in one process for workbooks whose sheets are ordered
    differently, hold other values or lack a sheet: a reference denotes cells of the workbook being translated, nothing kept from
    an earlier one. Values are the coordinates planted in each workbook (scaled per workbook)."""
    forms = ["=SUM('Data'!$B$2:$C$3)", '=Data!A1', '=SUM(Data!C:C)', "='Other'!B2+Data!B2", '=SUM(Other!A1:B2)', '=B4*2']
    fcells = [(0, 7, k, f) for k, f in enumerate(forms)]

    def book(order, scale):
        maps, where = [], {}
        for i, t in enumerate(order):
            where[t] = i
            m = {(c, r): scale * (1000 * 'MDO'.index(t[0]) + 10 * (c + 1) + (r + 1)) for c in range(3) for r in range(4)} if t != 'Main' else {(1, 3): scale * 4}
            maps.append(m)
        return maps

    def val(t, c, r, scale):
        return scale * (1000 * 'MDO'.index(t[0]) + 10 * c + r)

    def expected(order, scale):
        if 'Data' not in order:
            return None
        d = lambda c, r: val('Data', c, r, scale)       # noqa
        o = lambda c, r: val('Other', c, r, scale)      # noqa
        return [d(2, 2) + d(3, 2) + d(2, 3) + d(3, 3), d(1, 1), sum(d(3, r) for r in range(1, 5)), o(2, 2) + d(2, 2), o(1, 1) + o(2, 1) + o(1, 2) + o(2, 2), scale * 8]

    for order, scale in ((['Main', 'Data', 'Other'], 1), (['Main', 'Other', 'Data'], 1), (['Main', 'Other', 'Data'], 3), (['Main', 'Other'], 1), (['Main', 'Data', 'Other'], 2)):
        klass, terr, lerr = build(order, book(order, scale), fcells)
        exp = expected(order, scale)
        if exp is None:
            got = ['rejected' if terr[k] is not None else repr(read_cells(klass, terr, fcells)[k]) for k in (0, 1, 2, 3)]
            ok = all(g == 'rejected' for g in got)
            run.judge({'in': {'order': order, 'formulas': forms[:4]}, 'obs': got, 'kind': 'reordered'}, ok,
                      clause=f'workbook {order} (no sheet Data), translated after workbooks that had one: references to Data must be rejected: {got}', part='reordered')
        else:
            res = read_cells(klass, terr, fcells) if klass is not None else [('texc', lerr)] * len(fcells)
            bad = [(f, e, repo_show(*r, None)) for f, e, r in zip(forms, exp, res) if not (r[0] == 'val' and r[1] == e)]
            run.judge({'in': {'order': order, 'scale': scale, 'formulas': forms}, 'obs': str(bad), 'kind': 'reordered'}, not bad,
                      clause=f'workbook {order} (values x{scale}) translated after other workbooks with the same formula texts in the same cells: (formula, expected, got) {bad}', part='reordered')
        run.traces_validated += 1


def function_positions(run):
    """Every function position a reference can occupy, with UNPREFIXED references, written identically on three sheets of the same
    layout and different data: the reference denotes cells of the formula's OWN sheet - on every sheet, in both translation orders."""
    forms = ['=SUM(A1:C3)', '=AVERAGE(B1:B3)', '=MIN(A1:C3)', '=MAX(B1:C3)', '=COUNT(A1:C4)', '=COUNTBLANK(A1:C4)', '=SUMIF(A1:A3,">15",B1:B3)',
             '=SUMIFS(C1:C3,A1:A3,">5",B1:B3,">0")', '=COUNTIFS(B1:B3,">0",A1:A3,"<25")', '=AVERAGEIFS(C1:C3,A1:A3,">15")', '=VLOOKUP(20,A1:C3,2,FALSE)',
             '=MATCH(30,A1:A3,0)', '=XMATCH(20,A1:A3)', '=INDEX(A1:C3,2,3)', '=AND(A1>0,B1>0)', '=OR(A1>25,B3<0)', '=IF(B2>0,C2,A2)', '=IFERROR(B1/A1,0)',
             '=ROUND(B2/A2,2)', '=B1&"-"&C1', '=CONCATENATE(A1,B1)', '=COLUMN(B1)+A1', '=SUM(A:A)', '=SUM(B1:B3)/COUNT(B1:B3)', '=A1=B1', '=LEFT(D1,2)&RIGHT(D1,1)',
             '=SEARCH("e",D1)', '=MID(D1,2,2)']
    titles = ['Jan', 'Feb', 'Mar']
    sheets, want = [], []
    for si, t in enumerate(titles):
        k = 100 * (si + 1)
        a = [10, 20, 30]
        b = [k + 1, k + 2, k + 3]
        c = [k + 11, k + 12, k + 13]
        d = ['alpha', 'beta', 'gamma'][si]
        cells = {}
        for r in range(3):
            cells[(0, r)], cells[(1, r)], cells[(2, r)] = a[r], b[r], c[r]
        cells[(3, 0)] = d
        for i, f in enumerate(forms):
            cells[(6, i)] = f
        sheets.append((t, cells))
        allv = a + b + c
        want.append([sum(allv), sum(b) / 3, min(allv), max(b + c), 9, 3, b[1] + b[2], sum(c), 2, (c[1] + c[2]) / 2, b[1], 3, 2, c[1], True, False, c[1], b[0] / 10,
                     round(b[1] / 20, 2), f'{b[0]}-{c[0]}', f'10{b[0]}', 2 + 10, 60, sum(b) / 3, False, d[:2] + d[-1:], d.index('e') + 1 if 'e' in d else '#VALUE!', d[1:3]])
    for order in ('file', 'last_sheet_first'):
        excel = repo.mem_excel(sheets)
        try:
            if order == 'file':
                klass = repo.load_class(repo.translate_file(excel)[0])
            else:
                ctx = Context()
                ctx._titles = excel.get_titles()
                ctx._sheets_size = excel.get_sheets_size()
                for si in (2, 0, 1):
                    for i in range(len(forms)):
                        CellTranslator.translate(Cell(si, 6, i), excel, ctx)
                klass = repo.load_class(ctx.build_class())
            ex = repo.fresh_executor(klass)
            got = []
            for si in range(3):
                row = []
                for i in range(len(forms)):
                    try:
                        row.append(ex.get_cell(Cell(si, 6, i)).value)
                    except Exception as e:  # noqa
                        row.append(f'raises {type(e).__name__}')
                got.append(row)
        except Exception as e:   # noqa
            got = f'raises {type(e).__name__}: {e}'[:160]

        def same(g, w):
            if isinstance(w, bool) or isinstance(g, bool):
                return g is w
            if isinstance(w, float):
                return isinstance(g, (int, float)) and abs(g - w) < 1e-9
            return g == w
        bad = got if not isinstance(got, list) else [(titles[si], forms[i], got[si][i], want[si][i]) for si in range(3) for i in range(len(forms)) if not same(got[si][i], want[si][i])]
        run.judge({'in': {'formulas': forms, 'sheets': titles, 'order': order}, 'obs': str(bad)[:500], 'kind': 'function_positions'}, not bad,
                  clause=f'the same unprefixed formulas on the sheets {titles} (translation order: {order}): (sheet, formula, got, expected) {bad}', part='function_positions')
        run.traces_validated += 1
        run.evaluations += 3 * len(forms)


def check(run):
    run.rule = ('structured references enumerated by TLC (prefix none / word / quoted word / quoted titles x $ markers x columns A..XFD x rows 1..99999 x cell, row, '
                'column, rectangle and whole-column areas x own sheet), printed, parsed back and denoted by the specification; each read through =ref, '
                'INDEX at every position, SUM, COUNT, SUMIFS, VLOOKUP/MATCH positions on a workbook whose cells encode their coordinates (neighbours planted '
                'too); unknown titles must be rejected; random reference texts over random title sets judged by Trace_C02. Non-trivial = an area or a prefixed reference.')
    run.assumptions += ['lower-case column letters are out of scope', 'the in-memory workbook has the structure Excel.parse delivers; a sample goes through a real xlsx file']
    gen(run)
    unknown_titles(run)
    reordered(run)
    function_positions(run)
    trace(run)
    public_path(run)


def replay(run, case):
    i = case['in']
    if case.get('kind') == 'reordered':
        reordered(run)
        return
    if case.get('kind') == 'function_positions':
        function_positions(run)
        return
    if 'rec' in i:
        job = _near_job if i['kind'] == 'NEAR' else _wcol_job
        bad = job([i['rec']])[0]
        run.judge(dict(case, obs=str(bad[:1])), not bad, clause=f"{i['formula']}: {bad[:1]}")
        return
    if 'seed' in i:
        judge_events(run, _trace_job([i['seed']]), 'replay')
        return
    check(run)
