"""Shared by C04 and C08: the generator workbook (exported from spec/Workbook4.tla), the real
Executor driver, recorders for Trace_C04, replay of TLC-generated histories / schedules."""
import json
import os
import random
import subprocess
import sys

from harness import absval, core, repo
from harness.repo import Cell, Executor, Parser

TITLES = {1: 'S1', 2: 'S2'}
_WB = {}


def spec_workbook(run):
    if 'wb' not in _WB:
        r = run.tlc('Gen_Workbook4', ['INIT Init', 'NEXT Next'], workers=1, timeout=120)
        _WB['wb'] = r.records[0]
    return _WB['wb']


def a1(pos, own_sheet=None):
    s, c, r = pos
    ref = f'{repo.col_letters(c)}{r}'
    return ref if own_sheet == s else f'{TITLES[s]}!{ref}'


def sheets_from_spec(wbj, ov=None):
    """Spec workbook (+ optional overrides applied as constants) -> [(title, {(c0,r0): value})]."""
    pos, wb = wbj['pos'], wbj['wb']
    out = {1: {}, 2: {}}
    for name, f in wb.items():
        s, c, r = pos[name]
        if ov and name in ov:
            continue
        op = f['op']
        if op == 'const':
            v = f['v']
        elif op == 'add':
            v = f"={a1(pos[f['a']], s)}+{a1(pos[f['b']], s)}"
        elif op == 'addk':
            v = f"={a1(pos[f['a']], s)}+{f['b']}"
        elif op == 'mulk':
            v = f"={a1(pos[f['a']], s)}*{f['b']}"
        elif op == 'wcol':
            col = repo.col_letters(f['col'])
            v = f"=SUM({col}:{col})" if f['s'] == s else f"=SUM({TITLES[f['s']]}!{col}:{col})"
        elif op == 'kdiv':
            v = f"={f['a']}/{a1(pos[f['b']], s)}"
        else:
            raise ValueError(op)
        out[s][(c - 1, r - 1)] = v
    for name, val in (ov or {}).items():
        s, c, r = pos[name]
        out[s][(c - 1, r - 1)] = pyval(val)
    return [(TITLES[1], out[1]), (TITLES[2], out[2])]


class World:
    def __init__(self, run):
        self.wbj = spec_workbook(run)
        self.pos = self.wbj['pos']
        self.dir = run.scratch
        self.xlsx = repo.write_xlsx(os.path.join(self.dir, 'wb4.xlsx'), sheets_from_spec(self.wbj))
        self.pyfile = os.path.join(self.dir, 'wb4_gen.py')
        # the public path the property names: Parser.write_translation + Executor(class_file=...)
        Parser().set_excel_file_path(self.xlsx).write_translation(self.pyfile)
        self.text = open(self.pyfile, encoding='utf-8').read()
        self.klass = repo.load_class(self.text)


def pyval(v):
    """a written value of the specification -> the Python value handed to the Executor (1001 / 1000 stand for TRUE / FALSE, 999 for None = no content, see Workbook4!OvVal)"""
    return True if v == 1001 else False if v == 1000 else None if v == 999 else v


def mk_cell(pos, value=None, style=0):
    """addressing spellings: 0 numbers; 1 title + letters + row text; 2 sheet number + letters + row text;
    3 title + numeric column and row, and the Cell has been hashed before it is handed over (a caller that kept its cells in a set)"""
    s, c, r = pos
    value = pyval(value)
    style = style % 4 if style > 2 else style
    if style == 0:
        return Cell(s - 1, c - 1, r - 1, value)
    if style == 1:
        return Cell(TITLES[s], repo.col_letters(c), str(r), value)
    if style == 3:
        cell = Cell(TITLES[s], c - 1, r - 1, value)
        try:
            {cell}
        except Exception:
            pass
        return cell
    return Cell(s - 1, repo.col_letters(c), str(r), value)


def rejected_set(ex, pos, rng):
    """A set_cells call that must be rejected as a whole: valid cells (among them cells beyond the used ranges), then a cell that
    cannot exist. -> True when the library rejected the call with its own exception class."""
    pre = [mk_cell(pos[c], 77, rng.randint(0, 3)) for c in rng.sample(['S1F4', 'S2C3', 'S1A1', 'S1B2'], rng.randint(0, 2))]
    bad = rng.choice([lambda: Cell('No such sheet', 0, 0, 1), lambda: Cell(0, 'A', '0', 1), lambda: Cell(0, True, 50, 5)])()       # the last one: a truth value as a column number
    try:
        ex.set_cells(pre + [bad])
    except repo.E2PyclException:
        return True
    return False


def val_json(kind, payload):
    """Observed result -> the small value JSON of Workbook4 (num / blank / err / other)."""
    if kind == 'exc':
        return {'k': 'err'}
    v = absval.to_spec(payload)
    if v['k'] == 'num' and v['d'] == 1:
        return {'k': 'num', 'n': v['n']}
    if v['k'] == 'blank':
        return {'k': 'blank'}
    if v['k'] == 'bool':
        return {'k': 'bool', 'b': bool(v['b'])}
    if v['k'] == 'err':
        return {'k': 'err'}
    return {'k': 'other', 't': str(v)}


def q_get(ex, pos, style):
    try:
        return val_json('val', ex.get_cell(mk_cell(pos, None, style)).value)
    except repo.E2PyclException:
        raise
    except Exception:
        return val_json('exc', None)


def q_sheet(ex, s, by_title):
    try:
        g = ex.get_sheet(TITLES[s] if by_title else s - 1)
    except repo.E2PyclException:
        raise
    except Exception:
        return True, []
    return False, [[val_json('val', c.value) for c in row] for row in g]


def q_sizes(ex):
    z = ex.get_executed_class().get_sheets_size()
    return [{'rows': d['last_row'], 'cols': d['last_column']} for d in z]


def ovmap(ex, pos):
    """The executor's override map as the API exposes it after replay: instance._arguments."""
    inv = {}
    for name, (s, c, r) in pos.items():
        inv[f'_{s - 1}_{c - 1}_{r - 1}'] = name
    args = getattr(ex.get_executed_class(), '_arguments', None)
    if args is None:
        return None
    return sorted([inv.get(k, k), v] for k, v in args.items())


def new_executor(w, from_file=False):
    if from_file:
        return Executor().set_executed_class(class_file=w.pyfile)
    return Executor().set_executed_class(class_object=w.klass)
