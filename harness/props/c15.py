"""C15 - date functions follow the Gregorian calendar.

MC   : MC_XlCalendar: the calendar oracle (era arithmetic) agrees with day-by-day / month-by-month definitions:
       CivilRoundTrip, ConsecutiveDays, Anchors, DateNormLaws, YmdInvert, EoMonthIsLast, EDateClamps, EDateStepwise,
       DateDifDefinitions, NetworkDaysLaws, for every day of a year window x month offsets -14..27.
GEN  : Gen_C15: DATE over years x months -14..27 x days -70..99 (with YEAR/MONTH/DAY of the result), EDATE/EOMONTH over
       start dates x month offsets, DATEDIF D/M/Y/YM over date pairs of a multi-year grid, NETWORKDAYS over all pairs
       of a window x all subsets of 4 holidays; every row replayed on the real pipeline by overrides (samples as cells
       / literals / public file path).
TRACE: random arguments far outside the grid (years 1901..9990) recorded from the real code, recomputed by TLC (Trace_C15).
TODAY: compared with the local date read before and after the call (no TLC involvement, DESIGN 10).
"""
import datetime
import json
import os
import random

from harness import absval, core, repo

EPOCH = datetime.datetime(1899, 12, 30)
NA = -999999
FORMS = ['=DATE(A1,B1,C1)', '=YEAR(DATE(A1,B1,C1))', '=MONTH(DATE(A1,B1,C1))', '=DAY(DATE(A1,B1,C1))',       # 0-3
         '=EDATE(D1,E1)', '=EOMONTH(D1,E1)',                                                                   # 4-5
         '=DATEDIF(F1,G1,"D")', '=DATEDIF(F1,G1,"M")', '=DATEDIF(F1,G1,"Y")', '=DATEDIF(F1,G1,"YM")',          # 6-9
         '=NETWORKDAYS(H1,I1,J1:J4)', '=NETWORKDAYS(H1,I1)', '=TODAY()']                                       # 10-12
UNITS = ['D', 'M', 'Y', 'YM']
_PROBE = None


def probe():
    global _PROBE
    if _PROBE is None:
        _PROBE = repo.Probe(FORMS)
    return _PROBE


def dt(serial):
    return EPOCH + datetime.timedelta(days=serial)


def civil(serial):
    d = dt(serial)
    return d.year, d.month, d.day


def as_int(kind, p):
    """raw result -> integer (serial for date-times at midnight) or NA"""
    if kind != 'val':
        return NA
    if isinstance(p, bool):
        return NA
    if isinstance(p, datetime.datetime):
        d = p - EPOCH
        return d.days if d.seconds == 0 and d.microseconds == 0 else NA
    if isinstance(p, int) and not absval.is_empty_cell(p):
        return p if abs(p) < 2 ** 31 else NA
    if isinstance(p, float) and p.is_integer() and abs(p) < 2 ** 31:
        return int(p)
    return NA


def show(kind, p):
    return repr(p) if kind == 'val' else f'{kind}:{type(p).__name__}: {p}'[:100]


def _row_job(rec):
    """-> list of (f, args, unit, hol, expected, observed int, raw)  for the mismatches only, plus count"""
    try:
        p = probe()
        f = rec['f']
        bad, n = [], 0
        if f == 'DATE':
            for i, exp in enumerate(rec['v']):
                if exp == -1:
                    continue
                d = rec['d0'] + i
                res = p.eval([(0, 0, 0, rec['y']), (0, 1, 0, rec['m']), (0, 2, 0, d)], idxs=range(4))
                y, m, dd = civil(exp)
                for name, e, r in zip(('DATE', 'YEAR', 'MONTH', 'DAY'), (exp, y, m, dd), res):
                    n += 1
                    if as_int(*r) != e:
                        bad.append((name, [rec['y'], rec['m'], d], '', [], e, show(*r)))
        elif f == 'EDATE':
            for k, e1, e2 in zip(rec['ks'], rec['e'], rec['eo']):
                res = p.eval([(0, 3, 0, dt(rec['s'])), (0, 4, 0, k)], idxs=(4, 5))
                for name, e, r in zip(('EDATE', 'EOMONTH'), (e1, e2), res):
                    n += 1
                    if as_int(*r) != e:
                        bad.append((name, [rec['s'], k], '', [], e, show(*r)))
        elif f == 'DATEDIF':
            for j, s2 in enumerate(rec['ends']):
                res = p.eval([(0, 5, 0, dt(rec['s'])), (0, 6, 0, dt(s2))], idxs=(6, 7, 8, 9))
                for u, r in zip(UNITS, res):
                    e = rec[u][j]
                    if e == -1 and u != 'D':
                        continue
                    n += 1
                    if as_int(*r) != e:
                        bad.append(('DATEDIF', [rec['s'], s2], u, [], e, show(*r)))
        elif f == 'NWD':
            hol = [h for h in rec['hol']]
            for i, e in enumerate(rec['v']):
                s2 = rec['n0'] + i
                ov = [(0, 7, 0, dt(rec['s'])), (0, 8, 0, dt(s2))] + [(0, 9, r, dt(h)) for r, h in enumerate(hol) if h]
                idxs = (10, 11) if not any(hol) else (10,)
                res = p.eval(ov, idxs=idxs)
                for r in res:
                    n += 1
                    if as_int(*r) != e:
                        bad.append(('NWD', [rec['s'], s2], '', [h for h in hol if h], e, show(*r)))
        return n, bad
    except Exception as e:
        return {'harness_error': f'{type(e).__name__}: {e}'}


def describe(f, a, u, h):
    if f in ('DATE', 'YEAR', 'MONTH', 'DAY'):
        inner = f'DATE({a[0]},{a[1]},{a[2]})'
        return inner if f == 'DATE' else f'{f}({inner})'
    if f in ('EDATE', 'EOMONTH'):
        return f'{f}({dt(a[0]).date()},{a[1]})'
    if f == 'DATEDIF':
        return f'DATEDIF({dt(a[0]).date()},{dt(a[1]).date()},"{u}")'
    return f'NETWORKDAYS({dt(a[0]).date()},{dt(a[1]).date()},{[str(dt(x).date()) for x in h]})'


def ideal_text(f, e):
    try:
        return str(dt(e).date()) if f in ('DATE', 'EDATE', 'EOMONTH') else str(e)
    except OverflowError:
        return f'serial {e}'


def gen(run):
    th = 'FALSE' if run.quick else 'TRUE'
    recs = []
    for kind in ('DATE', 'EDATE', 'DATEDIF', 'NWD'):
        r = run.tlc('Gen_C15', ['INIT Init', 'NEXT Next', f'CONSTANT Kind = "{kind}"', f'CONSTANT Thorough = {th}'], workers=4, timeout=3000,
                    tag='Gen_C15_' + kind, heap='8g')
        recs += r.records
        run.exhaustive[kind + ' grid'] = True
    res = core.pmap(_row_job, recs, chunksize=2)
    for rec, out in zip(recs, res):
        if isinstance(out, dict):
            raise core.MachineryError(out['harness_error'])
        n, bad = out
        run.evaluations += n
        run.traces_validated += n
        run.parts[rec['f']] = run.parts.get(rec['f'], 0) + n
        key = {k: rec[k] for k in ('f', 'y', 'm', 's', 'hol') if k in rec}
        if not bad:
            run.judge({'in': key, 'obs': f'{n} results equal the calendar oracle', 'kind': 'gen_row'}, True, part='gen_rows')
            run.evaluations -= 1
        for (f, a, u, h, e, raw) in bad[:4]:
            case = {'in': {'f': f, 'a': a, 'u': u, 'h': h, 'mode': 'ovr'}, 'ideal': ideal_text(f, e), 'obs': raw, 'kind': 'gen'}
            run.judge(case, False, clause=f'{describe(f, a, u, h)} = {raw}, the calendar gives {case["ideal"]}', part='gen')
    samples(run, recs)


def samples(run, recs):
    """DATE and DATEDIF as workbook cells and literals, and through the public file path."""
    rng = random.Random(run.seed + 15)
    k = 150 if run.quick else 1500
    cases = []
    for rec in recs:
        if rec['f'] == 'DATE':
            for i, exp in enumerate(rec['v']):
                if exp != -1:
                    cases.append(('DATE', [rec['y'], rec['m'], rec['d0'] + i], exp))
    cases = rng.sample(cases, min(k, len(cases)))
    forms, cells = [], {}
    for i, (_, a, exp) in enumerate(cases):
        forms.append(f'=DATE({a[0]},{a[1]},{a[2]})')
        forms.append(f'=DAY(DATE(A{i + 1},B{i + 1},C{i + 1}))')
        cells[(0, i)], cells[(1, i)], cells[(2, i)] = a
    res = repo.Probe(forms, cells).eval()
    for i, (f, a, exp) in enumerate(cases):
        for mode, e, r in (('lit', exp, res[2 * i]), ('cell', civil(exp)[2], res[2 * i + 1])):
            ok = as_int(*r) == e
            case = {'in': {'f': 'DATE' if mode == 'lit' else 'DAY', 'a': a, 'u': '', 'h': [], 'mode': mode}, 'ideal': str(e), 'obs': show(*r), 'kind': 'sample'}
            run.judge(case, ok, clause=f'{describe(case["in"]["f"], a, "", [])} (arguments as {mode}) = {show(*r)}, the calendar gives {ideal_text(case["in"]["f"], e)}',
                      part='sample_' + mode)
            run.traces_validated += 1
    # public path: date-time constants in cells, all function families
    sheet = {}
    pp = cases[:40 if run.quick else 200]
    want = []
    for i, (_, a, exp) in enumerate(pp):
        sheet[(0, i)], sheet[(1, i)], sheet[(2, i)] = a
        sheet[(3, i)] = f'=DATE(A{i + 1},B{i + 1},C{i + 1})'
        sheet[(4, i)] = dt(exp)
        sheet[(5, i)] = f'=EOMONTH(E{i + 1},{a[1]})'
        sheet[(6, i)] = f'=DATEDIF(E{i + 1},EDATE(E{i + 1},7),"M")'
        want += [((0, 3, i), exp, 'DATE'), ((0, 5, i), None, 'EOMONTH'), ((0, 6, i), None, 'DATEDIF')]
    res = repo.public_path_eval(run.scratch, [('S', sheet)], [w[0] for w in want], tag='c15pp')
    evs = []
    for (pos, e, f), r, idx in zip(want, res, range(len(want))):
        i = pos[2]
        a, exp = pp[i][1], pp[i][2]
        if f == 'DATE':
            evs.append({'f': 'DATE', 'a': a, 'u': '', 'h': [], 'obs': as_int(*r), 'raw': show(*r)})
        elif f == 'EOMONTH':
            if not 1902 <= dt(exp).year + a[1] // 12 <= 9997:
                continue
            evs.append({'f': 'EOMONTH', 'a': [exp, a[1]], 'u': '', 'h': [], 'obs': as_int(*r), 'raw': show(*r)})
        else:
            d = dt(exp)
            if d.day <= 28:          # EDATE(x,7) keeps the day: complete months = 7
                evs.append({'f': 'DATEDIF7', 'a': [exp], 'u': 'M', 'h': [], 'obs': as_int(*r), 'raw': show(*r)})
    judge_events(run, [e for e in evs if e['f'] != 'DATEDIF7'], 'public_path')
    for e in evs:
        if e['f'] == 'DATEDIF7':
            run.judge({'in': e, 'obs': e['raw'], 'kind': 'public_path'}, e['obs'] == 7,
                      clause=f'DATEDIF(d, EDATE(d,7), "M") for d={dt(e["a"][0]).date()} = {e["raw"]}, 7 complete months', part='public_path')


# ---------------------------------------------------------------- direction B
def validate(run, events, tag='Trace_C15'):
    from harness.tlc import parse_tuple
    verdicts = {}
    base = 0
    for pi, part in enumerate(core.chunks(events, 20000)):
        path = os.path.join(run.scratch, f'{tag}_{pi}.json')
        json.dump({'events': [{k: e[k] for k in ('f', 'a', 'u', 'h', 'obs')} for e in part]}, open(path, 'w'))
        r = run.tlc('Trace_C15', ['SPECIFICATION Spec'], workers=1, timeout=1800, env={'TRACE_FILE': path}, tag=f'{tag}_{pi}')
        done = False
        for t in r.tuples:
            v = parse_tuple(t)
            if v[0] == 'V':
                verdicts[base + v[1]] = v[2]
            elif v[0] == 'DONE' and v[1] == len(part) + 1:
                done = True
        if not done:
            raise core.MachineryError(f'{tag}: not all events consumed')
        base += len(part)
    return verdicts


def judge_events(run, evs, part):
    verdicts = validate(run, evs, tag='Trace_C15_' + part)
    for i, e in enumerate(evs):
        v = verdicts.get(i + 1)
        case = {'in': {'f': e['f'], 'a': e['a'], 'u': e['u'], 'h': e['h'], 'mode': 'ovr'}, 'obs': e['raw'], 'kind': part}
        if e.get('before'):
            case['in']['before'] = e['before']       # evaluated earlier on the same Executor
        if v is not None:
            case['ideal'] = ideal_text(e['f'], v)
        run.judge(case, v is None, clause=f"Trace_C15: {describe(e['f'], e['a'], e['u'], e['h'])} = {e['raw']}, the calendar gives {case.get('ideal')}", part=part)
        run.traces_validated += 1


def _trace_job(seeds):
    try:
        p = probe()
        out = []
        lo, hi = (datetime.datetime(1901, 1, 1) - EPOCH).days, (datetime.datetime(9990, 1, 1) - EPOCH).days
        for sd in seeds:
            rng = random.Random(sd)
            x = rng.random()
            if x < 0.35:
                y, m, d = rng.randint(1905, 9900), rng.randint(-600, 600), rng.randint(-9000, 9000)
                res = p.eval([(0, 0, 0, y), (0, 1, 0, m), (0, 2, 0, d)], idxs=range(4))
                for name, r in zip(('DATE', 'YEAR', 'MONTH', 'DAY'), res):
                    out.append({'f': name, 'a': [y, m, d], 'u': '', 'h': [], 'obs': as_int(*r), 'raw': show(*r)})
            elif x < 0.55:
                s, k = rng.randint(lo + 40000, hi - 40000), rng.randint(-1000, 1000)
                res = p.eval([(0, 3, 0, dt(s)), (0, 4, 0, k)], idxs=(4, 5))
                for name, r in zip(('EDATE', 'EOMONTH'), res):
                    out.append({'f': name, 'a': [s, k], 'u': '', 'h': [], 'obs': as_int(*r), 'raw': show(*r)})
            elif x < 0.8:
                s1 = rng.randint(lo, hi - 40000)
                s2 = s1 + rng.choice([rng.randint(0, 40), rng.randint(0, 800), rng.randint(0, 36000)])
                res = p.eval([(0, 5, 0, dt(s1)), (0, 6, 0, dt(s2))], idxs=(6, 7, 8, 9))
                for u, r in zip(UNITS, res):
                    out.append({'f': 'DATEDIF', 'a': [s1, s2], 'u': u, 'h': [], 'obs': as_int(*r), 'raw': show(*r)})
            else:
                s1 = rng.randint(lo, hi)
                s2 = s1 + rng.randint(-120, 120)
                hol = sorted({min(s1, s2) + rng.randint(-3, 125) for _ in range(rng.randint(0, 4))})
                if hol and len(hol) < 4 and rng.random() < 0.4:
                    # a date listed twice is one holiday; the list need not be sorted (the specification takes the SET of the list)
                    hol = hol + [rng.choice(hol) for _ in range(rng.randint(1, 4 - len(hol)))]
                    rng.shuffle(hol)
                ov = [(0, 7, 0, dt(s1)), (0, 8, 0, dt(s2))] + [(0, 9, r, dt(h)) for r, h in enumerate(hol)]
                r = p.eval(ov, idxs=(10,))[0]
                out.append({'f': 'NWD', 'a': [s1, s2], 'u': '', 'h': hol, 'obs': as_int(*r), 'raw': show(*r)})
        return out
    except Exception as e:
        return {'harness_error': f'{type(e).__name__}: {e}'}


def _session_job(seeds):
    """SEQUENCES on one Executor: the date helpers are functions of their arguments, so an evaluation may not depend on what the same
    instance evaluated before. Triples that denote different days but share digits (y, m + k, d - 100k) follow one another."""
    try:
        ses = probe().session()
        out = []
        lo, hi = (datetime.datetime(1901, 1, 1) - EPOCH).days, (datetime.datetime(9990, 1, 1) - EPOCH).days
        for sd in seeds:
            rng = random.Random(sd)
            y, m, d = rng.randint(1905, 9900), rng.randint(-20, 40), rng.randint(-400, 400)
            triples = [(y, m, d)]
            for k in rng.sample([-3, -2, -1, 1, 2, 3], 3):
                triples.append((y, m + k, d - 100 * k))
                triples.append((y + k, m - 12 * k, d))
                triples.append((y + k, m, d - 366 * k))
            triples.append((y, m, d))
            for ti, (a, b, c) in enumerate(triples):
                res = ses.eval([(0, 0, 0, a), (0, 1, 0, b), (0, 2, 0, c)], idxs=range(4))
                for name, r in zip(('DATE', 'YEAR', 'MONTH', 'DAY'), res):
                    out.append({'f': name, 'a': [a, b, c], 'u': '', 'h': [], 'obs': as_int(*r), 'raw': show(*r), 'before': [list(t) for t in triples[:ti]]})
            s0 = rng.randint(lo + 40000, hi - 40000)
            for k in (rng.randint(-30, 30), rng.randint(-30, 30)):
                for s1 in (s0, s0 + 1, s0):
                    res = ses.eval([(0, 3, 0, dt(s1)), (0, 4, 0, k), (0, 5, 0, dt(s1)), (0, 6, 0, dt(s1 + abs(k) * 17))], idxs=(4, 5, 6, 7, 8, 9))
                    for name, r in zip(('EDATE', 'EOMONTH'), res[:2]):
                        out.append({'f': name, 'a': [s1, k], 'u': '', 'h': [], 'obs': as_int(*r), 'raw': show(*r)})
                    for u, r in zip(UNITS, res[2:]):
                        out.append({'f': 'DATEDIF', 'a': [s1, s1 + abs(k) * 17], 'u': u, 'h': [], 'obs': as_int(*r), 'raw': show(*r)})
        return out
    except Exception as e:
        return {'harness_error': f'{type(e).__name__}: {e}'}


def sessions(run):
    n = 160 if run.quick else 4000
    seeds = [run.seed * 7000003 + i for i in range(n)]
    outs = core.pmap(_session_job, core.chunks(seeds, 10), chunksize=1)
    evs = []
    for o in outs:
        if isinstance(o, dict):
            raise core.MachineryError(o['harness_error'])
        evs += o
    judge_events(run, evs, 'session')


def trace(run):
    n = 1500 if run.quick else 40000
    seeds = [run.seed * 1000033 + i for i in range(n)]
    outs = core.pmap(_trace_job, core.chunks(seeds, 100), chunksize=1)
    evs = []
    for o in outs:
        if isinstance(o, dict):
            raise core.MachineryError(o['harness_error'])
        evs += o
    judge_events(run, evs, 'trace')


def today(run):
    """TODAY() is the LOCAL calendar date at midnight: evaluated under the process's own time zone and under two zones fourteen
    hours ahead of and twelve hours behind UTC (at every instant one of them has a local date different from the UTC date)"""
    import time
    p = probe()
    saved = os.environ.get('TZ')
    zones = [None, 'AAA-14', 'BBB12', None]
    for z in zones:
        if z is not None:
            os.environ['TZ'] = z
        elif saved is None:
            os.environ.pop('TZ', None)
        else:
            os.environ['TZ'] = saved
        time.tzset()
        before = datetime.date.today()
        kind, v = p.eval(None, idxs=(12,))[0]
        after = datetime.date.today()
        ok = kind == 'val' and isinstance(v, datetime.datetime) and (v.hour, v.minute, v.second, v.microsecond) == (0, 0, 0, 0) \
            and v.date() in (before, after)
        run.judge({'in': {'f': 'TODAY', 'tz': z or 'process default'}, 'obs': show(kind, v), 'ideal': str(before), 'kind': 'today'}, ok,
                  clause=f'TODAY() = {show(kind, v)}, local date {before} (TZ={z or "process default"})', nontrivial=z is not None, part='today')
    if saved is None:
        os.environ.pop('TZ', None)
    else:
        os.environ['TZ'] = saved
    time.tzset()


def check(run):
    run.rule = ('rows of the calendar grids enumerated by TLC (DATE: years x months -14..27 x days -70..99 with YEAR/MONTH/DAY of the result; '
                'EDATE/EOMONTH: start dates x month offsets; DATEDIF D/M/Y/YM: ordered date pairs; NETWORKDAYS: pairs of a window x all subsets '
                'of 4 holidays) replayed by overrides; samples as cells, literals and through the public file path; random arguments far outside '
                'the grid judged by Trace_C15. One evaluation = one formula result; a row is non-trivial.')
    run.assumptions += ['results before 1900-03-01 or after 9999-12-31, month steps that leave the years 1..9999 on the way (DATE(9998,25,-70)) and two-digit years are not generated (the statement does not pin them)',
                        'a month counts as complete when the start day of the month is reached again (Excel: Jan 31 -> Feb 28 is 0 months)',
                        'TODAY is compared with the system clock, not by TLC']
    y0, y1 = (2023, 2024) if run.quick else (1999, 2001)
    inv = ['CivilRoundTrip', 'ConsecutiveDays', 'Anchors', 'DateNormLaws', 'YmdInvert', 'EoMonthIsLast', 'EDateClamps', 'EDateStepwise',
           'DateDifDefinitions', 'NetworkDaysLaws']
    run.tlc('MC_XlCalendar', ['INIT Init', 'NEXT Next', f'CONSTANT Y0 = {y0}', f'CONSTANT Y1 = {y1}'] + ['INVARIANT ' + i for i in inv],
            workers=8, timeout=1800)
    if not run.quick:
        for (a, b) in ((1900, 1900), (2100, 2100), (9990, 9990)):
            run.tlc('MC_XlCalendar', ['INIT Init', 'NEXT Next', f'CONSTANT Y0 = {a}', f'CONSTANT Y1 = {b}'] + ['INVARIANT ' + i for i in inv],
                    workers=8, timeout=1800, tag=f'MC_XlCalendar_{a}')
    gen(run)
    trace(run)
    sessions(run)
    today(run)


def replay(run, case):
    i = case['in']
    if i.get('f') == 'TODAY':
        today(run)
        return
    p = probe()
    f, a = i['f'], i['a']
    if f in ('DATE', 'YEAR', 'MONTH', 'DAY') and i.get('before'):
        ses = p.session()
        for t in i['before']:
            ses.eval([(0, 0, 0, t[0]), (0, 1, 0, t[1]), (0, 2, 0, t[2])], idxs=range(4))
        r = ses.eval([(0, 0, 0, a[0]), (0, 1, 0, a[1]), (0, 2, 0, a[2])], idxs=(('DATE', 'YEAR', 'MONTH', 'DAY').index(f),))[0]
    elif f in ('DATE', 'YEAR', 'MONTH', 'DAY'):
        r = p.eval([(0, 0, 0, a[0]), (0, 1, 0, a[1]), (0, 2, 0, a[2])], idxs=(('DATE', 'YEAR', 'MONTH', 'DAY').index(f),))[0]
    elif f in ('EDATE', 'EOMONTH'):
        r = p.eval([(0, 3, 0, dt(a[0])), (0, 4, 0, a[1])], idxs=(4 if f == 'EDATE' else 5,))[0]
    elif f == 'DATEDIF':
        r = p.eval([(0, 5, 0, dt(a[0])), (0, 6, 0, dt(a[1]))], idxs=(6 + UNITS.index(i['u']),))[0]
    else:
        ov = [(0, 7, 0, dt(a[0])), (0, 8, 0, dt(a[1]))] + [(0, 9, r0, dt(h)) for r0, h in enumerate(i['h'])]
        r = p.eval(ov, idxs=(10,))[0]
    judge_events(run, [{'f': f, 'a': a, 'u': i.get('u', ''), 'h': i.get('h', []), 'obs': as_int(*r), 'raw': show(*r)}], 'replay')
