"""E2PW - the whole pipeline (spec/E2PW.tla, Trace_E2PW.tla): a workbook file that is REPLACED under its path, one Parser, the class
file it writes, and executors made from the file or from the returned text while the file keeps changing.

Part of the C09 check (the text corresponds to the file as it was when the Parser last had a reason to read it; repeated requests return
the identical text; the written file equals the returned text) and, through the executors, of C04 / C06 (an executor reports the
workbook OF ITS TRANSLATION (+) its own overrides, whatever is translated, written or loaded afterwards).

MC   : MC_E2PW (ExecutorKeepsItsWorkbook, PipelineLeavesOverridesAlone, TextStableUntilAnnounced, TextIsCurrentAfterAnnounce,
       FileEqualsText, VersionsDiffer); E2PWImpl variant "fixed" refines E2PW, variants "module_cache", "mtime_cache", "write_skips" must NOT.
GEN  : every history of 5 (thorough: 6) pipeline steps that replaces the file and makes an executor (Gen_E2PW), replayed on the real Parser,
       a real file and real executors, compared after every step.
TRACE: random histories of replace / announce / text / write / new (file | text) / drop / set / get / sizes on the real Parser and real
       executors, judged by Trace_E2PW. The version a text or a class file was translated from is observed through the marker cell
       S1!A1 of a throw-away instance (3 = version 1, 7 = version 2).
"""
import json
import os
import random

from harness import core, repo
from harness.props import exec_common as xc

BASE = {1: {}, 2: {'S1A1': 7, 'S2C3': 9}}
MARK = {3: 1, 7: 2}


def mc(run):
    r = run.tlc('MC_E2PW', ['SPECIFICATION Spec', 'CONSTANTS Execs = {1,2} WCoords = {"S1A1","S2C3"} Values = {4}', 'PROPERTY ExecutorKeepsItsWorkbook',
                            'PROPERTY PipelineLeavesOverridesAlone', 'PROPERTY TextStableUntilAnnounced', 'PROPERTY TextIsCurrentAfterAnnounce',
                            'PROPERTY FileEqualsText', 'INVARIANT VersionsDiffer'], workers=8, timeout=1500, coverage=True, tag='MC_E2PW')
    run.vacuity(r, ['Replace', 'Announce', 'GetText', 'WriteFile', 'NewFromFile', 'NewFromText', 'Drop', 'Set', 'Get', 'GetSizes'])
    # the code-shaped pipeline (cached text + flag, class file on disk, load_module, instances) refines the ideal one; three deviating
    # variants (a module cache by path, a setter that trusts an unchanged path, a write that is skipped) must not
    ci = f'CONSTANTS Execs = {"{1}" if run.quick else "{1,2}"} WCoords = {{"S1A1","S2C3"}} Values = {{4}}'
    r = run.tlc('MC_E2PWImpl', ['SPECIFICATION Spec', ci, 'CONSTANT Variant = "fixed"', 'PROPERTY Refines'], workers=8, timeout=3000, tag='MC_E2PWImpl_fixed', coverage=True)
    run.vacuity(r, ['Replace', 'Announce', 'GetText', 'WriteFile', 'NewFromFile', 'NewFromText'])
    for variant in ('module_cache', 'mtime_cache', 'write_skips'):
        rv = run.tlc('MC_E2PWImpl', ['SPECIFICATION Spec', 'CONSTANTS Execs = {1} WCoords = {"S1A1"} Values = {4}', f'CONSTANT Variant = "{variant}"', 'PROPERTY Refines'],
                     workers=4, timeout=900, tag=f'MC_E2PWImpl_{variant}', expect_ok=False)
        if rv.ok:
            raise core.MachineryError(f'the pipeline model with variant {variant} unexpectedly refines the ideal pipeline')
        run.notes.append(f'pipeline model, variant {variant}: {rv.violated} violated after {len(rv.error_trace)} states (expected)')


def apalache(run):
    """The version bookkeeping of the pipeline (ApaPipeline.tla, typed) has an INDUCTIVE invariant: Init => IndInv, IndInv /\\ Next => IndInv',
    IndInv => Safety - for steps of any history, with three executors (Apalache; TLC explores bounded histories only)."""
    import shutil
    import subprocess
    exe = shutil.which('apalache-mc')
    if not exe:
        run.notes.append('apalache-mc is not on PATH: the inductive-invariant obligations of ApaPipeline were skipped')
        return
    spec_dir = os.path.join(os.path.dirname(os.path.dirname(os.path.dirname(os.path.abspath(__file__)))), 'spec')
    work = os.path.join(run.scratch, 'apalache')
    os.makedirs(work, exist_ok=True)
    for f in ('ApaPipeline.tla', 'MC_ApaPipeline.tla'):
        shutil.copy(os.path.join(spec_dir, f), work)
    for name, args in (('Init => IndInv', ['--init=Init', '--inv=IndInv', '--length=0']),
                       ("IndInv /\\ Next => IndInv'", ['--init=IndInv', '--inv=IndInv', '--length=1']),
                       ('IndInv => Safety', ['--init=IndInv', '--inv=Safety', '--length=0'])):
        try:
            pr = subprocess.run([exe, 'check'] + args + ['--out-dir=' + os.path.join(work, 'out'), 'MC_ApaPipeline.tla'], cwd=work, stdout=subprocess.PIPE,
                                stderr=subprocess.STDOUT, text=True, timeout=600)
        except subprocess.TimeoutExpired:
            run.notes.append(f'Apalache: {name}: no answer within 600 s (obligation not decided in this run)')
            continue
        if 'EXITCODE: OK' in pr.stdout:
            run.notes.append(f'Apalache: {name} holds (ApaPipeline, 3 executors)')
        elif 'EXITCODE: ERROR (12)' in pr.stdout:          # a counterexample: the specification is wrong
            raise core.MachineryError(f'Apalache: obligation {name} of ApaPipeline has a counterexample: ' + pr.stdout[-400:])
        else:                                                # the tool could not run here (environment): reinforcement only, TLC has decided the bounded instance
            run.notes.append(f'Apalache: {name}: the tool gave no verdict here ({pr.stdout.strip().splitlines()[-1][:120] if pr.stdout.strip() else "no output"})')
    shutil.rmtree(os.path.join(work, 'out'), ignore_errors=True)


def version_of_text(text, pos):
    inst = repo.load_class(text)()
    s, c, r = pos['S1A1']
    return MARK.get(inst.exec_function_in(f'_{s - 1}_{c - 1}_{r - 1}'), -1)


def version_of_file(pyfile, pos):
    ex = repo.Executor().set_executed_class(class_file=pyfile)
    s, c, r = pos['S1A1']
    return MARK.get(ex.get_cell(repo.Cell(s - 1, c - 1, r - 1)).value, -1)


def record(wbj, scratch, tag, rng, n):
    pos = wbj['pos']
    names = sorted(pos)
    wnames = ['S1A1', 'S1B2', 'S1A2', 'S1F4', 'S2B1', 'S2C3']
    xlsx = os.path.join(scratch, f'e2pw_{tag}.xlsx')
    py = os.path.join(scratch, f'e2pw_{tag}_gen.py')
    for f in (xlsx, py):
        if os.path.exists(f):
            os.remove(f)
    repo.write_xlsx(xlsx, xc.sheets_from_spec(wbj, BASE[1]))
    parser = repo.Parser().set_excel_file_path(xlsx)
    tr, exs = [], {}
    text, written = None, False
    for _ in range(n):
        x = rng.random()
        live = sorted(exs)
        if x < 0.10:
            v = rng.choice([1, 2])
            repo.write_xlsx(xlsx, xc.sheets_from_spec(wbj, BASE[v]))
            tr.append({'ev': 'replace', 'v': v})
        elif x < 0.18:
            parser.set_excel_file_path(xlsx)
            tr.append({'ev': 'announce'})
        elif x < 0.26:
            try:
                text = parser.get_translation()
            except Exception as e:  # noqa - the workbook is translatable: a request that raises is an observation (version -3), judged by the specification
                tr.append({'ev': 'text', 'ver': -3, 'raised': f'{type(e).__name__}: {e}'[:120]})
                break
            tr.append({'ev': 'text', 'ver': version_of_text(text, pos)})
        elif x < 0.34:
            try:
                parser.write_translation(py)
                text = parser.get_translation()
            except Exception as e:  # noqa
                tr.append({'ev': 'write', 'ver': -3, 'filever': -3, 'raised': f'{type(e).__name__}: {e}'[:120]})
                break
            written = True
            tr.append({'ev': 'write', 'ver': version_of_text(text, pos), 'filever': version_of_file(py, pos) if open(py, encoding='utf-8').read() == text else -2})
        elif x < 0.46 and len(live) < 3 and (written or text is not None):
            i = rng.choice([k for k in (1, 2, 3) if k not in exs])
            how = rng.choice([h for h, ok in (('file', written), ('text', text is not None)) if ok])
            exs[i] = repo.Executor().set_executed_class(class_file=py) if how == 'file' else repo.Executor().set_executed_class(class_object=repo.load_class(text))
            tr.append({'ev': 'new', 'x': i, 'how': how, 'res': xc.q_sizes(exs[i])})
        elif not live:
            continue
        elif x < 0.50:
            i = rng.choice(live)
            del exs[i]
            tr.append({'ev': 'drop', 'x': i})
        elif x < 0.68:
            i = rng.choice(live)
            c, v = rng.choice(wnames), rng.choice([2, 4, 6, 12])
            exs[i].set_cells([xc.mk_cell(pos[c], v, rng.randint(0, 3))])
            tr.append({'ev': 'set', 'x': i, 'c': c, 'v': v})
        elif x < 0.92:
            i = rng.choice(live)
            c = rng.choice(names)
            tr.append({'ev': 'get', 'x': i, 'c': c, 'res': xc.q_get(exs[i], pos[c], rng.randint(0, 3))})
        else:
            i = rng.choice(live)
            tr.append({'ev': 'sizes', 'x': i, 'res': xc.q_sizes(exs[i])})
    tr.append({'ev': 'announce'})          # (the last event of a trace is not judged: a closing step)
    return tr


_ARGS = None


def _tjob(args):
    seed, n = args
    wbj, scratch = _ARGS
    try:
        return record(wbj, scratch, f'{os.getpid()}', random.Random(seed), n)
    except Exception as e:  # noqa
        import traceback
        return {'harness_error': f'{type(e).__name__}: {e} {traceback.format_exc()[-400:]}'}


def validate(run, traces, tag='Trace_E2PW'):
    from harness.tlc import parse_tuple
    path = os.path.join(run.scratch, tag + '.json')
    json.dump({'traces': traces}, open(path, 'w'))
    r = run.tlc('Trace_E2PW', ['SPECIFICATION Spec'], workers=1, timeout=1500, env={'TRACE_FILE': path}, tag=tag)
    rejected, done = {}, False
    for t in r.tuples:
        v = parse_tuple(t)
        if v[0] == 'REJECT':
            rejected[v[1]] = (v[2], v[3])
        elif v[0] == 'DONE' and v[1] == len(traces) + 1:
            done = True
    if not done:
        raise core.MachineryError(f'{tag}: not all traces consumed')
    return rejected


def trace(run):
    global _ARGS
    wbj = xc.spec_workbook(run)
    _ARGS = (wbj, run.scratch)
    n, ln = (60, 40) if run.quick else (800, 60)
    seeds = [run.seed * 100069 + i for i in range(n)]
    traces = core.pmap(_tjob, [(s, ln) for s in seeds])
    for t in traces:
        if isinstance(t, dict):
            raise core.MachineryError(t['harness_error'])
    rej = validate(run, traces)
    for i, tr in enumerate(traces):
        rj = rej.get(i + 1)
        case = {'in': {'pipeline_seed': seeds[i], 'len': ln}, 'kind': 'e2pw_trace', 'obs': tr[:rj[0]] if rj else 'accepted'}
        run.judge(case, rj is None, clause=f'Trace_E2PW rejected event {rj[0]}: {rj[1]}' if rj else '', part='e2pw_trace',
                  nontrivial=any(e['ev'] == 'replace' for e in tr) and any(e['ev'] == 'new' for e in tr))
        run.traces_validated += 1


# ------------------------------------------------------------------ direction A
def replay(wbj, scratch, tag, h, rng):
    """one Gen_E2PW history on the real Parser / file / executors. -> (ok, clause)"""
    from harness.props import c04
    pos = wbj['pos']
    xlsx = os.path.join(scratch, f'e2pwg_{tag}.xlsx')
    py = os.path.join(scratch, f'e2pwg_{tag}_gen.py')
    for f in (xlsx, py):
        if os.path.exists(f):
            os.remove(f)
    repo.write_xlsx(xlsx, xc.sheets_from_spec(wbj, BASE[1]))
    parser = repo.Parser().set_excel_file_path(xlsx)
    exs, text = {}, None
    for n, step in enumerate(h):
        a = step['a']
        op = a['op']
        where = f"step {n + 1} ({op}{' ' + str(a['v']) if op == 'replace' else ''}) of {[s['a']['op'] + (str(s['a']['v']) if s['a']['op'] == 'replace' else '') for s in h]}"
        try:
            if op == 'replace':
                repo.write_xlsx(xlsx, xc.sheets_from_spec(wbj, BASE[a['v']]))
            elif op == 'announce':
                parser.set_excel_file_path(xlsx)
            elif op == 'text':
                text = parser.get_translation()
                got = version_of_text(text, pos)
                if got != step['text']:
                    return False, f'{where}: the returned text is the translation of version {got}, the specification says version {step["text"]}'
            elif op == 'write':
                parser.write_translation(py)
                text = parser.get_translation()
                got, gotf = version_of_text(text, pos), version_of_file(py, pos)
                if got != step['text'] or gotf != step['written'] or open(py, encoding='utf-8').read() != text:
                    return False, f'{where}: text of version {got}, class file of version {gotf} (equal to the text: {open(py, encoding="utf-8").read() == text}); the specification says {step["text"]} / {step["written"]}'
            elif op == 'newfile':
                exs[a['x']] = repo.Executor().set_executed_class(class_file=py)
            elif op == 'newtext':
                exs[a['x']] = repo.Executor().set_executed_class(class_object=repo.load_class(text))
            elif op == 'drop':
                del exs[a['x']]
            elif op == 'set':
                exs[a['x']].set_cells([xc.mk_cell(pos[a['c']], a['v'], rng.randint(0, 3))])
        except repo.E2PyclException as e:
            return False, f'{where}: raises {type(e).__name__}: {e}'[:300]
        for i, e in enumerate(step['after']):
            if not e['live']:
                continue
            ex = exs[i + 1]
            for item in e['snap']['vals']:
                got = xc.q_get(ex, pos[item['c']], rng.randint(0, 3))
                if not c04.same_small(got, item['v']):
                    return False, f"{where}: executor {i + 1}: get {item['c']} = {got}, (workbook of its translation (+) its overrides) gives {item['v']}"
            z = xc.q_sizes(ex)
            if z != e['snap']['sizes']:
                return False, f"{where}: executor {i + 1}: sizes {z}, the specification gives {e['snap']['sizes']}"
    return True, ''


def _gjob(args):
    h, seed = args
    wbj, scratch = _ARGS
    try:
        return replay(wbj, scratch, f'{os.getpid()}', h, random.Random(seed))
    except Exception as e:  # noqa
        import traceback
        return None, f'harness: {type(e).__name__}: {e} {traceback.format_exc()[-300:]}'


def gen(run):
    global _ARGS
    wbj = xc.spec_workbook(run)
    _ARGS = (wbj, run.scratch)
    depth = 5 if run.quick else 6
    r = run.tlc('Gen_E2PW', ['INIT GInit', 'NEXT GNext', f'CONSTANTS Execs = {{1,2}} WCoords = {{"S2C3"}} Values = {{4}} Depth = {depth}', 'CHECK_DEADLOCK FALSE'],
                workers=4, timeout=3000, tag='Gen_E2PW', heap='6g')
    hists = [rec['h'] for rec in r.records]
    if not hists:
        raise core.MachineryError('Gen_E2PW produced no history')
    run.exhaustive[f'all pipeline histories of {depth} steps (replace / announce / text / write / new from file / new from text / drop / set) that replace the file and make an executor'] = True
    res = core.pmap(_gjob, [(h, run.seed * 7927 + i) for i, h in enumerate(hists)])
    for h, (ok, clause) in zip(hists, res):
        if ok is None:
            raise core.MachineryError(clause)
        case = {'in': {'pipeline': [s['a'] for s in h]}, 'kind': 'e2pw_history', 'obs': clause or 'every step as the specification says'}
        run.judge(case, ok, clause=clause, part='e2pw_gen', nontrivial=True)
        run.traces_validated += 1


def check(run):
    mc(run)
    apalache(run)
    gen(run)
    trace(run)
