"""C14 - lookup and reference functions return the addressed element.

MC   : MC_XlLookup: ExactIsFirst, ExactLastIsLast, ApproxIsMaxLE, ApproxAboveAll, ApproxExtendsExact, IndexMatchPartner over all key
       columns <= L x lookup values; ColBijectiveAll (letters <-> number for every column 1..16384), AddressAnchors.
GEN  : Gen_C14: every key column x lookup value (numbers: ascending / unsorted / duplicates; texts) with the rows the
       exact, from-the-end and approximate modes must return; INDEX over all (r, c) of 9 area shapes; ADDRESS for all 16384
       columns x 3 rows; COLUMN for column spellings and the formula's own cell. Replayed by overrides on probe workbooks.
TRACE: random longer key columns recorded from the real code, recomputed by TLC (Trace_C14).
"""
import json
import os
import random

from harness import absval, core, repo

NA, OOS, REF, ERR, OTHER = -1, -2, -3, -4, -9
NMAX = 5
_P = {}


def lookup_forms(n):
    return [f'=VLOOKUP(E1,A1:C{n},2,FALSE)', f'=VLOOKUP(E1,A1:C{n},3,FALSE)', f'=VLOOKUP(E1,A1:C{n},2,0)',      # 0-2 exact
            f'=VLOOKUP(E1,A1:C{n},2,TRUE)', f'=VLOOKUP(E1,A1:C{n},2)', f'=VLOOKUP(E1,A1:C{n},2,1)',             # 3-5 approx
            f'=MATCH(E1,A1:A{n},0)', f'=MATCH(E1,A1:A{n},1)', f'=MATCH(E1,A1:A{n})',                            # 6 exact, 7-8 approx
            f'=XMATCH(E1,A1:A{n})', f'=XMATCH(E1,A1:A{n},0,1)', f'=XMATCH(E1,A1:A{n},0,-1)',                    # 9-10 exact first, 11 last
            f'=INDEX(B1:B{n},MATCH(E1,A1:A{n},0))', f'=INDEX(A1:C{n},MATCH(E1,A1:A{n},0),3)',                   # 12-13 partner
            f'=VLOOKUP(E1,A1:C{n},6/2,FALSE)', f'=VLOOKUP(E1,A1:C{n},4/2,TRUE)']                                # 14-15 the result column as the result of a division (a float)
# which ideal field each formula must equal
WANT = ['v2', 'v3', 'v2', 'a2', 'a2', 'a2', 'ef', 'ap', 'ap', 'ef', 'ef', 'el', 'v2', 'v3', 'v3', 'a2']


def probe(n):
    if n not in _P:
        consts = {}
        for i in range(n):
            consts[(1, i)] = 100 * (i + 1) + 2
            consts[(2, i)] = 100 * (i + 1) + 3
        _P[n] = repo.Probe(lookup_forms(n), consts)
    return _P[n]


def code(kind, p):
    """raw result -> integer code"""
    if kind != 'val':
        return ERR if kind == 'eexc' else OTHER
    if isinstance(p, bool) or absval.is_empty_cell(p):
        return OTHER
    if isinstance(p, int):
        return p
    if isinstance(p, float) and p.is_integer():
        return int(p)
    if isinstance(p, str):
        return {'#N/A': NA, '#REF!': REF}.get(p, ERR if p in absval.ERRS else OTHER)
    return OTHER


def show(kind, p):
    return repr(p) if kind == 'val' else f'raises {type(p).__name__}: {p}'[:90]


def keyval(k):
    """spec keys / lookup values: texts as code lists; numbers in HALF units (20 -> 10, 51 -> 25.5)"""
    if isinstance(k, list):
        return ''.join(chr(c) for c in k)
    return k // 2 if k % 2 == 0 else k / 2


def conforms(exp, got):
    if exp == OOS:
        return True
    if exp == ERR:
        return got in (ERR, NA, REF)
    return exp == got


def ideal_text(x):
    return {NA: '#N/A', REF: '#REF!', ERR: 'an error value'}.get(x, str(x))


def _lookup_job(recs):
    try:
        out = []
        for rec in recs:
            keys = [keyval(k) for k in rec['keys']]
            p = probe(len(keys))
            bad, n = [], 0
            for v0, row in zip(rec['vals'], rec['rows']):
                v0 = keyval(v0)
                # an integral lookup value is also supplied as a float (20.0 equals the key 20); keys also as floats
                variants = [(keys, v0)]
                if isinstance(v0, int):
                    variants += [(keys, float(v0)), ([float(k) for k in keys], v0)]
                for ks, v in variants:
                    ov = [(0, 0, i, k) for i, k in enumerate(ks) if k != 0] + [(0, 4, 0, v)]        # key 0 = a blank cell of the key range
                    res = p.eval(ov)
                    for j, (w, r) in enumerate(zip(WANT, res)):
                        exp = row[w]
                        if j in (12, 13) and exp == NA:
                            exp = ERR        # INDEX(.., MATCH miss): some error outcome (the statement defines the partner of present keys)
                        if exp == OOS:
                            continue
                        n += 1
                        if not conforms(exp, code(*r)):
                            bad.append((p.formulas[j], ks, v, exp, show(*r)))
            out.append((n, bad))
        return out
    except Exception as e:
        import traceback
        return {'harness_error': f'{type(e).__name__}: {e} {traceback.format_exc()[-300:]}'}


def gen_lookup(run):
    recs = []
    L = 4 if run.quick else 5
    for kind in ('LOOKUP', 'LOOKUPB', 'TEXT'):
        r = run.tlc('Gen_C14', ['INIT Init', 'NEXT Next', f'CONSTANT Kind = "{kind}"', 'CONSTANT Keys = {20, 40, 60, 80}', f'CONSTANT L = {L}',
                                'CONSTANT Vals = {10, 20, 30, 40, 50, 51, 60, 70, 79, 80, 90}'], workers=4, timeout=1800, tag='Gen_C14_' + kind)
        recs += r.records
        run.exhaustive[f'{kind}: key columns x lookup values'] = True
    res = core.pmap(_lookup_job, core.chunks(recs, 20), chunksize=1)
    flat = []
    for o in res:
        if isinstance(o, dict):
            raise core.MachineryError(o['harness_error'])
        flat += o
    for rec, (n, bad) in zip(recs, flat):
        run.evaluations += n
        run.traces_validated += n
        keys = [keyval(k) for k in rec['keys']]
        if not bad:
            run.judge({'in': {'keys': keys}, 'obs': f'{n} lookups return the addressed row', 'kind': 'gen_keys'}, True, part='gen_keys', nontrivial=len(keys) > 1)
            run.evaluations -= 1
        for (form, ks, v, exp, got) in bad[:3]:
            case = {'in': {'formula': form, 'keys': ks, 'v': v, 'mode': 'ovr'}, 'ideal': ideal_text(exp), 'obs': got, 'kind': 'lookup'}
            run.judge(case, False, clause=f'{form} with keys A1..={ks}, E1={v!r} = {got}, the addressed element is {ideal_text(exp)}', part='lookup')


def gen_index(run):
    r = run.tlc('Gen_C14', ['INIT Init', 'NEXT Next', 'CONSTANT Kind = "INDEX"', 'CONSTANT Keys = {10}', 'CONSTANT L = 1', 'CONSTANT Vals = {5}'],
                workers=2, timeout=600, tag='Gen_C14_INDEX')
    run.exhaustive['INDEX: 9 area shapes x all (r, c) in -1..rows+1 x -1..cols+1'] = True
    for rec in r.records:
        rows, cols = rec['rows'], rec['cols']
        consts = {(c, rr): 100 * (rr + 1) + (c + 1) for rr in range(rows) for c in range(cols)}
        area = f'A1:{repo.col_letters(cols)}{rows}'
        forms, want = [], []
        for a, line in enumerate(rec['m']):
            for b, exp in enumerate(line):
                rr, cc = a - 1, b - 1

                def lit(x):
                    return str(x)
                forms.append(f'=INDEX({area},{lit(rr)},{lit(cc)})')
                want.append(exp)
                forms.append('=INDEX(' + area + ',G1,H1)')
                want.append(('cell', rr, cc, exp))
                if rr >= 1 and cc >= 1:
                    # the same numbers as results of a division (held as floats)
                    forms.append('=INDEX(' + area + ',G1/1,H1/1)')
                    want.append(('cell', rr, cc, exp))
        # one-index form on vectors
        if rows == 1 or cols == 1:
            n = max(rows, cols)
            for k in range(1, n + 2):
                forms.append(f'=INDEX({area},{k})')
                want.append((100 * k + 1 if cols == 1 else 100 + k) if k <= n else REF)
        p = repo.Probe(forms, consts)
        for i, (form, w) in enumerate(zip(forms, want)):
            if isinstance(w, tuple):
                _, rr, cc, exp = w
                res = p.eval([(0, 6, 0, rr), (0, 7, 0, cc)], idxs=(i,))[0]
                form = f'{form} with G1={rr}, H1={cc}'
            else:
                exp = w
                res = p.eval(None, idxs=(i,))[0]
            if exp == OOS:
                continue
            ok = conforms(exp, code(*res))
            case = {'in': {'formula': form, 'rows': rows, 'cols': cols, 'mode': 'index'}, 'ideal': ideal_text(exp), 'obs': show(*res), 'kind': 'index'}
            run.judge(case, ok, clause=f'{form} on a {rows}x{cols} area holding 100*row+col = {show(*res)}, expected {ideal_text(exp)}', part='index')
            run.traces_validated += 1
            # the same request while ANOTHER cell of the area holds an error value: INDEX returns the addressed element, not what else the area holds
            if rows * cols >= 2 and isinstance(exp, int) and exp > 0:
                last = 100 * rows + cols
                ov = [(0, cols - 1, rows - 1, '#DIV/0!')] + ([(0, 6, 0, w[1]), (0, 7, 0, w[2])] if isinstance(w, tuple) else [])
                res = p.eval(ov, idxs=(i,))[0]
                exp2 = ERR if exp == last else exp
                case = {'in': {'formula': form, 'rows': rows, 'cols': cols, 'mode': 'index', 'error_cell': [rows, cols]}, 'ideal': ideal_text(exp2), 'obs': show(*res), 'kind': 'index'}
                run.judge(case, conforms(exp2, code(*res)), part='index',
                          clause=f'{form} on a {rows}x{cols} area holding 100*row+col, its last cell holding #DIV/0! = {show(*res)}, expected {ideal_text(exp2)}')
                run.traces_validated += 1


def _address_job(rec):
    try:
        c0 = rec['c0']
        forms, want = [], []
        for i, a in enumerate(rec['a']):
            if not a:
                continue
            c = c0 + i
            forms += [f'=ADDRESS(1,{c})', f'=ADDRESS(10,{c})', f'=ADDRESS(1048576,{c})', '=ADDRESS(B1,A1)']
            want += [a[0], a[1], a[2], ('ov', c, a[1])]
            if i % 10 == 0:
                # row and column numbers that are results of a division (the same numbers, held as floats)
                forms += ['=ADDRESS(B1/1,A1/1)', f'=ADDRESS(20/2,{c})']
                want += [('ov', c, a[1]), a[1]]
            # COLUMN of a reference spelled with the spec's own letters
            forms.append(f'=COLUMN({a[3]}7)')
            want.append(('num', c))
        p = repo.Probe(forms)
        bad = []
        for i, (f, w) in enumerate(zip(forms, want)):
            if isinstance(w, tuple) and w[0] == 'ov':
                r = p.eval([(0, 0, 0, w[1]), (0, 1, 0, 10)], idxs=(i,))[0]
                exp = w[2]
                f = f'{f} with A1={w[1]}, B1=10'
            elif isinstance(w, tuple):
                r = p.eval(None, idxs=(i,))[0]
                exp = w[1]
            else:
                r = p.eval(None, idxs=(i,))[0]
                exp = w
            if not (r[0] == 'val' and r[1] == exp and type(r[1]) is type(exp)):
                bad.append((f, exp, show(*r)))
        return len(forms), bad
    except Exception as e:
        return {'harness_error': f'{type(e).__name__}: {e}'}


def gen_address(run):
    r = run.tlc('Gen_C14', ['INIT Init', 'NEXT Next', 'CONSTANT Kind = "ADDRESS"', 'CONSTANT Keys = {10}', 'CONSTANT L = 1', 'CONSTANT Vals = {5}'],
                workers=4, timeout=1200, tag='Gen_C14_ADDRESS')
    recs = r.records
    if run.quick:
        recs = [x for x in recs if x['c0'] in (1, 601, 701, 16301) or x['c0'] % 1700 == 1]
    else:
        run.exhaustive['ADDRESS/COLUMN: every column 1..16384'] = True
    res = core.pmap(_address_job, recs, chunksize=1)
    for rec, o in zip(recs, res):
        if isinstance(o, dict):
            raise core.MachineryError(o['harness_error'])
        n, bad = o
        run.evaluations += n
        run.traces_validated += n
        if not bad:
            run.judge({'in': {'columns_from': rec['c0']}, 'obs': f'{n} addresses / column numbers correct', 'kind': 'address_block'}, True, part='address_blocks')
            run.evaluations -= 1
        for (f, exp, got) in bad[:3]:
            run.judge({'in': {'formula': f, 'mode': 'address'}, 'ideal': exp, 'obs': got, 'kind': 'address'}, False,
                      clause=f'{f} = {got}, expected {exp!r}', part='address')
    # COLUMN() of the formula's own cell
    cols = [0, 1, 25, 26, 27, 51, 52, 701, 702, 703, 16383] if run.quick else sorted(set([0, 1, 25, 26, 27, 51, 52, 701, 702, 703, 16383] + list(range(0, 16384, 331))))
    for c in cols:
        p = repo.Probe(['=COLUMN()', '=COLUMN()+0'], col=c)
        for i, r in enumerate(p.eval()):
            ok = r[0] == 'val' and r[1] == c + 1
            run.judge({'in': {'formula': p.formulas[i], 'own_column': c + 1, 'mode': 'column'}, 'ideal': c + 1, 'obs': show(*r), 'kind': 'column'}, ok,
                      clause=f'{p.formulas[i]} in column {repo.col_letters(c + 1)} = {show(*r)}, expected {c + 1}', part='column')
            run.traces_validated += 1


def twin_sheets(run):
    """Several worksheets with the SAME unprefixed lookup formulas over the same layout and different data: a reference without a
    prefix denotes the formula's own sheet, on every sheet, whichever sheet was translated first."""
    forms = ['=INDEX(B1:B3,MATCH(20,A1:A3,0))', '=INDEX(A1:C3,3,3)', '=VLOOKUP(20,A1:C3,3,FALSE)', '=MATCH(30,A1:A3,0)', '=XMATCH(10,A1:A3)', '=INDEX(B1:B3,2)',
             '=VLOOKUP(25,A1:C3,2,TRUE)', '=INDEX(A1:C3,MATCH(30,A1:A3,0),2)']
    titles = ['Jan', 'Feb', 'Mar']
    sheets, want = [], []
    for si, t in enumerate(titles):
        k = 1000 * (si + 1)
        cells = {(0, r): 10 * (r + 1) for r in range(3)}
        cells.update({(1, r): k + 10 * (r + 1) + 1 for r in range(3)})
        cells.update({(2, r): k + 10 * (r + 1) + 2 for r in range(3)})
        for i, f in enumerate(forms):
            cells[(4, i)] = f
        sheets.append((t, cells))
        want.append([k + 21, k + 32, k + 22, 3, 1, k + 21, k + 21, k + 31])
    for order in ('file', 'last_sheet_first'):
        excel = repo.mem_excel(sheets)
        try:
            if order == 'file':
                klass = repo.load_class(repo.translate_file(excel)[0])
            else:
                ctx = repo.Context()
                ctx._titles = excel.get_titles()
                ctx._sheets_size = excel.get_sheets_size()
                for si in (2, 0, 1):
                    for i in range(len(forms)):
                        repo.CellTranslator.translate(repo.Cell(si, 4, i), excel, ctx)
                klass = repo.load_class(ctx.build_class())
            ex = repo.fresh_executor(klass)
            got = [[ex.get_cell(repo.Cell(si, 4, i)).value for i in range(len(forms))] for si in range(3)]
        except Exception as e:   # noqa
            got = f'raises {type(e).__name__}: {e}'[:160]
        bad = got if not isinstance(got, list) else [(titles[si], forms[i], got[si][i], want[si][i]) for si in range(3) for i in range(len(forms)) if got[si][i] != want[si][i]]
        run.judge({'in': {'formulas': forms, 'sheets': titles, 'order': order, 'mode': 'twin_sheets'}, 'obs': str(bad)[:400], 'kind': 'twin_sheets'}, not bad,
                  clause=f'the same unprefixed lookup formulas on the sheets {titles} (translation order: {order}): (sheet, formula, got, expected) {bad}', part='twin_sheets')
        run.traces_validated += 1


def whole_column_lookups(run):
    """Lookups over WHOLE columns after set_cells has appended rows below the rows stored in the workbook: the whole column is every row
    the sheet has when the formula is evaluated. The observed rows are judged by Trace_C14 against the extended key column."""
    stored = [10, 20, 30, 40, 50, 60, 70]          # as many stored rows as the sheet has (the formulas of the probe fill rows 1..7 of column Z)
    forms = ['=VLOOKUP(E1,A:C,2,FALSE)', '=VLOOKUP(E1,A:C,2,TRUE)', '=MATCH(E1,A:A,0)', '=MATCH(E1,A:A,1)', '=XMATCH(E1,A:A,0,-1)', '=INDEX(B:B,MATCH(E1,A:A,0))', '=XMATCH(E1,A:A)']
    kinds = ['VEXACT', 'VAPPROX', 'EXACT', 'APPROX', 'LAST', 'PARTNER', 'EXACT']
    consts = {}
    for i, k in enumerate(stored):
        consts[(0, i)], consts[(1, i)], consts[(2, i)] = k, 100 * (i + 1) + 2, 100 * (i + 1) + 3
    p = repo.Probe(forms, consts)
    evs = []
    assert len(forms) <= len(stored)
    for appended in ([], [80], [80, 90], [80, 80, 100]):
        keys = stored + appended
        ses = p.session()
        ov = []
        for i, k in enumerate(appended):
            r0 = len(stored) + i
            ov += [(0, 0, r0, k), (0, 1, r0, 100 * (r0 + 1) + 2), (0, 2, r0, 100 * (r0 + 1) + 3)]
        for v in (10, 70, 80, 85, 90, 100, 105, 5):
            res = ses.eval(ov + [(0, 4, 0, v)])
            for f, r, form in zip(kinds, res, forms):
                evs.append({'f': f, 'keys': keys, 'v': v, 'o': code(*r), 'raw': show(*r), 'formula': f'{form} with E1={v}, rows appended by set_cells: {appended}'})
    judge_events(run, evs, 'whole_column')


def gen_colarea(run):
    """COLUMN over areas of several columns: the formula cell holds the first column's number (also as an operand), and the cells beside it
    keep their own content (constants and a formula that reads them)"""
    r = run.tlc('Gen_C14', ['INIT Init', 'NEXT Next', 'CONSTANT Kind = "COLAREA"', 'CONSTANT Keys = {10}', 'CONSTANT L = 1', 'CONSTANT Vals = {5}'],
                workers=2, timeout=600, tag='Gen_C14_COLAREA')
    for rec in r.records:
        c1, c2, h, own = rec['c1'], rec['c2'], rec['h'], rec['own'] - 1
        ref = f'{repo.col_letters(c1)}1:{repo.col_letters(c2)}{h}'
        cells = {(own, 4): f'=COLUMN({ref})', (own, 5): f'=COLUMN({ref})+1', (own, 6): f'=SUM(COLUMN({ref}),COLUMN({ref}))',
                 # the formula's own cell lies INSIDE the area: COLUMN needs the position of the area, not the values of its cells
                 (own, 8): '=COLUMN(A9:E9)'}
        beside = {}
        for k in range(1, 5):
            for row in (4, 5, 6):
                beside[(own + k, row)] = 1000 * row + 10 * k
        cells.update(beside)
        total = sum(beside.values())
        cells[(9, 0)] = f'=SUM({repo.col_letters(own + 2)}5:{repo.col_letters(own + 5)}7)'
        want = [((own, 4), rec['col']), ((own, 5), rec['col'] + 1), ((own, 6), 2 * rec['col']), ((own, 8), 1)] + sorted(beside.items()) + [((9, 0), total)]
        # both translation orders: the whole workbook, and entry points (the reader of the neighbours first)
        excel = repo.mem_excel([('S', cells)])
        outs = {}
        try:
            klass = repo.load_class(repo.translate_file(excel)[0])
            ex = repo.fresh_executor(klass)
            outs['file'] = [ex.get_cell(repo.Cell(0, c[0], c[1])).value for c, _ in want]
        except Exception as e:   # noqa
            outs['file'] = f'raises {type(e).__name__}: {e}'[:120]
        for tag, got in outs.items():
            ok = isinstance(got, list) and all(g == w and not isinstance(g, bool) for g, (_, w) in zip(got, want))
            bad = got if not isinstance(got, list) else [(f'{repo.col_letters(c[0] + 1)}{c[1] + 1}', g, w) for g, (c, w) in zip(got, want) if g != w]
            run.judge({'in': {'formula': cells[(own, 4)], 'own_column': own + 1, 'mode': 'colarea', 'rec': rec}, 'ideal': rec['col'], 'obs': str(bad)[:300], 'kind': 'colarea'}, ok,
                      clause=f'=COLUMN({ref}) (+1, summed twice) in column {repo.col_letters(own + 1)}, rows 5..7, constants beside: (cell, got, expected) {bad}', part='colarea',
                      nontrivial=c2 > c1)
            run.traces_validated += 1


# ---------------------------------------------------------------- direction B
def _trace_job(seeds):
    try:
        out = []
        sticky = bool(seeds) and (seeds[0] // 100) % 2 == 1       # every second batch: one Executor per table length for the whole sequence
        sessions = {}
        for sd in seeds:
            rng = random.Random(sd)
            n = rng.randint(1, NMAX)
            keys = [rng.randint(0, 12) * 5 for _ in range(n)]
            if rng.random() < 0.6:
                keys.sort()
            v = rng.choice(keys) if rng.random() < 0.5 else rng.randint(-3, 65)
            obs_v = v
            if rng.random() < 0.3:
                obs_v = float(v)
            p = probe(n)
            if sticky and n not in sessions:
                sessions[n] = p.session()
            res = (sessions[n].eval if sticky else p.eval)([(0, 0, i, k) for i, k in enumerate(keys)] + [(0, 4, 0, obs_v)])
            for j, f in ((0, 'VEXACT'), (3, 'VAPPROX'), (4, 'VAPPROX'), (6, 'EXACT'), (7, 'APPROX'), (8, 'APPROX'), (9, 'EXACT'), (11, 'LAST'), (12, 'PARTNER'), (15, 'VAPPROX')):
                out.append({'f': f, 'keys': keys, 'v': v, 'o': code(*res[j]), 'raw': show(*res[j]), 'formula': p.formulas[j]})
        return out
    except Exception as e:
        return {'harness_error': f'{type(e).__name__}: {e}'}


def validate(run, events, tag='Trace_C14'):
    from harness.tlc import parse_tuple
    verdicts = {}
    base = 0
    for pi, part in enumerate(core.chunks(events, 20000)):
        path = os.path.join(run.scratch, f'{tag}_{pi}.json')
        json.dump({'events': [{k: e[k] for k in ('f', 'keys', 'v', 'o')} for e in part]}, open(path, 'w'))
        r = run.tlc('Trace_C14', ['SPECIFICATION Spec'], workers=1, timeout=1800, env={'TRACE_FILE': path}, tag=f'{tag}_{pi}')
        done = False
        for t in r.tuples:
            v = parse_tuple(t)
            if v[0] == 'V':
                verdicts[base + v[1]] = v[2]
            elif v[0] == 'DONE' and v[1] == len(part) + 1:
                done = True
        if not done:
            raise core.MachineryError(f'{tag}: not all events consumed')
        base += len(part)
    return verdicts


def judge_events(run, evs, part):
    verdicts = validate(run, evs, 'Trace_C14_' + part)
    for i, e in enumerate(evs):
        v = verdicts.get(i + 1)
        case = {'in': {'formula': e['formula'], 'keys': e['keys'], 'v': e['v'], 'f': e['f'], 'mode': 'trace'}, 'obs': e['raw'], 'kind': part}
        if v is not None:
            case['ideal'] = ideal_text(v)
        run.judge(case, v is None, clause=f"Trace_C14: {e['formula']} with keys {e['keys']}, E1={e['v']} = {e['raw']}, the specification gives {case.get('ideal')}", part=part)
        run.traces_validated += 1


def trace(run):
    n = 1500 if run.quick else 30000
    seeds = [run.seed * 1000081 + i for i in range(n)]
    outs = core.pmap(_trace_job, core.chunks(seeds, 100), chunksize=1)
    evs = []
    for o in outs:
        if isinstance(o, dict):
            raise core.MachineryError(o['harness_error'])
        evs += o
    judge_events(run, evs, 'trace')


def public_path(run):
    """a real workbook: table, lookups next to it"""
    cells = {}
    keys = [10, 20, 20, 30, 40]
    for i, k in enumerate(keys):
        cells[(0, i)], cells[(1, i)], cells[(2, i)] = k, 100 * (i + 1) + 2, 100 * (i + 1) + 3
    cells[(4, 0)] = 20
    forms = lookup_forms(5) + ['=ADDRESS(7,703)', '=COLUMN(AAA3)', '=INDEX(A1:C5,6,1)', '=INDEX(A1:C5,5,3)']
    for j, f in enumerate(forms):
        cells[(6, j)] = f
    res = repo.public_path_eval(run.scratch, [('S', cells)], [(0, 6, j) for j in range(len(forms))], tag='c14pp')
    exp = [202, 203, 202, 302, 302, 302, 2, 3, 3, 2, 2, 3, 202, 203, 203, 302, '$AAA$7', 703, REF, 503]
    for f, e, r in zip(forms, exp, res):
        got = r[1] if (r[0] == 'val' and isinstance(e, str)) else code(*r)
        run.judge({'in': {'formula': f, 'keys': keys, 'v': 20, 'mode': 'file'}, 'ideal': e, 'obs': show(*r), 'kind': 'public_path'}, got == e,
                  clause=f'file path: {f} = {show(*r)}, expected {e}', part='public_path')
        run.traces_validated += 1


def check(run):
    run.rule = ('key columns (numbers ascending / unsorted / with duplicates, texts) x lookup values (present, between, below, above) enumerated by TLC '
                'with the rows exact / from-the-end / approximate matching must return; VLOOKUP (3 spellings of each mode, 2 result columns), MATCH, XMATCH, '
                'INDEX(MATCH) replayed by overrides; INDEX for all (r, c) of 9 area shapes as literals and cells; ADDRESS / COLUMN over column blocks '
                '(thorough: all 16384 columns); COLUMN() in own cell; random longer key columns judged by Trace_C14. One evaluation = one formula result.')
    run.assumptions += ['approximate matching on keys that are not ascending, MATCH type -1, text keys differing only in case, INDEX with a zero index, '
                        'VLOOKUP result column beyond the table: out of scope', 'INDEX with a negative index: any error value accepted']
    inv = ['ExactIsFirst', 'ExactLastIsLast', 'ApproxIsMaxLE', 'ApproxAboveAll', 'ApproxExtendsExact', 'BlanksAreNotKeys', 'IndexMatchPartner', 'ColBijective', 'AddressAnchors']
    L = 4 if run.quick else 5
    run.tlc('MC_XlLookup', ['INIT Init', 'NEXT Next', 'CONSTANT Keys = {20, 40, 60, 80}', f'CONSTANT L = {L}', 'CONSTANT Vals = {10, 20, 30, 40, 50, 51, 60, 70, 79, 80, 90}']
            + ['INVARIANT ' + i for i in inv], workers=8, timeout=1800)
    run.tlc('MC_XlLookup', ['INIT Init', 'NEXT Next', 'CONSTANT Keys = {10}', 'CONSTANT L = 1', 'CONSTANT Vals = {5}', 'INVARIANT ColBijectiveAll'],
            workers=2, timeout=1800, tag='MC_XlLookup_cols')
    gen_lookup(run)
    gen_index(run)
    gen_address(run)
    gen_colarea(run)
    twin_sheets(run)
    whole_column_lookups(run)
    trace(run)
    public_path(run)


def replay(run, case):
    i = case['in']
    mode = i.get('mode')
    if mode in ('ovr', 'trace') and 'keys' in i:
        keys = i['keys']
        p = probe(len(keys))
        j = p.formulas.index(i['formula'])
        r = p.eval([(0, 0, k, kv) for k, kv in enumerate(keys)] + [(0, 4, 0, i['v'])], idxs=(j,))[0]
        if all(isinstance(k, int) for k in keys) and isinstance(i['v'], int):
            f = {0: 'VEXACT', 1: 'VEXACT', 2: 'VEXACT', 3: 'VAPPROX', 4: 'VAPPROX', 5: 'VAPPROX', 6: 'EXACT', 7: 'APPROX', 8: 'APPROX', 9: 'EXACT', 10: 'EXACT',
                 11: 'LAST', 12: 'PARTNER', 13: 'PARTNER', 14: 'VEXACT', 15: 'VAPPROX'}[j]
            if j in (1, 13, 14):
                run.judge(dict(case, obs=show(*r)), ideal_text(code(*r)) == case['ideal'], clause=f"{i['formula']} = {show(*r)}, expected {case['ideal']}")
                return
            judge_events(run, [{'f': f, 'keys': keys, 'v': i['v'], 'o': code(*r), 'raw': show(*r), 'formula': i['formula']}], 'replay')
        else:
            run.judge(dict(case, obs=show(*r)), ideal_text(code(*r)) == case['ideal'], clause=f"{i['formula']} = {show(*r)}, expected {case['ideal']}")
        return
    run.notes.append('replay of index/address/column cases: rerun the check (deterministic enumeration)')
    check(run)
