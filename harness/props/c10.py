"""C10 - comparisons are exact and lawful.

MC   : MC_XlCompare: the comparison oracle obeys the laws it demands (trichotomy, negations, mirror),
       is transitive, exact on rationals, and states the blank / midnight clauses.
GEN  : Gen_C10: every in-scope ordered pair of the value grid with the pinned three-way result (or LAWS).
       Each pair is evaluated by the real pipeline for all six operators in both operand orders, with the
       operands supplied as overrides, as workbook cells and (where a literal exists) as literals.
TRACE: all observations (and seeded random pairs beyond the grid) are judged by TLC (Trace_C10): pinned pairs
       must show exactly Six(Cmp3), every in-scope pair must satisfy the laws.
"""
import datetime
import json
import os
import random

from harness import absval, core, repo

OPS = [('LT', '<'), ('EQ', '='), ('GT', '>'), ('NE', '<>'), ('LE', '<='), ('GE', '>=')]
EPOCH = datetime.datetime(1899, 12, 30)


def py_value(j):
    k = j['k']
    if k == 'num':
        return j['n'] if j['d'] == 1 else (j['n'] // j['d'] if j['n'] % j['d'] == 0 else j['n'] / j['d'])
    if k == 'numup':
        import math
        return math.nextafter(float(j['n'] / j['d']), math.inf)
    if k == 'text':
        return ''.join(chr(c) for c in j['c'])
    if k == 'date':
        return EPOCH + datetime.timedelta(days=j['d'], seconds=j['t'])
    if k == 'day':
        return (EPOCH + datetime.timedelta(days=j['d'])).date()
    if k == 'bool':
        return j['b']
    return None


def literal(j):
    k = j['k']
    if k in ('num', 'numup'):
        v = py_value(j)
        return repr(v) if v >= 0 else f'({v!r})'
    if k == 'text':
        s = py_value(j)
        return '"' + s + '"' if '"' not in s else None
    if k == 'bool':
        return 'TRUE' if j['b'] else 'FALSE'
    return None


_PROBE = None


def probe():
    global _PROBE
    if _PROBE is None:
        forms = [f'=A1{o}B1' for _, o in OPS] + [f'=B1{o}A1' for _, o in OPS]
        # the operand cells hold content in the workbook (a number, a text): every evaluation overrides both, a blank operand is the
        # override None - a cleared cell is blank whatever the workbook stored in it
        _PROBE = repo.Probe(forms, {(0, 0): 5, (1, 0): 'stored'})
    return _PROBE


def six(results):
    """12 raw results -> (o, w) dicts of booleans, or (None, reason)."""
    vals = []
    for kind, p in results:
        if kind != 'val' or not isinstance(p, bool):
            return None, (f'{kind}:{type(p).__name__}:{p!r}'[:120])
        vals.append(p)
    o = {n: vals[i] for i, (n, _) in enumerate(OPS)}
    w = {n: vals[6 + i] for i, (n, _) in enumerate(OPS)}
    return (o, w), ''


def obs_ovr(pairs):
    p = probe()
    out = []
    # chunks whose first pair has a numeric left operand run on ONE Executor (a blank is then written as None, a cleared cell)
    ses = p.session() if pairs and pairs[0][0]['k'] in ('num', 'numup') else None
    for a, b in pairs:
        if ses is not None:
            out.append(six(ses.eval([(0, 0, 0, py_value(a)), (0, 1, 0, py_value(b))])))
            continue
        out.append(six(p.eval([(0, 0, 0, py_value(a)), (0, 1, 0, py_value(b))])))
    return out


def obs_cell(pairs):
    # the workbook also holds the truth values and the numbers 1 / 0 / 1.0 / 0.0 as constants, read by its first formula: constants of
    # different kinds that happen to be equal in Python stay what they are, wherever else in the workbook (or the process) they occur
    consts, forms = {(3, 0): True, (3, 1): False, (3, 2): 1, (3, 3): 0, (3, 4): 1.0, (3, 5): 0.0}, ['=AND(D1,D3>D4,D5>D6)&D2']
    for j, (a, b) in enumerate(pairs):
        if a['k'] != 'blank':
            consts[(0, j)] = py_value(a)
        if b['k'] != 'blank':
            consts[(1, j)] = py_value(b)
        forms += [f'=A{j + 1}{o}B{j + 1}' for _, o in OPS] + [f'=B{j + 1}{o}A{j + 1}' for _, o in OPS]
    res = repo.Probe(forms, consts).eval()[1:]
    return [six(res[12 * j:12 * j + 12]) for j in range(len(pairs))]


def obs_lit(pairs):
    forms = []
    for a, b in pairs:
        la, lb = literal(a), literal(b)
        forms += [f'={la}{o}{lb}' for _, o in OPS] + [f'={lb}{o}{la}' for _, o in OPS]
    res = repo.Probe(forms).eval()
    return [six(res[12 * j:12 * j + 12]) for j in range(len(pairs))]


def literal_bare(j):
    """a literal as it is usually typed: a negative number with its sign and no brackets"""
    if j['k'] in ('num', 'numup'):
        return repr(py_value(j))
    return literal(j)


def literal_exp(j):
    """the same number in exponent notation (lower-case e, as the lexer reads it): 110 -> 1.1e2, 0.3 -> 3e-1; None when not a plain number"""
    if j['k'] != 'num':
        return None
    from decimal import Decimal
    v = py_value(j)
    if v < 0:
        return None
    m, _, e = f'{Decimal(repr(v)):e}'.lower().partition('e')
    m = m.rstrip('0').rstrip('.') if '.' in m else m
    return f'{m}e{int(e)}'


def obs_litexp(pairs):
    """both operands typed into the formula, the second one in exponent notation"""
    forms = []
    for a, b in pairs:
        la, lb = literal(a), literal_exp(b)
        forms += [f'={la}{o}{lb}' for _, o in OPS] + [f'={lb}{o}{la}' for _, o in OPS]
    res = repo.Probe(forms).eval()
    return [six(res[12 * j:12 * j + 12]) for j in range(len(pairs))]


def obs_mix(pairs):
    """the first operand lives in a cell (any kind, blank included), the second is typed into the formula: =A1>-1 and =-1<A1"""
    consts, forms = {}, []
    for j, (a, b) in enumerate(pairs):
        if a['k'] != 'blank':
            consts[(0, j)] = py_value(a)
        lb = literal_bare(b)
        forms += [f'=A{j + 1}{o}{lb}' for _, o in OPS] + [f'={lb}{o}A{j + 1}' for _, o in OPS]
    res = repo.Probe(forms, consts).eval()
    return [six(res[12 * j:12 * j + 12]) for j in range(len(pairs))]


def _job(args):
    mode, pairs = args
    try:
        return {'ovr': obs_ovr, 'cell': obs_cell, 'lit': obs_lit, 'mix': obs_mix, 'litexp': obs_litexp}[mode](pairs)
    except Exception as e:
        return {'harness_error': f'{type(e).__name__}: {e}'}


def in_mode(mode, a, b):
    if mode == 'ovr':
        return True
    if mode == 'cell':      # pure dates cannot be stored in a workbook cell (openpyxl delivers date-times)
        return a['k'] != 'day' and b['k'] != 'day'
    if mode == 'mix':
        return a['k'] != 'day' and literal(b) is not None
    if mode == 'litexp':
        return literal(a) is not None and literal_exp(b) is not None
    return literal(a) is not None and literal(b) is not None


def observe(run, pairs, modes):
    """-> list of (mode, a, b, obs|None, reason)"""
    jobs, meta = [], []
    for mode in modes:
        sel = [(a, b) for a, b in pairs if in_mode(mode, a, b)]
        size = 400 if mode == 'ovr' else 60
        for c in core.chunks(sel, size):
            jobs.append((mode, c))
            meta.append((mode, c))
    res = core.pmap(_job, jobs, chunksize=1)
    out = []
    for (mode, c), r in zip(meta, res):
        if isinstance(r, dict):
            raise core.MachineryError(r['harness_error'])
        for (a, b), (ow, why) in zip(c, r):
            out.append((mode, a, b, ow, why))
    return out


def validate(run, events, tag='Trace_C10'):
    """events: [{a,b,o,w}] -> {index(1-based): clause} for rejected ones ('oos' included)."""
    from harness.tlc import parse_tuple
    verdicts = {}
    parts = core.chunks(events, 15000)
    base = 0
    for pi, part in enumerate(parts):
        path = os.path.join(run.scratch, f'{tag}_{pi}.json')
        json.dump({'events': part}, open(path, 'w'))
        r = run.tlc('Trace_C10', ['SPECIFICATION Spec'], workers=1, timeout=1800, env={'TRACE_FILE': path}, tag=f'{tag}_{pi}', heap='4g')
        done = False
        for t in r.tuples:
            v = parse_tuple(t)
            if v[0] == 'V':
                verdicts[base + v[1]] = v[2]
            elif v[0] == 'DONE' and v[1] == len(part) + 1:
                done = True
        if not done:
            raise core.MachineryError(f'{tag}: not all events consumed')
        base += len(part)
    return verdicts


def judge_observations(run, obs, part):
    events, idx = [], []
    for i, (mode, a, b, ow, why) in enumerate(obs):
        if ow is None:
            case = {'in': {'a': a, 'b': b, 'mode': mode}, 'obs': why, 'kind': part}
            run.judge(case, False, clause=f'comparison of {show(a)} and {show(b)} (operands as {mode}) does not yield six booleans: {why}', part=part)
            continue
        events.append({'a': a, 'b': b, 'o': ow[0], 'w': ow[1]})
        idx.append(i)
    verdicts = validate(run, events, tag='Trace_C10_' + part)
    for n, i in enumerate(idx):
        mode, a, b, ow, _ = obs[i]
        v = verdicts.get(n + 1, '')
        if v == 'oos':
            run.parts[part + '_out_of_scope'] = run.parts.get(part + '_out_of_scope', 0) + 1
            continue
        case = {'in': {'a': a, 'b': b, 'mode': mode}, 'obs': {'ab': ow[0], 'ba': ow[1]}, 'kind': part}
        run.judge(case, v == '', clause=f'{show(a)} vs {show(b)} (operands as {mode}): {v}', nontrivial=(a != b), part=part)
        run.traces_validated += 1


def show(j):
    v = py_value(j)
    return 'blank' if j['k'] == 'blank' else repr(v)


def gen(run):
    fine = 'FALSE' if run.quick else 'TRUE'
    r = run.tlc('Gen_C10', ['INIT Init', 'NEXT Next', f'CONSTANT Fine = {fine}'], workers=4, timeout=1200)
    recs = r.records
    run.exhaustive['ordered pairs of the value grid'] = True
    run.parts['pairs_pinned'] = sum(1 for x in recs if x['c'] in (-1, 0, 1))
    run.parts['pairs_laws_only'] = sum(1 for x in recs if x['c'] == 2)
    pairs = [(x['a'], x['b']) for x in recs]
    obs = observe(run, pairs, ['ovr', 'cell', 'lit', 'mix', 'litexp'])
    judge_observations(run, obs, 'gen')
    # a sample through the public file path (xlsx -> Parser -> Executor(class_file))
    rng = random.Random(run.seed)
    # (the workbook writer stores a float with 15 significant digits: a value one ulp beside a short decimal does not survive the
    # file and is left to the in-memory modes; the pairs are put in a canonical order first - TLC's workers export them in any order)
    ordered = sorted(pairs, key=lambda ab: json.dumps(ab, sort_keys=True))
    sample = [p for p in rng.sample(ordered, min(len(ordered), 40 if run.quick else 300))
              if in_mode('cell', *p) and 'numup' not in (p[0]['k'], p[1]['k'])]
    sheets_cells, forms = {}, []
    for j, (a, b) in enumerate(sample):
        if a['k'] != 'blank':
            sheets_cells[(0, j)] = py_value(a)
        if b['k'] != 'blank':
            sheets_cells[(1, j)] = py_value(b)
        for n, (_, o) in enumerate(OPS):
            sheets_cells[(2 + n, j)] = f'=A{j + 1}{o}B{j + 1}'
            sheets_cells[(8 + n, j)] = f'=B{j + 1}{o}A{j + 1}'
    res = repo.public_path_eval(run.scratch, [('S', sheets_cells)], [(0, 2 + n, j) for j in range(len(sample)) for n in range(12)], tag='c10pp')
    pobs = []
    for j, (a, b) in enumerate(sample):
        ow, why = six(res[12 * j:12 * j + 12])
        pobs.append(('file', a, b, ow, why))
    judge_observations(run, pobs, 'public_path')


# ---------------------------------------------------------------- direction B
ALPHA = 'aBb10. nN'


def random_value(rng, kind):
    if kind == 'num':
        x = rng.random()
        if x < 0.3:
            return {'k': 'num', 'n': rng.randint(-1000, 1000), 'd': 1}
        d = rng.choice([2, 4, 5, 8, 10, 16, 20, 25, 40, 50, 100, 125, 200, 250, 500, 1000])
        return {'k': 'num', 'n': rng.randint(-200000, 200000), 'd': d}
    if kind == 'text':
        return {'k': 'text', 'c': [ord(rng.choice(ALPHA)) for _ in range(rng.randint(0, 4))]}
    if kind == 'date':
        return {'k': 'date', 'd': rng.randint(1, 60000), 't': rng.choice([0, 0, 1, 3600, 86399, rng.randint(0, 86399)])}
    if kind == 'day':
        return {'k': 'day', 'd': rng.randint(1, 60000)}
    return {'k': 'blank'}


def random_pair(rng):
    kind = rng.choice(['num', 'num', 'num', 'text', 'text', 'date', 'date', 'blank'])
    if kind == 'blank':
        other = rng.choice(['num', 'text', 'date', 'day', 'blank', 'false'])
        b = {'k': 'bool', 'b': False} if other == 'false' else random_value(rng, other)
        return ({'k': 'blank'}, b) if rng.random() < 0.5 else (b, {'k': 'blank'})
    if kind == 'date':
        a = random_value(rng, rng.choice(['date', 'day']))
        b = random_value(rng, rng.choice(['date', 'day']))
        if rng.random() < 0.4:
            b = dict(b, d=a['d'])
        return a, b
    a, b = random_value(rng, kind), random_value(rng, kind)
    if kind == 'num' and rng.random() < 0.3:       # differ only in the fraction
        b = {'k': 'num', 'n': a['n'] + rng.choice([-1, 0, 1]), 'd': a['d']}
    if kind == 'text' and rng.random() < 0.2:
        b = a
    elif kind == 'text' and rng.random() < 0.25:
        # one number in two spellings (both pass int() / float() of the coercion ladder, so the clock-dependent date parser is not reached)
        t = str(rng.randint(-30, 30)) if rng.random() < 0.6 else f'{rng.randint(-30, 30)}.{rng.randint(0, 9)}'
        u = rng.choice([t + ('0' if '.' in t else '.0'), ('-0' + t[1:]) if t[0] == '-' else '0' + t, t + 'e0', ' ' + t, t + ' ',
                        t + ('' if '.' in t else '.'), t.replace('-', '-00') if t[0] == '-' else '+' + t])
        a, b = {'k': 'text', 'c': [ord(ch) for ch in t]}, {'k': 'text', 'c': [ord(ch) for ch in u]}
        if rng.random() < 0.5:
            a, b = b, a
    return a, b


def trace(run):
    n = 3000 if run.quick else 60000
    rng = random.Random(run.seed * 7907 + 11)
    pairs = [random_pair(rng) for _ in range(n)]
    obs = observe(run, pairs, ['ovr'] if run.quick else ['ovr', 'cell'])
    judge_observations(run, obs, 'trace')


def check(run):
    run.rule = ('ordered pairs of a value grid (numbers as exact rationals incl. fractions, signs, values near 10^6; texts incl. numeric-looking; '
                'date-times, pure dates; blank; FALSE) enumerated by TLC; each pair evaluated for the six operators in both orders with operands as '
                'overrides / workbook cells / literals and through the public file path; all observations and seeded random pairs judged by TLC '
                '(Trace_C10). Non-trivial = the two operands differ.')
    run.assumptions += ['cross-kind pairs and blank vs TRUE are out of scope (the statement does not pin them); for two texts and for blank vs a '
                        'negative number only the laws are demanded', 'pure dates are supplied by override only (openpyxl delivers date-times)']
    fine = 'FALSE' if run.quick else 'TRUE'
    run.tlc('MC_XlCompare', ['INIT Init', 'NEXT Next', f'CONSTANT Fine = {fine}', 'INVARIANT OracleLawful', 'INVARIANT OracleSymmetricScope',
                             'INVARIANT Transitive', 'INVARIANT Reflexive', 'INVARIANT NumbersExact', 'INVARIANT OneStepUp', 'INVARIANT BlankClauses',
                             'INVARIANT DateEqualsMidnight'], workers=8, timeout=1200)
    gen(run)
    trace(run)


def replay(run, case):
    i = case['in']
    mode = i['mode'] if i['mode'] in ('ovr', 'cell', 'lit', 'mix', 'litexp') else 'cell'
    obs = observe(run, [(i['a'], i['b'])], [mode])
    judge_observations(run, obs, 'replay')
