"""C09 - translation output depends only on the current workbook and settings.

MC   : ParserFacadeImpl (code-shaped, Variant=fixed) refines ParserFacade; CacheCoherent.
       Variant=pinned is run as a census (must FAIL: documents the repaired defect).
       TokenTables: all interleavings of the lazy token-table initialisation are benign.
GEN  : every call history <= N of the ideal facade -> replayed on one real Parser;
       each get/write must equal what a brand-new Parser yields for the settings in force.
TRACE: long random histories recorded from the real Parser -> Trace_C09.tla decides.
ENV  : byte-identical text across hash seeds / earlier translations / threads (harness).
"""
import hashlib
import json
import os
import shutil
import subprocess
import sys
import tempfile

from harness import core
from harness import repo
from harness.repo import Cell, Parser

PATHS = ['w1', 'w2', 'w3']
ENTRIES = ['whole', 'eA', 'eB']
CONST = ['CONSTANTS Paths = {"w1","w2","w3"} Entries = {"whole","eA","eB"} NoPath = "nopath"']


def workbooks():
    """Three small workbooks. 'Main' is sheet 0 in w1 and w2 but sheet 1 in w3: an entry given by title (eA) and an entry given by
    numbers (eB) keep the meaning of their identifiers, whatever was translated before.
    w3 contains a python-like constant, so translating it raises iff the safety check is on."""
    w1 = [('Main', {(0, 0): '=B1+Data!A1', (1, 0): 5, (1, 1): '=SUM(A1:B1)*2', (2, 2): 'x'}),
          ('Data', {(0, 0): 7, (0, 1): '=A1*3'})]
    # w2 repeats w1's formula TEXTS in the same cells, but the constants differ and a sheet is inserted before 'Data':
    # nothing learnt while translating w1 (values, sheet indices) may be reused
    w2 = [('Main', {(0, 0): '=B1+Data!A1', (1, 0): 11, (1, 1): '=SUM(A1:B1)*2', (0, 3): 2.5}),
          ('Other', {(0, 0): 1, (0, 1): 13, (1, 1): '=A1+A2'}), ('Data', {(0, 0): 3, (0, 1): '=A1*3'})]
    # w3: 'Main' is the SECOND sheet (an entry given by title must follow it, an entry given by numbers must not)
    w3 = [('Data', {(0, 0): 9, (1, 1): 4}),
          ('Main', {(0, 0): '=B1&"z"', (1, 0): 'q', (1, 1): '=IF(B1="q",1,2)', (3, 0): 'eval(1)'})]
    # a last sheet with one formula per supported function (several criteria pairs, nested calls, patterns): whatever a translator
    # collects on the way (sets, dicts, caches) must not leak its iteration order or its history into the text
    feats = ['=SUM(A1:B3,C1)', '=AVERAGE(A1:B3)', '=MIN(A1:A3,B1)', '=MAX(A1:B3)', '=COUNT(A1:C3)', '=COUNTBLANK(A1:C4)', '=AND(A1>0,B1>0,C1>0)', '=OR(A1>5,B1>5)',
             '=IF(A1>1,"y","n")', '=IFS(A1>5,"a",A1>1,"b",TRUE,"c")', '=IFERROR(1/A4,"e")', '=VLOOKUP(2,A1:C3,3,FALSE)', '=MATCH(3,A1:A3,0)', '=XMATCH(3,A1:A3,0,-1)',
             '=INDEX(A1:C3,2,3)', '=COLUMN(C1)+COLUMN()', '=ADDRESS(2,3)', '=DATE(2024,2,29)', '=YEAR(DATE(2024,2,29))+MONTH(DATE(2024,2,29))+DAY(DATE(2024,2,29))',
             '=EDATE(DATE(2024,1,31),1)', '=EOMONTH(DATE(2024,1,31),1)', '=DATEDIF(DATE(2020,1,1),DATE(2024,3,1),"M")', '=NETWORKDAYS(DATE(2024,1,1),DATE(2024,1,31))',
             '=ROUND(A1/3,2)+ROUNDUP(B1/3,1)+ROUNDDOWN(C1/3,0)', '=LEFT(D1,2)&RIGHT(D1,1)&MID(D1,2,2)', '=SEARCH("p?",D1)', '=CONCATENATE(D1,"-",A1)', '=VALUE("12.5")',
             '=SUMIF(A1:A3,">1",B1:B3)', '=SUMIFS(C1:C3,A1:A3,">0",B1:B3,"<9",C1:C3,"<>5")', '=COUNTIFS(A1:A3,">0",B1:B3,"<9",C1:C3,">1",D1:D3,"a*")',
             '=AVERAGEIFS(C1:C3,A1:A3,">0",B1:B3,">1")', '=SUMIFS(C1:C3,D1:D3,"*p*",A1:A3,2)', '=A1%+-B1*(C1-1)&"t"=D2']
    fsheet = {(0, 0): 1, (0, 1): 2, (0, 2): 3, (1, 0): 4, (1, 1): 5, (1, 2): 6, (2, 0): 7, (2, 1): 8, (2, 2): 9, (3, 0): 'apple', (3, 1): 'pear', (3, 2): 'avocado'}
    for i, f in enumerate(feats):
        fsheet[(5, i)] = f
    w1.append(('Features', dict(fsheet)))
    fsheet2 = dict(fsheet)
    fsheet2[(0, 0)] = 2
    w2.append(('Features', fsheet2))
    return {'w1': w1, 'w2': w2, 'w3': w3}


def entry_cell(e, style=0):
    """A *fresh* Cell object for entry id e. style varies the addressing spelling."""
    if e == 'whole':
        return None
    if e == 'eA':
        return Cell('Main', 'A', '1')          # by title and A1 address
    if e == 'eB':
        return Cell(0, 1, 1)                   # by numbers: sheet 0, column B, row 2
    raise ValueError(e)


def result_id(fn):
    try:
        t = fn()
        return 'text:' + hashlib.sha256(t.encode()).hexdigest()[:20]
    except repo.E2PyclException as ex:
        if 'file path is not set' in str(ex):
            return 'lib:nopath'
        return 'exc:' + type(ex).__name__
    except Exception as ex:  # foreign exception: still an observable outcome
        return 'foreign:' + type(ex).__name__


class World:
    """The files on disk + the reference table T measured with brand-new Parser objects."""

    def __init__(self, d):
        self.dir = d
        self.files = {}
        for name, sheets in workbooks().items():
            self.files[name] = repo.write_xlsx(os.path.join(d, name + '.xlsx'), sheets)
        self.tbl = {}
        for p in PATHS:
            for e in ENTRIES:
                for s in ('on', 'off'):
                    self.tbl[(p, e, s)] = self.fresh(p, e, s)

    def fresh(self, p, e, s):
        ps = Parser().set_excel_file_path(self.files[p])
        c = entry_cell(e)
        if c is not None:
            ps.set_entrypoint_cell(c)
        (ps.enable_safety_check if s == 'on' else ps.disable_safety_check)()
        return result_id(ps.get_translation)


_W = {}


def world():
    if 'w' not in _W:
        d = tempfile.mkdtemp(prefix='c09w-', dir=os.environ.get('E2P_SCRATCH', '/var/tmp'))
        _W['w'] = World(d)
    return _W['w']


def play(hist, reuse=True):
    """Run a call history on ONE real Parser. Returns the list of observed events.
    reuse=True: one Cell object per entry id is created once and re-used for every set_entry
    (and is therefore still held by the parser across path changes)."""
    w = world()
    ps = Parser()
    objs = {}
    obs = []
    outfile = os.path.join(w.dir, f'out-{os.getpid()}.py')
    if os.path.exists(outfile):
        os.remove(outfile)
    priv = os.path.join(w.dir, f'priv-{os.getpid()}.xlsx') if any(st['call'] == 'path' and '@' in st.get('arg', '') for st in hist) else None
    for st in hist:
        call, arg = st['call'], st.get('arg', '')
        ev = {'call': call, 'arg': arg}
        if call == 'path':
            if priv is not None and arg in ('w1', 'w2@1'):
                # 'w2@1': the file at w1's path has been REPLACED by workbook w2 (same path string); 'w1': w1's own content is back
                shutil.copyfile(w.files['w2' if arg == 'w2@1' else 'w1'], priv)
                ps.set_excel_file_path(priv)
            else:
                ps.set_excel_file_path(w.files[arg])
        elif call == 'entry':
            if arg == 'whole':
                ps.set_entrypoint_cell(None)
            else:
                if reuse:
                    c = objs.setdefault(arg, entry_cell(arg, st.get('style', 0)))
                else:
                    c = entry_cell(arg, st.get('style', 0))
                ps.set_entrypoint_cell(c)
        elif call == 'enable':
            ps.enable_safety_check()
        elif call == 'disable':
            ps.disable_safety_check()
        elif call == 'get':
            ev['res'] = result_id(ps.get_translation)
        elif call == 'write':
            # the output file of an earlier write of this history stays where it is (a later write goes to the same path)
            def content():
                if not os.path.exists(outfile):
                    return 'none'
                with open(outfile, encoding='utf-8') as f:
                    return 'text:' + hashlib.sha256(f.read().encode()).hexdigest()[:20]
            before = content()

            def wr():
                ps.write_translation(outfile)
                return ps._translation
            ev['res'] = result_id(wr)
            after = content()
            ev['file'] = 'unchanged' if (after == before and not ev['res'].startswith('text:')) else after
        obs.append(ev)
    return obs


def expected(w, exp):
    if exp == ['nopath']:
        return 'lib:nopath'
    exp = list(exp)
    exp[0] = exp[0].split('@')[0]           # 'w2@1' = workbook w2 stored at w1's path: the text is that of w2
    return w.tbl[tuple(exp)]


def judge_history(hist, reuse):
    """Returns (conforms, clause, observed events)."""
    w = world()
    obs = play(hist, reuse)
    for i, (st, ev) in enumerate(zip(hist, obs)):
        if st['call'] in ('get', 'write'):
            want = expected(w, st['exp'])
            if ev['res'] != want:
                return False, f"step {i + 1} {st['call']}: result {ev['res']} but settings in force {st['exp']} give {want}", obs
            if st['call'] == 'write':
                if ev['res'].startswith('text:') and ev['file'] != ev['res']:
                    return False, f"step {i + 1} write: file {ev['file']} differs from returned text {ev['res']}", obs
                if not ev['res'].startswith('text:') and ev['file'] != 'unchanged':
                    return False, f"step {i + 1} write: a file was written although translation raised", obs
    return True, '', obs


def _job(args):
    hist, reuse = args
    try:
        return judge_history(hist, reuse)
    except Exception as e:  # harness failure must not look like a verdict
        return None, f'harness: {type(e).__name__}: {e}', []


def _setup_world(run):
    os.environ['E2P_SCRATCH'] = run.scratch
    return world()


def mc(run):
    base = ['SPECIFICATION Spec'] + CONST + ['CONSTANT Objs = {"o1","o2"}', 'CONSTANT Raises <- McRaises']
    r = run.tlc('MC_ParserFacadeImpl', base + ['CONSTANT Variant = "fixed"', 'PROPERTY Refines', 'INVARIANT CacheCoherent'],
                workers=8, timeout=600, tag='MC_ParserFacadeImpl_fixed', coverage=True)
    run.vacuity(r, ['SetPath', 'SetEntry', 'SetSafety', 'Translate'])
    # census on the pinned design: must fail (otherwise the model no longer captures the repaired defect)
    rp = run.tlc('MC_ParserFacadeImpl', base + ['CONSTANT Variant = "pinned"', 'PROPERTY Refines', 'INVARIANT CacheCoherent'],
                 workers=4, timeout=300, tag='MC_ParserFacadeImpl_pinned', expect_ok=False)
    if rp.ok:
        raise core.MachineryError('the pinned-variant model unexpectedly refines the ideal facade')
    run.notes.append(f'pinned-variant census: {rp.violated} violated after {len(rp.error_trace)} states (expected)')
    maxlen = 2 if run.quick else 3
    r2 = run.tlc('MC_TokenTables', ['SPECIFICATION Spec', f'CONSTANTS Threads = {{"t1","t2"{"" if run.quick else ",\"t3\""}}} Composite = {{"A","B"}}',
                                    'INVARIANT UsersSeeEquivalentTable', 'INVARIANT TypeOK', 'PROPERTY Converges'],
                 workers=4, timeout=600, deadlock=False, coverage=True)
    run.vacuity(r2, ['Check', 'Compute', 'Assign', 'AppendUndef', 'Use'])


def gen(run):
    w = _setup_world(run)
    maxlen = 4 if run.quick else 5
    r = run.tlc('Gen_C09', ['SPECIFICATION GSpec'] + CONST + [f'CONSTANT MaxLen = {maxlen}',
                                                               'PROPERTY OutIsCurrent', 'PROPERTY GetIdempotent',
                                                               'PROPERTY FileEqualsOut'],
                workers=2, timeout=900)
    seen, hists = set(), []
    for rec in r.records:
        k = json.dumps(rec['h'], sort_keys=True)
        if k not in seen:
            seen.add(k)
            hists.append(rec['h'])
    run.exhaustive[f'call histories <= {maxlen}'] = True
    # a workbook file that is replaced under the SAME path string and announced again: the next result is that of the new content
    r2 = run.tlc('Gen_C09', ['SPECIFICATION GSpec', 'CONSTANTS Paths = {"w1", "w2@1"} Entries = {"whole", "eA"} NoPath = "nopath"', f'CONSTANT MaxLen = {maxlen + 1}',
                             'PROPERTY OutIsCurrent', 'PROPERTY GetIdempotent', 'PROPERTY FileEqualsOut'], workers=2, timeout=900, tag='Gen_C09_replaced')
    for rec in r2.records:
        if any(st['call'] == 'path' and '@' in st['arg'] for st in rec['h']):
            k = json.dumps(rec['h'], sort_keys=True)
            if k not in seen:
                seen.add(k)
                hists.append(rec['h'])
    run.exhaustive[f'call histories <= {maxlen + 1} over a path whose file is replaced'] = True
    jobs = []
    for h in hists:
        jobs.append((h, True))
        if any(s['call'] == 'entry' and s['arg'] != 'whole' for s in h):
            jobs.append((h, False))
    res = core.pmap(_job, jobs)
    for (h, reuse), (ok, clause, obs) in zip(jobs, res):
        if ok is None:
            raise core.MachineryError(clause)
        settings = {tuple(s['exp']) for s in h if s['exp']}
        case = {'in': {'hist': h, 'reuse_cell_objects': reuse}, 'obs': obs, 'kind': 'history'}
        run.judge(case, ok, clause=clause, nontrivial=len(settings) > 1 or any(len(s['exp']) == 3 for s in h), part='gen')
        run.traces_validated += 1
    return hists


def random_history(rng, n):
    h = []
    for _ in range(n):
        x = rng.random()
        if x < 0.22:
            h.append({'call': 'path', 'arg': rng.choice(PATHS)})
        elif x < 0.44:
            h.append({'call': 'entry', 'arg': rng.choice(ENTRIES), 'style': rng.randint(0, 1)})
        elif x < 0.52:
            h.append({'call': 'enable', 'arg': ''})
        elif x < 0.60:
            h.append({'call': 'disable', 'arg': ''})
        elif x < 0.85:
            h.append({'call': 'get', 'arg': ''})
        else:
            h.append({'call': 'write', 'arg': ''})
    return h


def _play_job(args):
    h, reuse = args
    return play(h, reuse)


def trace(run):
    """Direction B: long random histories, recorded from the real Parser, validated by TLC."""
    w = _setup_world(run)
    n, ln = (150, 25) if run.quick else (1500, 40)
    jobs = [(random_history(run.rng, ln), run.rng.random() < 0.7) for _ in range(n)]
    traces = core.pmap(_play_job, jobs)
    tbl = [{'p': p, 'e': e, 's': s, 'id': i} for (p, e, s), i in sorted(w.tbl.items())]
    # spec-level events: safety as on/off strings; file field only on write
    evs = []
    for tr in traces:
        evs.append([{'call': e['call'], 'arg': e.get('arg', ''), 'res': e.get('res', ''), 'file': e.get('file', '')} for e in tr])
    rejected = validate_traces(run, evs, tbl)
    for i, (tr, (h, reuse)) in enumerate(zip(evs, jobs)):
        rej = rejected.get(i + 1)
        case = {'in': {'hist': h, 'reuse_cell_objects': reuse}, 'obs': tr, 'kind': 'trace'}
        run.judge(case, rej is None, clause=f'Trace_C09 rejected event {rej[0]}: {rej[1]}' if rej else '', part='trace')
        run.traces_validated += 1


def validate_traces(run, evs, tbl, tag='Trace_C09'):
    path = os.path.join(run.scratch, tag + '.json')
    tbl2 = [dict(t, s=(t['s'] == 'on')) for t in tbl]
    with open(path, 'w') as f:
        json.dump({'tbl': tbl2, 'traces': evs}, f)
    r = run.tlc('Trace_C09', ['SPECIFICATION Spec'], workers=1, timeout=900, env={'TRACE_FILE': path}, tag=tag)
    rejected, done = {}, False
    from harness.tlc import parse_tuple
    for t in r.tuples:
        v = parse_tuple(t)
        if v[0] == 'REJECT':
            rejected[v[1]] = (v[2], v[3])
        elif v[0] == 'DONE' and v[1] == len(evs) + 1:
            done = True
    if not done:
        raise core.MachineryError('Trace_C09 did not consume all traces')
    return rejected


# ---------------------------------------------------------------- environment independence
ENV_SNIPPET = r'''
import sys, hashlib, json, threading
sys.path.insert(0, {repo!r})
import warnings; warnings.simplefilter('ignore')
from excel2pycl import Parser, Cell
files = {files!r}
mode, pre, nthreads = {mode!r}, {pre}, {nthreads}
def tr(p, e):
    ps = Parser().set_excel_file_path(files[p]).disable_safety_check()
    if e == 'eA': ps.set_entrypoint_cell(Cell('Main', 'A', '1'))
    if e == 'eB': ps.set_entrypoint_cell(Cell(0, 1, 1))
    return hashlib.sha256(ps.get_translation().encode()).hexdigest()[:20]
combos = [(p, e) for p in sorted(files) for e in ('whole', 'eA', 'eB')]
out = {{}}
if mode == 'seq':
    for i in range(pre):
        tr(*combos[(i * 5 + 3) % len(combos)])
    for c in combos:
        out['/'.join(c)] = tr(*c)
else:
    sys.setswitchinterval(1e-6)
    res = {{}}
    def work(k):
        for j, c in enumerate(combos):
            if j % nthreads == k:
                res['/'.join(c)] = tr(*c)
    ts = [threading.Thread(target=work, args=(k,)) for k in range(nthreads)]
    [t.start() for t in ts]; [t.join() for t in ts]
    out = res
print(json.dumps(out, sort_keys=True))
'''


def _env_job(args):
    seed, mode, pre, nthreads, files = args
    code = ENV_SNIPPET.format(repo=repo.REPO, files=files, mode=mode, pre=pre, nthreads=nthreads)
    e = dict(os.environ, PYTHONHASHSEED=str(seed))
    p = subprocess.run([sys.executable, '-c', code], env=e, stdout=subprocess.PIPE, stderr=subprocess.PIPE, text=True, timeout=300)
    if p.returncode != 0:
        return {'error': p.stderr[-500:]}
    return json.loads(p.stdout.strip().splitlines()[-1])


def env_independence(run):
    w = _setup_world(run)
    ref = {f'{p}/{e}': w.tbl[(p, e, 'off')].replace('text:', '') for p in PATHS for e in ENTRIES}
    seeds = range(8) if run.quick else range(48)
    jobs = []
    for s in seeds:
        jobs.append((s, 'seq', 0, 0, w.files))
        jobs.append((s, 'seq', 3, 0, w.files))
    reps = 24 if run.quick else 300
    for i in range(reps):
        jobs.append((i % 16, 'thr', 0, 2 + i % 3, w.files))
    res = core.pmap(_env_job, jobs, chunksize=1)
    for (seed, mode, pre, nthreads, _), out in zip(jobs, res):
        if 'error' in out:
            raise core.MachineryError('env subprocess failed: ' + out['error'])
        bad = {k: (v, ref[k]) for k, v in out.items() if ref.get(k) != v}
        case = {'in': {'hash_seed': seed, 'mode': mode, 'earlier_translations': pre, 'threads': nthreads},
                'obs': bad or 'identical', 'kind': 'env'}
        run.judge(case, not bad and len(out) == len(ref),
                  clause='text differs from the reference process: ' + json.dumps(bad)[:300], part='env')


def check(run):
    run.rule = ('call histories enumerated by TLC from the ideal facade (all sequences up to the bound, dedup by history) '
                'replayed on a real Parser with re-used and with fresh Cell objects; random long histories validated by '
                'Trace_C09; subprocess sweeps over hash seeds / earlier translations / threads. Non-trivial = the history '
                'queries under at least one fully set configuration.')
    run.assumptions += ['openpyxl writer/reader', 'sha256 prefix (80 bit) as text identity',
                        'thread interleavings are sampled (CPython preemption is not controllable); the lazy '
                        'token-table initialisation is model-checked exhaustively in TokenTables']
    mc(run)
    gen(run)
    trace(run)
    env_independence(run)
    from harness.props import e2pw
    e2pw.check(run)            # the whole pipeline: a file replaced under its path, the Parser, the written class file, executors (spec/E2PW.tla)


def replay(run, case):
    _setup_world(run)
    if case.get('kind') == 'env':
        i = case['in']
        w = world()
        out = _env_job((i['hash_seed'], i['mode'], i['earlier_translations'], i['threads'], w.files))
        ref = {f'{p}/{e}': w.tbl[(p, e, 'off')].replace('text:', '') for p in PATHS for e in ENTRIES}
        bad = {k: (v, ref[k]) for k, v in out.items() if ref.get(k) != v}
        run.judge(case, not bad, clause='text differs: ' + json.dumps(bad)[:300])
        return
    h = case['in']['hist']
    if all('exp' in s for s in h):
        ok, clause, obs = judge_history(h, case['in']['reuse_cell_objects'])
        run.judge(dict(case, obs=obs), ok, clause=clause)
    else:
        w = world()
        tr = play(h, case['in']['reuse_cell_objects'])
        evs = [[{'call': e['call'], 'arg': e.get('arg', ''), 'res': e.get('res', ''), 'file': e.get('file', '')} for e in tr]]
        tbl = [{'p': p, 'e': e, 's': s, 'id': i} for (p, e, s), i in sorted(w.tbl.items())]
        rej = validate_traces(run, evs, tbl).get(1)
        run.judge(dict(case, obs=tr), rej is None, clause=f'Trace_C09 rejected event {rej}' if rej else '')
