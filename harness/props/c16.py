"""C16 - rounding and percent are decimal-exact.

MC   : MC_XlRounding: idempotence, monotonicity, half-quantum bound, bracket, odd symmetry, representable => unchanged,
       ties away from zero, on the exact-decimal oracle for every m in -M..M (scale 4) x digit counts -3..6.
GEN  : Gen_C16: sign x integer part x four fractional digits, with the exact results of ROUND / ROUNDUP / ROUNDDOWN for
       every digit count -3..6 and of x%. Each decimal is supplied to the real pipeline as an override (all), as a
       workbook cell and as a literal (samples), digit count as literal or as a cell; compared in exact decimal mode.
TRACE: random decimals (scale <= 6, <= 9 significant digits) recorded from the real code, recomputed by TLC (Trace_C16).
"""
import json
import os
import random
from decimal import Decimal

from harness import absval, core, repo

NS = [-3, -2, -1, 0, 1, 2, 3, 4, 5, 6]
FUNS = [('R', 'ROUND'), ('U', 'ROUNDUP'), ('D', 'ROUNDDOWN')]


def pyval(m, s):
    if s == 0:
        return m
    return float(Decimal(m).scaleb(-s))


def lit(m, s):
    d = Decimal(abs(m)).scaleb(-s)
    t = format(d, 'f')
    return ('-' if m < 0 else '') + t


_PROBE = None


def probe():
    global _PROBE
    if _PROBE is None:
        forms = [f'={f}(A1,{n})' for _, f in FUNS for n in NS] + ['=A1%'] + [f'={f}(A1,B1)' for _, f in FUNS]
        # 34..37: the digit count left out (no second argument / an empty one): zero digits
        forms += ['=ROUNDUP(A1)', '=ROUNDUP(A1,)', '=ROUNDDOWN(A1)', '=ROUNDDOWN(A1,)']
        # B1 (the digit count of the last three formulas) holds a whole number in the workbook; the runs override it
        _PROBE = repo.Probe(forms, {(1, 0): 2})
    return _PROBE


def dec(kind, p):
    """raw result -> (m, s) exact decimal or None"""
    if kind != 'val':
        return None
    if isinstance(p, bool):
        return None
    if absval.is_empty_cell(p):
        return (0, 0)
    if isinstance(p, int):
        return (p, 0) if abs(p) < 2 ** 31 else None
    if isinstance(p, float):
        j = absval.dec_of_float(p)
        return (j['m'], j['s']) if j['k'] == 'dec' else None
    return None


def show(kind, p):
    return repr(p) if kind == 'val' else f'{kind}:{type(p).__name__}: {p}'[:100]


def _job_ovr(recs):
    try:
        p = probe()
        out = []
        for rec in recs:
            res = p.eval([(0, 0, 0, pyval(rec['m'], rec['s']))], idxs=range(31))
            bad = []
            k = 0
            for key, f in FUNS:
                for j, n in enumerate(NS):
                    exp = tuple(rec[key][j])
                    got = dec(*res[k])
                    if got != exp:
                        bad.append((f, n, exp, show(*res[k])))
                    k += 1
            got = dec(*res[30])
            if got != tuple(rec['P']):
                bad.append(('PCT', 0, tuple(rec['P']), show(*res[30])))
            z = NS.index(0)
            for (key, f), r in zip((('U', 'ROUNDUP, no digit count'), ('U', 'ROUNDUP, empty digit count'), ('D', 'ROUNDDOWN, no digit count'), ('D', 'ROUNDDOWN, empty digit count')),
                                   p.eval([(0, 0, 0, pyval(rec['m'], rec['s']))], idxs=range(34, 38))):
                if dec(*r) != tuple(rec[key][z]):
                    bad.append((f, 0, tuple(rec[key][z]), show(*r)))
            out.append(bad)
        return out
    except Exception as e:
        return {'harness_error': f'{type(e).__name__}: {e}'}


def _job_other(args):
    """cell / lit / digits-as-cell modes on a sample: one workbook per chunk."""
    mode, recs = args
    try:
        out = []
        if mode == 'ncell':
            p = probe()
            for rec in recs:
                bad = []
                for j, n in enumerate(NS):
                    res = p.eval([(0, 0, 0, pyval(rec['m'], rec['s'])), (0, 1, 0, n)], idxs=range(31, 34))
                    for (key, f), r in zip(FUNS, res):
                        if dec(*r) != tuple(rec[key][j]):
                            bad.append((f, n, tuple(rec[key][j]), show(*r)))
                out.append(bad)
            return out
        consts, forms = {}, []
        for i, rec in enumerate(recs):
            if mode == 'cell':
                consts[(0, i)] = pyval(rec['m'], rec['s'])
                arg = f'A{i + 1}'
            else:
                arg = lit(rec['m'], rec['s'])
            forms += [f'={f}({arg},{n})' for _, f in FUNS for n in NS] + [f'={arg}%']
        res = repo.Probe(forms, consts).eval()
        for i, rec in enumerate(recs):
            bad, k = [], 31 * i
            for key, f in FUNS:
                for j, n in enumerate(NS):
                    if dec(*res[k]) != tuple(rec[key][j]):
                        bad.append((f, n, tuple(rec[key][j]), show(*res[k])))
                    k += 1
            if dec(*res[k]) != tuple(rec['P']):
                bad.append(('PCT', 0, tuple(rec['P']), show(*res[k])))
            out.append(bad)
        return out
    except Exception as e:
        return {'harness_error': f'{type(e).__name__}: {e}'}


def record(run, rec, bads, mode, part):
    x = lit(rec['m'], rec['s'])
    n_cases = 31 if mode != 'ncell' else 30
    run.evaluations += n_cases - 1
    run.traces_validated += n_cases
    for (f, n, exp, got) in bads[:3]:
        case = {'in': {'f': f, 'x': x, 'm': rec['m'], 's': rec['s'], 'n': n, 'mode': mode}, 'ideal': str(Decimal(exp[0]).scaleb(-exp[1])),
                'obs': got, 'kind': part}
        what = f'{x}% ' if f == 'PCT' else f'{f}({x},{n}) '
        run.judge(case, False, clause=what + f'(operand as {mode}) = {got}, the exact decimal result is {case["ideal"]}', part=part)
    if not bads:
        run.judge({'in': {'x': x, 'm': rec['m'], 's': rec['s'], 'mode': mode}, 'obs': 'all results exact', 'kind': part}, True,
                  nontrivial=(rec['m'] % 10000 != 0), part=part)


def gen(run):
    if run.quick:
        cfg = ['CONSTANT IntParts = {0, 1, 2, 10, 1234}', 'CONSTANT FracStep = 50', 'CONSTANT FracRes = {0, 1, 5, 25, 45, 49}']
    else:
        cfg = ['CONSTANT IntParts = {0, 1, 2, 9, 10, 99, 100, 999, 1234}', 'CONSTANT FracStep = 1', 'CONSTANT FracRes = {0}']
    r = run.tlc('Gen_C16', ['INIT Init', 'NEXT Next'] + cfg, workers=4, timeout=3000, heap='8g')
    recs = r.records
    run.exhaustive['decimal grid x digit counts -3..6 x 3 functions + percent'] = True
    res = core.pmap(_job_ovr, core.chunks(recs, 200), chunksize=1)
    flat = []
    for out in res:
        if isinstance(out, dict):
            raise core.MachineryError(out['harness_error'])
        flat += out
    for rec, bads in zip(recs, flat):
        record(run, rec, bads, 'ovr', 'gen')
    rng = random.Random(run.seed + 16)
    k = 600 if run.quick else 6000
    for mode in ('cell', 'lit', 'ncell'):
        sample = rng.sample(recs, min(k, len(recs)))
        outs = core.pmap(_job_other, [(mode, c) for c in core.chunks(sample, 25)], chunksize=1)
        flat = []
        for out in outs:
            if isinstance(out, dict):
                raise core.MachineryError(out['harness_error'])
            flat += out
        for rec, bads in zip(sample, flat):
            record(run, rec, bads, mode, 'gen_' + mode)
    # public path sample
    sample = rng.sample(recs, min(30 if run.quick else 200, len(recs)))
    cells = {}
    for i, rec in enumerate(sample):
        cells[(0, i)] = pyval(rec['m'], rec['s'])
        k2 = 1
        for _, f in FUNS:
            for n in NS:
                cells[(k2, i)] = f'={f}(A{i + 1},{n})'
                k2 += 1
        cells[(k2, i)] = f'=A{i + 1}%'
    res = repo.public_path_eval(run.scratch, [('S', cells)], [(0, c, i) for i in range(len(sample)) for c in range(1, 32)], tag='c16pp')
    for i, rec in enumerate(sample):
        bads, k2 = [], 31 * i
        for key, f in FUNS:
            for j, n in enumerate(NS):
                if dec(*res[k2]) != tuple(rec[key][j]):
                    bads.append((f, n, tuple(rec[key][j]), show(*res[k2])))
                k2 += 1
        if dec(*res[k2]) != tuple(rec['P']):
            bads.append(('PCT', 0, tuple(rec['P']), show(*res[k2])))
        record(run, rec, bads, 'file', 'public_path')


# ---------------------------------------------------------------- direction B
def _trace_job(seeds):
    try:
        p = probe()
        ev = p.session().eval if seeds and (seeds[0] // 50) % 2 else p.eval       # every second batch: ONE Executor for the whole sequence
        out = []
        for sd in seeds:
            rng = random.Random(sd)
            s = rng.randint(0, 6)
            digits = rng.randint(1, 9)
            m = rng.randint(0, 10 ** digits - 1) * rng.choice([1, -1])
            if rng.random() < 0.3 and s > 0:            # force a tie at some position
                m = (m // 10) * 10 + 5 * (1 if m >= 0 else 1)
            x = pyval(m, s)
            res = ev([(0, 0, 0, x)], idxs=range(31))
            k = 0
            for _, f in FUNS:
                for n in NS:
                    d = dec(*res[k])
                    out.append({'f': f, 'm': m, 's': s, 'n': n, 'om': d[0] if d else 0, 'os': d[1] if d else -1, 'raw': show(*res[k])})
                    k += 1
            d = dec(*res[30])
            out.append({'f': 'PCT', 'm': m, 's': s, 'n': 0, 'om': d[0] if d else 0, 'os': d[1] if d else -1, 'raw': show(*res[30])})
        return out
    except Exception as e:
        return {'harness_error': f'{type(e).__name__}: {e}'}


def validate(run, events, tag='Trace_C16'):
    from harness.tlc import parse_tuple
    verdicts = {}
    base = 0
    for pi, part in enumerate(core.chunks(events, 20000)):
        path = os.path.join(run.scratch, f'{tag}_{pi}.json')
        json.dump({'events': [{k: e[k] for k in ('f', 'm', 's', 'n', 'om', 'os')} for e in part]}, open(path, 'w'))
        r = run.tlc('Trace_C16', ['SPECIFICATION Spec'], workers=1, timeout=1800, env={'TRACE_FILE': path}, tag=f'{tag}_{pi}')
        done = False
        for t in r.tuples:
            v = parse_tuple(t)
            if v[0] == 'V':
                verdicts[base + v[1]] = (v[2], v[3])
            elif v[0] == 'DONE' and v[1] == len(part) + 1:
                done = True
        if not done:
            raise core.MachineryError(f'{tag}: not all events consumed')
        base += len(part)
    return verdicts


def trace(run):
    n = 300 if run.quick else 6000
    seeds = [run.seed * 1000003 + i for i in range(n)]
    outs = core.pmap(_trace_job, core.chunks(seeds, 50), chunksize=1)
    evs = []
    for o in outs:
        if isinstance(o, dict):
            raise core.MachineryError(o['harness_error'])
        evs += o
    verdicts = validate(run, evs)
    nbad = 0
    for i, e in enumerate(evs):
        v = verdicts.get(i + 1)
        run.evaluations += 1
        run.traces_validated += 1
        if v is None:
            if i % 31 == 0:
                run.mark_nontrivial(('t', e['m'], e['s']))
            continue
        nbad += 1
        if nbad <= 40:
            exp = v[1]
            case = {'in': {'f': e['f'], 'm': e['m'], 's': e['s'], 'n': e['n'], 'x': lit(e['m'], e['s']), 'mode': 'ovr'},
                    'ideal': str(Decimal(exp[0]).scaleb(-exp[1])), 'obs': e['raw'], 'kind': 'trace'}
            run.judge(case, False, clause=f"Trace_C16: {e['f']}({case['in']['x']},{e['n']}) = {e['raw']}, exact decimal result {case['ideal']}", part='trace')
    run.parts['trace'] = len(evs)


# ---------------------------------------------------------------- direction B, long decimals (10..15 significant digits)
def canon_big(kind, p):
    """raw result -> {'neg', 'd', 's'} canonical digit form (XlRoundingBig!Canon) or None"""
    if kind != 'val' or isinstance(p, bool):
        return None
    if absval.is_empty_cell(p):
        return {'neg': False, 'd': [], 's': 0}
    if isinstance(p, int):
        d = Decimal(p)
    elif isinstance(p, float) and p == p and p not in (float('inf'), float('-inf')):
        d = Decimal(repr(p))
    else:
        return None
    sign, digits, exp = d.as_tuple()
    digits = list(digits)
    sc = -exp
    if sc < 0:
        digits += [0] * (-sc)
        sc = 0
    while digits and digits[0] == 0:
        digits.pop(0)
    if not digits:
        return {'neg': False, 'd': [], 's': 0}
    while sc > 0 and digits[-1] == 0:
        digits.pop()
        sc -= 1
    if len(digits) > 40:
        return None
    return {'neg': bool(sign), 'd': digits, 's': sc}


def big_value(neg, d, s):
    m = int(''.join(map(str, d)) or '0') * (-1 if neg else 1)
    return m if s == 0 else float(Decimal(m).scaleb(-s))


def big_lit(neg, d, s):
    return lit(int(''.join(map(str, d)) or '0') * (-1 if neg else 1), s)


def _big_event(ev, neg, d, s):
    x = big_value(neg, d, s)
    res = ev([(0, 0, 0, x)], idxs=range(31))
    out = []
    k = 0
    for _, f in FUNS:
        for n in NS:
            c = canon_big(*res[k])
            out.append({'f': f, 'neg': neg, 'd': d, 's': s, 'n': n, 'oneg': c['neg'] if c else False, 'od': c['d'] if c else [],
                        'os': c['s'] if c else -1, 'raw': show(*res[k])})
            k += 1
    c = canon_big(*res[30])
    out.append({'f': 'PCT', 'neg': neg, 'd': d, 's': s, 'n': 0, 'oneg': c['neg'] if c else False, 'od': c['d'] if c else [],
                'os': c['s'] if c else -1, 'raw': show(*res[30])})
    return out


def _trace_big_job(seeds):
    try:
        p = probe()
        ev = p.session().eval if seeds and (seeds[0] // 50) % 2 else p.eval
        out = []
        for sd in seeds:
            rng = random.Random(sd)
            nd = rng.randint(10, 15)                    # significant digits
            s = rng.randint(0, 6)
            d = [rng.randint(1, 9)] + [rng.randint(0, 9) for _ in range(nd - 1)]
            x = rng.random()
            if s > 0 and x < 0.3:                       # a tie at some position behind the point, zeros after it
                k = rng.randint(1, s)
                d = d[:nd - k] + [5] + [0] * (k - 1)
                if rng.random() < 0.5 and nd - k >= 1:
                    d[nd - k - 1] = rng.choice([0, 2, 4, 6, 8])     # an even digit before the tie (half-to-even would go down)
            elif x < 0.45:                              # nines: the carry runs through the whole number
                j = rng.randint(0, nd - 1)
                d = d[:j] + [9] * (nd - j)
            elif s > 0 and x < 0.6:                     # one unit above / below a grid point at some position
                k = rng.randint(1, s)
                d = d[:nd - k] + [0] * (k - 1) + [1] if rng.random() < 0.5 else d[:nd - k] + [9] * k
            if d[-1] == 0 and s > 0:
                d[-1] = rng.randint(1, 9)               # keep the number of significant digits (the value's scale is exactly s)
            out += _big_event(ev, rng.random() < 0.5, d, s)
        return out
    except Exception as e:
        return {'harness_error': f'{type(e).__name__}: {e}'}


def validate_big(run, events, tag='Trace_C16B'):
    from harness.tlc import parse_tuple
    verdicts = {}
    base = 0
    for pi, part in enumerate(core.chunks(events, 20000)):
        path = os.path.join(run.scratch, f'{tag}_{pi}.json')
        json.dump({'events': [{k: e[k] for k in ('f', 'neg', 'd', 's', 'n', 'oneg', 'od', 'os')} for e in part]}, open(path, 'w'))
        r = run.tlc('Trace_C16B', ['SPECIFICATION Spec'], workers=1, timeout=1800, env={'TRACE_FILE': path}, tag=f'{tag}_{pi}')
        done = False
        for t in r.tuples:
            v = parse_tuple(t)
            if v[0] == 'V':
                verdicts[base + v[1]] = v[2]
            elif v[0] == 'DONE' and v[1] == len(part) + 1:
                done = True
        if not done:
            raise core.MachineryError(f'{tag}: not all events consumed')
        base += len(part)
    return verdicts


def ideal_big(f, neg, d, s, n):
    """the exact result as text, for the message only (the verdict is TLC's)"""
    import decimal
    x = Decimal(big_lit(neg, d, s))
    if f == 'PCT':
        return str(x / 100)
    q = Decimal(1).scaleb(-n)
    mode = {'ROUND': decimal.ROUND_HALF_UP, 'ROUNDUP': decimal.ROUND_UP, 'ROUNDDOWN': decimal.ROUND_DOWN}[f]
    with decimal.localcontext() as c:
        c.prec = 60
        return str(x.quantize(q, rounding=mode))


def trace_big(run):
    n = 200 if run.quick else 5000
    seeds = [run.seed * 1000033 + 7 + i for i in range(n)]
    outs = core.pmap(_trace_big_job, core.chunks(seeds, 50), chunksize=1)
    evs = []
    for o in outs:
        if isinstance(o, dict):
            raise core.MachineryError(o['harness_error'])
        evs += o
    verdicts = validate_big(run, evs)
    nbad = 0
    for i, e in enumerate(evs):
        v = verdicts.get(i + 1)
        run.evaluations += 1
        run.traces_validated += 1
        if v is None:
            if i % 31 == 0:
                run.mark_nontrivial(('tb', tuple(e['d']), e['s']))
            continue
        nbad += 1
        if nbad <= 40:
            x = big_lit(e['neg'], e['d'], e['s'])
            case = {'in': {'f': e['f'], 'big': True, 'neg': e['neg'], 'd': e['d'], 's': e['s'], 'n': e['n'], 'x': x, 'mode': 'ovr'},
                    'ideal': ideal_big(e['f'], e['neg'], e['d'], e['s'], e['n']), 'obs': e['raw'], 'kind': 'trace_big'}
            run.judge(case, False, clause=f"Trace_C16B: {e['f']}({x},{e['n']}) = {e['raw']}, exact decimal result {case['ideal']}", part='trace_big')
    run.parts['trace_big'] = len(evs)


def check(run):
    run.rule = ('decimals sign x integer part x 4 fractional digits enumerated by TLC with exact results of ROUND/ROUNDUP/ROUNDDOWN for digit counts '
                '-3..6 and of x%; each supplied as override (all), workbook cell, literal, digit count from a cell (samples) and through the public '
                'file path; compared in exact decimal mode; random decimals judged by Trace_C16, random decimals of 10..15 significant digits (ties, runs of nines, neighbours of grid points) by the digit-level Trace_C16B. Non-trivial = a non-zero fractional part. One '
                'evaluation = one (function, decimal, digit count).')
    run.assumptions += ['which double a decimal denotes is decided by repr() round trip (exact for <= 15 significant digits)',
                        'the grid has at most 4 fractional digits and |x| < 1235 (TLC integers are 32-bit); random decimals up to 9 significant digits there, 10..15 significant digits as digit sequences in XlRoundingBig / Trace_C16B']
    m = 3000 if run.quick else 25000
    run.tlc('MC_XlRounding', ['INIT Init', 'NEXT Next', f'CONSTANT M = {m}', 'INVARIANT Idempotent', 'INVARIANT Monotone', 'INVARIANT HalfQuantum',
                              'INVARIANT Bracket', 'INVARIANT OddSymmetric', 'INVARIANT RepresentableUnchanged', 'INVARIANT TiesAwayFromZero',
                              'INVARIANT NearestOtherwise'], workers=8, timeout=1800)
    gen(run)
    trace(run)
    trace_big(run)


def replay(run, case):
    i = case['in']
    p = probe()
    if i.get('big'):
        k = 30 if i['f'] == 'PCT' else [f for _, f in FUNS].index(i['f']) * 10 + NS.index(i['n'])
        ev = _big_event(p.eval, i['neg'], i['d'], i['s'])[k]
        v = validate_big(run, [ev]).get(1)
        run.judge(dict(case, obs=ev['raw']), v is None, clause=f"{i['f']}({i['x']},{i['n']}) = {ev['raw']}, exact decimal result {case.get('ideal')}")
        return
    x = pyval(i['m'], i['s'])
    if i['f'] == 'PCT':
        res = p.eval([(0, 0, 0, x)], idxs=[30])[0]
    else:
        k = [f for _, f in FUNS].index(i['f']) * 10 + NS.index(i['n'])
        res = p.eval([(0, 0, 0, x)], idxs=[k])[0]
    d = dec(*res)
    ev = {'f': i['f'], 'm': i['m'], 's': i['s'], 'n': i['n'], 'om': d[0] if d else 0, 'os': d[1] if d else -1}
    v = validate(run, [ev]).get(1)
    run.judge(dict(case, obs=show(*res)), v is None, clause=f"{i['f']}({i['x']},{i['n']}) = {show(*res)}, exact decimal result {case.get('ideal')}")
