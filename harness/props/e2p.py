"""E2P - sessions of SEVERAL executors over one translation (spec/E2P.tla, E2PImpl.tla, Gen_E2P.tla, Trace_E2P.tla).

Part of the C04 check (what an executor reports is a function of the workbook and of the overrides supplied to THAT executor) and, through
the sizes, of C06 / C08 / C18 (a new executor and a bare instance report the workbook's sizes; class object and file behave the same).

MC   : E2P (Isolation, NewStartsFromWorkbook, QueriesArePure, UntoldReportsWorkbook, WholeColumnFollowsOwnRows);
       E2PImpl variant "fixed" refines E2P; variants "class_sizes", "executor_copies", "class_args" must NOT (sensitivity of the model).
GEN  : every history of Depth steps (new / drop / set over the executors) with the complete expected snapshot of every live executor
       after every step, replayed on real executors bound to the class object / the written file.
TRACE: random interleavings of set / get / sheet / sizes / new / drop / bare over three executors, judged by Trace_E2P.
"""
import json
import os
import random

from harness import core, repo
from harness.props import exec_common as xc


def mc(run):
    consts = 'CONSTANTS Execs = {1,2} WCoords = {"S1A1","S2C3"} Values = {2,4}' if run.quick else \
             'CONSTANTS Execs = {1,2,3} WCoords = {"S1A1","S2C3"} Values = {2,4}'
    r = run.tlc('MC_E2P', ['SPECIFICATION Spec', consts, 'PROPERTY Isolation', 'PROPERTY NewStartsFromWorkbook', 'PROPERTY QueriesArePure',
                           'INVARIANT UntoldReportsWorkbook', 'INVARIANT WholeColumnFollowsOwnRows'],
                workers=12, timeout=1500, coverage=True, tag='MC_E2P')
    run.vacuity(r, ['New', 'Drop', 'Set', 'Get', 'GetSizes', 'GetSheet', 'Bare'])
    ci = 'CONSTANTS Execs = {1,2} WCoords = {"S1A1","S2C3"} Values = {2,4}'
    r = run.tlc('MC_E2PImpl', ['SPECIFICATION Spec', ci, 'CONSTANT Variant = "fixed"', 'PROPERTY Refines'], workers=12, timeout=1500,
                tag='MC_E2PImpl_fixed', coverage=True)
    run.vacuity(r, ['New', 'Set', 'Get', 'GetSizes', 'GetSheet'])
    for variant in ('class_sizes', 'executor_copies', 'class_args'):
        rv = run.tlc('MC_E2PImpl', ['SPECIFICATION Spec', ci, f'CONSTANT Variant = "{variant}"', 'PROPERTY Refines'], workers=4, timeout=600,
                     tag=f'MC_E2PImpl_{variant}', expect_ok=False)
        if rv.ok:
            raise core.MachineryError(f'the session model with variant {variant} unexpectedly refines the ideal sessions')
        run.notes.append(f'session model, variant {variant}: {rv.violated} violated after {len(rv.error_trace)} states (expected)')


def _same_snapshot(ex, pos, snap, rng, c04):
    order = list(snap['vals'])
    rng.shuffle(order)
    for item in order:
        got = xc.q_get(ex, pos[item['c']], rng.randint(0, 3))
        if not c04.same_small(got, item['v']):
            return f"get {item['c']} = {got} but (workbook (+) the overrides of this executor) gives {item['v']}"
    z = xc.q_sizes(ex)
    if z != snap['sizes']:
        return f"sizes {z} differ from used range (+) the overrides of this executor {snap['sizes']}"
    return ''


def replay(w, h, rng):
    """one Gen_E2P history on real executors. -> (ok, clause)"""
    from harness.props import c04
    pos = w.pos
    exs = {}
    for n, step in enumerate(h):
        a = step['a']
        if a['op'] == 'new':
            exs[a['x']] = xc.new_executor(w, from_file=a['how'] == 'file')
        elif a['op'] == 'drop':
            del exs[a['x']]
        else:
            exs[a['x']].set_cells([xc.mk_cell(pos[a['c']], a['v'], rng.randint(0, 3))])
        for i, e in enumerate(step['after']):
            if not e['live']:
                continue
            bad = _same_snapshot(exs[i + 1], pos, e['snap'], rng, c04)
            if bad:
                return False, f"step {n + 1} ({a['op']} executor {a['x']} {a['how'] or a['c']}): executor {i + 1}: {bad}"
        bare = [{'rows': d['last_row'], 'cols': d['last_column']} for d in w.klass().get_sheets_size()]
        if bare != step['bare']:
            return False, f"step {n + 1}: a new instance of the class object reports sizes {bare}, the workbook has {step['bare']}"
    return True, ''


_W = None


def _gjob(args):
    h, seed = args
    try:
        return replay(_W, h, random.Random(seed))
    except Exception as e:  # noqa
        return None, f'harness: {type(e).__name__}: {e}'


def _lite(w):
    class Lite:
        pass
    lw = Lite()
    lw.pos, lw.pyfile, lw.klass = w.pos, w.pyfile, w.klass
    return lw


def gen(run, w):
    global _W
    _W = _lite(w)
    depth = 4 if run.quick else 5
    coords = '{"S1A1","S2C3","S1F4"}' if run.quick else '{"S1A1","S2C3"}'
    r = run.tlc('Gen_E2P', ['INIT GInit', 'NEXT GNext', f'CONSTANTS Execs = {{1,2}} WCoords = {coords} Values = {{4}} Depth = {depth}', 'CHECK_DEADLOCK FALSE'],
                workers=4, timeout=3000, tag='Gen_E2P', heap='6g')
    hists = [rec['h'] for rec in r.records]
    if not hists:
        raise core.MachineryError('Gen_E2P produced no history')
    run.exhaustive[f'all histories of {depth} new/drop/set steps over 2 executors (class object or file) with two executors alive at once'] = True
    res = core.pmap(_gjob, [(h, run.seed * 7919 + i) for i, h in enumerate(hists)])
    for h, (ok, clause) in zip(hists, res):
        if ok is None:
            raise core.MachineryError(clause)
        case = {'in': {'session': [s['a'] for s in h]}, 'kind': 'e2p_history', 'obs': clause or 'every executor reports its own overrides'}
        run.judge(case, ok, clause=clause, part='e2p_gen', nontrivial=True)
        run.traces_validated += 1


def record(w, rng, n):
    pos = w.pos
    names = sorted(pos)
    wnames = ['S1A1', 'S1B2', 'S1A2', 'S1F4', 'S2B1', 'S2C3']
    exs = {}
    tr = []

    def sizes_of(inst):
        return [{'rows': d['last_row'], 'cols': d['last_column']} for d in inst.get_sheets_size()]
    for _ in range(n):
        x = rng.random()
        live = sorted(exs)
        if not live or (x < 0.12 and len(live) < 3):
            i = rng.choice([k for k in (1, 2, 3) if k not in exs])
            how = 'file' if rng.random() < 0.25 else 'object'
            exs[i] = xc.new_executor(w, from_file=how == 'file')
            tr.append({'ev': 'new', 'x': i, 'how': how, 'res': xc.q_sizes(exs[i])})
            continue
        i = rng.choice(live)
        ex = exs[i]
        if x < 0.16:
            del exs[i]
            tr.append({'ev': 'drop', 'x': i})
        elif x < 0.45:
            c, v = rng.choice(wnames), rng.choice([2, 4, 6, 12])
            ex.set_cells([xc.mk_cell(pos[c], v, rng.randint(0, 3))])
            tr.append({'ev': 'set', 'x': i, 'c': c, 'v': v})
        elif x < 0.75:
            c = rng.choice(names)
            tr.append({'ev': 'get', 'x': i, 'c': c, 'res': xc.q_get(ex, pos[c], rng.randint(0, 3))})
        elif x < 0.85:
            s = rng.choice([1, 2])
            raised, g = xc.q_sheet(ex, s, rng.random() < 0.5)
            tr.append({'ev': 'sheet', 'x': i, 's': s, 'raised': raised, 'res': g})
        elif x < 0.95:
            tr.append({'ev': 'sizes', 'x': i, 'res': xc.q_sizes(ex)})
        else:
            tr.append({'ev': 'bare', 'x': 0, 'res': sizes_of(w.klass())})
    return tr


def _tjob(args):
    seed, n = args
    try:
        return record(_W, random.Random(seed), n)
    except Exception as e:  # noqa
        return {'harness_error': f'{type(e).__name__}: {e}'}


def validate(run, traces, tag='Trace_E2P'):
    from harness.tlc import parse_tuple
    path = os.path.join(run.scratch, tag + '.json')
    json.dump({'traces': traces}, open(path, 'w'))
    r = run.tlc('Trace_E2P', ['SPECIFICATION Spec'], workers=1, timeout=1500, env={'TRACE_FILE': path}, tag=tag)
    rejected, done = {}, False
    for t in r.tuples:
        v = parse_tuple(t)
        if v[0] == 'REJECT':
            rejected[v[1]] = (v[2], v[3])
        elif v[0] == 'DONE' and v[1] == len(traces) + 1:
            done = True
    if not done:
        raise core.MachineryError(f'{tag}: not all traces consumed')
    return rejected


def trace(run, w):
    global _W
    _W = _lite(w)
    n, ln = (150, 40) if run.quick else (2500, 60)
    seeds = [run.seed * 100019 + i for i in range(n)]
    traces = core.pmap(_tjob, [(s, ln) for s in seeds])
    for t in traces:
        if isinstance(t, dict):
            raise core.MachineryError(t['harness_error'])
    rej = validate(run, traces)
    for i, tr in enumerate(traces):
        rj = rej.get(i + 1)
        case = {'in': {'session_seed': seeds[i], 'len': ln}, 'kind': 'e2p_trace', 'obs': tr[:rj[0]] if rj else 'accepted'}
        run.judge(case, rj is None, clause=f'Trace_E2P rejected event {rj[0]}: {rj[1]}' if rj else '', part='e2p_trace')
        run.traces_validated += 1


def check(run, w):
    mc(run)
    gen(run, w)
    trace(run, w)
