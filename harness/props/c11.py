"""C11 - aggregates fold exactly the numeric cells of their arguments.

MC   : MC_XlAggregates: SplitInvariance, OncePerMention, NonNumericIgnored, ScalarCounts, CountBlankExact, MinLeMax,
       AndOrFold on the aggregate oracle for every assignment of 9 content kinds to a 2 x 2 block.
GEN  : Gen_C11: every assignment of content kinds to an R x 2 block x 13 formula shapes (row, column, rectangle, whole
       column(s), several areas, same area twice, other sheet, scalar arguments, single cells, overlap) with SUM / count
       / MIN / MAX (/ COUNTBLANK) of each; AND/OR over operand vectors. The shapes are exported by the specification and
       turned into formulas by the harness; block contents are supplied by overrides (samples: cells, public file path).
       SUM(X,Y) = SUM(X)+SUM(Y) is additionally checked metamorphically inside the same workbook.
TRACE: random 4 x 3 blocks with random rectangles recorded from the real code, recomputed by TLC (Trace_C11).
"""
import json
import os
import random
from fractions import Fraction

from harness import absval, core, repo

FUNS = ['SUM', 'AVERAGE', 'MIN', 'MAX', 'COUNT']
NOVAL = -999999
_S = {}


def a1(r, c):
    return f'{repo.col_letters(c)}{r}'


OFF = 30           # the second probe holds the block 30 columns to the right: beyond the last stored cell of every row (formulas sit in column Z)


def arg_text(arg, off=0):
    if 'far' in arg:
        return 'T!A1:B2'
    if 'lit' in arg:
        q = arg['lit']
        return str(q // 4) if q % 4 == 0 else repr(q / 4)
    r1, c1, r2, c2 = arg['area']
    c1, c2 = c1 + off, c2 + off
    sp = arg.get('spell', 'area')
    if sp == 'cell':
        return a1(r1, c1)
    if sp == 'wcol':
        return f'{repo.col_letters(c1)}:{repo.col_letters(c1)}'
    if sp == 'wcols':
        return f'{repo.col_letters(c1)}:{repo.col_letters(c2)}'
    return f'{a1(r1, c1)}:{a1(r2, c2)}'


def kind_value(kind, i, tab):
    if kind == 'I':
        return tab['ints'][i]
    if kind == 'D':
        return tab['decs4'][i] / 4
    if kind == 'N':
        return -tab['negs'][i]
    if kind == 'Z':
        return 0 if i % 2 == 0 else 0.0          # zero is a number: it is counted, averaged and may be the minimum / maximum
    return {'X': 'x', 'S': '12', 'T': True, 'F': False, 'E': '', 'H': '#41'}.get(kind)


def setup(run, R):
    """shapes (from the spec) -> probe workbook for an R x 2 block"""
    r = run.tlc('Gen_C11', ['INIT Init', 'NEXT Next', 'CONSTANT Kind = "SHAPES"', f'CONSTANT R = {R}', 'CONSTANT Cols = 2'], workers=1, timeout=300,
                tag='Gen_C11_SHAPES')
    tab = r.records[0]
    forms, index = [], []
    for si, sh in enumerate(tab['shapes']):
        args = ','.join(arg_text(a) for a in sh['args'])
        for f in FUNS:
            forms.append(f'={f}({args})')
            index.append((si, f))
        single = len(sh['args']) == 1 and 'area' in sh['args'][0] and sh['args'][0].get('spell') == 'area'
        if single:
            forms.append(f'=COUNTBLANK({args})')
            index.append((si, 'COUNTBLANK'))
        if len(sh['args']) == 2:
            forms.append(f'=SUM({arg_text(sh["args"][0])})+SUM({arg_text(sh["args"][1])})')
            index.append((si, 'SPLITSUM'))
    forms_out = []
    for si, sh in enumerate(tab['shapes']):
        args = ','.join(arg_text(a, OFF) for a in sh['args'])
        forms_out += [f'={f}({args})' for f in FUNS]
        if len(sh['args']) == 1 and 'area' in sh['args'][0] and sh['args'][0].get('spell') == 'area':
            forms_out.append(f'=COUNTBLANK({args})')
        if len(sh['args']) == 2:
            forms_out.append(f'=SUM({arg_text(sh["args"][0], OFF)})+SUM({arg_text(sh["args"][1], OFF)})')
    far = [('T', {(0, 0): 100, (1, 0): 200, (0, 1): 't', (1, 1): 300})]
    _S.update(tab=tab, forms=forms, index=index, R=R, probe=repo.Probe(forms, sheets=far), forms_out=forms_out, probe_out=repo.Probe(forms_out, sheets=far))
    return tab


def num4(kind, p):
    """raw result -> value in quarter units as Fraction, or None"""
    if kind != 'val' or isinstance(p, bool) or not isinstance(p, (int, float)):
        return None
    if absval.is_empty_cell(p):
        return None
    try:
        return Fraction(p) * 4
    except (ValueError, OverflowError):
        return None


def show(kind, p):
    return repr(p) if kind == 'val' else f'{kind}:{type(p).__name__}: {p}'[:100]


def overrides_for(blk, tab, off=0):
    ov = []
    for i, k in enumerate(blk):
        if k == 'B':
            continue
        ov.append((0, i % 2 + off, i // 2, kind_value(k, i, tab)))
    return ov


def _blk_job(recs):
    try:
        p, tab, index = _S['probe'], _S['tab'], _S['index']
        out = []
        for ri, rec in enumerate(recs):
            res = p.eval(overrides_for(rec['blk'], tab))
            both = list(zip(index, res))
            if ri % 3 == 0:
                # the same block held in cells OUTSIDE the stored data of the sheet (contents arrive as overrides only)
                both += [((si, f + '@out'), r) for (si, f), r in zip(index, _S['probe_out'].eval(overrides_for(rec['blk'], tab, OFF)))]
            bad, n = [], 0
            for (si, f0), r in both:
                f = f0.split('@')[0]
                row = rec['row'][si]
                v = num4(*r)
                exp, ok = None, True
                if f == 'SUM' or f == 'SPLITSUM':
                    exp = Fraction(row['s'])
                    ok = v == exp
                elif f == 'COUNT':
                    exp = Fraction(row['n'] * 4)
                    ok = v == exp
                elif f == 'COUNTBLANK':
                    exp = Fraction(row['cb'] * 4)
                    ok = v == exp
                elif row['n'] == 0:
                    continue                     # AVERAGE / MIN / MAX of no numeric cell: not pinned
                elif f == 'AVERAGE':
                    exp = Fraction(row['s'], row['n'])
                    ok = v is not None and abs(v - exp) <= Fraction(1, 10 ** 9)
                elif f == 'MIN':
                    exp = Fraction(row['lo'])
                    ok = v == exp
                elif f == 'MAX':
                    exp = Fraction(row['hi'])
                    ok = v == exp
                n += 1
                if not ok:
                    bad.append((si, f0, str(exp / 4), show(*r)))
            out.append((n, bad))
        return out
    except Exception as e:
        import traceback
        return {'harness_error': f'{type(e).__name__}: {e} {traceback.format_exc()[-400:]}'}


def formula_of(si, f):
    forms = _S['forms_out'] if f.endswith('@out') else _S['forms']
    for (s2, f2), form in zip(_S['index'], forms):
        if s2 == si and f2 == f.split('@')[0]:
            return form + (' (block held outside the stored data)' if f.endswith('@out') else '')
    return '?'


def contents(blk):
    tab = _S['tab']
    return {a1(i // 2 + 1, i % 2 + 1): ('blank' if k == 'B' else kind_value(k, i, tab)) for i, k in enumerate(blk)}


def gen(run):
    R = 2 if run.quick else 3
    setup(run, R)
    r = run.tlc('Gen_C11', ['INIT Init', 'NEXT Next', 'CONSTANT Kind = "BLOCKS"', f'CONSTANT R = {R}', 'CONSTANT Cols = 2'], workers=6, timeout=3000,
                tag='Gen_C11_BLOCKS', heap='8g')
    recs = r.records
    run.exhaustive[f'content kinds on a {R}x2 block x 13 shapes'] = True
    res = core.pmap(_blk_job, core.chunks(recs, 100), chunksize=1)
    flat = []
    for o in res:
        if isinstance(o, dict):
            raise core.MachineryError(o['harness_error'])
        flat += o
    for rec, (n, bad) in zip(recs, flat):
        run.evaluations += n
        run.traces_validated += n
        if not bad:
            run.judge({'in': {'blk': rec['blk']}, 'obs': f'{n} aggregate values equal the folds', 'kind': 'gen_block'}, True, part='gen_blocks',
                      nontrivial=any(k in 'IDNZ' for k in rec['blk']) and any(k not in 'IDNZ' for k in rec['blk']))
            run.evaluations -= 1
        for (si, f, exp, got) in bad[:3]:
            form = formula_of(si, f)
            case = {'in': {'blk': rec['blk'], 'R': R, 'shape': _S['tab']['shapes'][si]['name'], 'f': f, 'formula': form, 'cells': contents(rec['blk']), 'mode': 'ovr'},
                    'ideal': exp, 'obs': got, 'kind': 'gen'}
            run.judge(case, False, clause=f'{form} over {contents(rec["blk"])} = {got}, the fold over the numeric cells gives {exp}', part='gen')
    logic(run)
    count_dates(run)
    public_path(run, recs)


def count_dates(run):
    """COUNT counts dates like numbers, and the count does not depend on how the cells are mentioned: as one area, as single cells, as an
    area plus single cells (each mention counts once). Row 1 holds number, text, date, blank, date-time, TRUE, number, date."""
    import datetime
    row = [5, 'x', datetime.datetime(2024, 3, 1), None, datetime.datetime(2024, 3, 1, 12, 30), True, 2.5, datetime.datetime(1999, 12, 31)]
    forms = ['=COUNT(A1:H1)', '=COUNT(C1)', '=COUNT(C1:C1)', '=COUNT(A1:B1,C1,D1:H1)', '=COUNT(A1:H1,C1)', '=COUNT(A1,B1,C1,D1,E1,F1,G1,H1)', '=COUNT(E1,H1)',
             '=COUNT(A1:D1)+COUNT(E1:H1)', '=COUNT(I1)', '=COUNT(A1:H1,I1)']
    want = [5, 1, 1, 5, 6, 5, 2, 5, 1, 6]
    for mode in ('workbook', 'overrides'):
        consts = {(c, 0): v for c, v in enumerate(row) if v is not None}
        consts[(8, 0)] = '=DATE(2024,1,31)'
        if mode == 'workbook':
            res = repo.Probe(forms, consts).eval()
        else:
            res = repo.Probe(forms, {(8, 0): '=DATE(2024,1,31)'}).eval([(0, c, 0, v) for c, v in enumerate(row) if v is not None])
        for f, w, r in zip(forms, want, res):
            ok = r[0] == 'val' and r[1] == w and not isinstance(r[1], bool)
            run.judge({'in': {'formula': f, 'row': [str(v) for v in row], 'mode': mode, 'f': 'COUNT'}, 'ideal': w, 'obs': show(*r), 'kind': 'count_dates'}, ok,
                      clause=f'{f} over A1..H1 = {[str(v) for v in row]} ({mode}; I1 = DATE(2024,1,31)) = {show(*r)}, expected {w}', part='count_dates')
            run.traces_validated += 1


def logic(run):
    r = run.tlc('Gen_C11', ['INIT Init', 'NEXT Next', 'CONSTANT Kind = "LOGIC"', 'CONSTANT R = 2', 'CONSTANT Cols = 2'], workers=2, timeout=600,
                tag='Gen_C11_LOGIC')
    recs = r.records
    run.exhaustive['AND/OR operand vectors <= 3 over 8 operand kinds'] = True
    outs = core.pmap(_logic_job, core.chunks(recs, 40), chunksize=1)
    flat = []
    for o in outs:
        if isinstance(o, dict):
            raise core.MachineryError(o['harness_error'])
        flat += o
    for rec, obs in zip(recs, flat):
        for mode, (ra, ro, fa, fo) in obs.items():
            for f, r_, form, exp in (('AND', ra, fa, rec['andv']), ('OR', ro, fo, rec['orv'])):
                ok = r_[0] == 'val' and isinstance(r_[1], bool) and r_[1] == exp
                case = {'in': {'f': f, 'vs': rec['vs'], 'formula': form, 'mode': mode}, 'ideal': exp, 'obs': r_[1] if r_[0] == 'val' else str(r_), 'kind': 'logic'}
                run.judge(case, ok, clause=f'{form} ({mode}) = {case["obs"]}, the {"conjunction" if f == "AND" else "disjunction"} of the truth values is {exp}',
                          part='logic', nontrivial=len(rec['vs']) > 1)
                run.traces_validated += 1


def _logic_job(recs):
    try:
        forms_c, consts, forms_l = [], {}, []
        for j, rec in enumerate(recs):
            ac, al = [], []
            for i, v in enumerate(rec['vs']):
                cell = a1(j + 1, i + 1)
                if v['k'] == 'bool':
                    consts[(i, j)] = v['b']
                    ac.append(cell)
                    al.append('TRUE' if v['b'] else 'FALSE')
                elif v['k'] == 'num':
                    x = v['q'] // 4 if v['q'] % 4 == 0 else v['q'] / 4
                    consts[(i, j)] = x
                    ac.append(cell)
                    al.append(repr(x) if x >= 0 else f'(-{-x!r})')
                else:
                    consts[(i, j)] = 5
                    ac.append(f'{cell}>3' if v['b'] else f'{cell}<3')
                    al.append('5>3' if v['b'] else '5<3')
            forms_c += [f'=AND({",".join(ac)})', f'=OR({",".join(ac)})']
            forms_l += [f'=AND({",".join(al)})', f'=OR({",".join(al)})']
        rc = repo.Probe(forms_c, consts).eval()
        rl = repo.Probe(forms_l).eval()
        out = []
        for j in range(len(recs)):
            def pr(r):
                return (r[0], r[1] if r[0] == 'val' and isinstance(r[1], (bool, int, float, str)) and not absval.is_empty_cell(r[1]) else f'{type(r[1]).__name__}')
            out.append({'cell': (pr(rc[2 * j]), pr(rc[2 * j + 1]), forms_c[2 * j], forms_c[2 * j + 1]),
                        'lit': (pr(rl[2 * j]), pr(rl[2 * j + 1]), forms_l[2 * j], forms_l[2 * j + 1])})
        return out
    except Exception as e:
        return {'harness_error': f'{type(e).__name__}: {e}'}


def public_path(run, recs):
    """block contents as real workbook constants, formulas next to them: xlsx -> Parser -> Executor(class_file)"""
    rng = random.Random(run.seed + 11)
    tab, R = _S['tab'], _S['R']
    sample = [r for r in rng.sample(recs, min(len(recs), 6 if run.quick else 40)) if 'E' not in r['blk']]   # openpyxl drops empty strings
    for n, rec in enumerate(sample):
        cells = {}
        for i, k in enumerate(rec['blk']):
            if k != 'B':
                cells[(i % 2, i // 2)] = kind_value(k, i, tab)
        for j, form in enumerate(_S['forms']):
            cells[(25, j)] = form
        res = repo.public_path_eval(run.scratch, [('S', cells), ('T', {(0, 0): 100, (1, 0): 200, (0, 1): 't', (1, 1): 300})],
                                    [(0, 25, j) for j in range(len(_S['forms']))], tag=f'c11pp{n}')
        ev = _events_from(rec, res)
        judge_events(run, ev, 'public_path', cols=2)


def _events_from(rec, res):
    evs = []
    tab = _S['tab']
    for (si, f), r in zip(_S['index'], res):
        if f == 'SPLITSUM':
            continue
        args = []
        ok = True
        for a in tab['shapes'][si]['args']:
            if 'far' in a:
                ok = False
                break
            args.append({'t': 'lit', 'v': a['lit']} if 'lit' in a else {'t': 'area', 'v': a['area']})
        if not ok:
            continue
        evs.append(mk_event(rec['blk'], args, f, r, formula_of(si, f)))
    return evs


def mk_event(blk, args, f, r, form):
    v = num4(*r)
    e = {'blk': blk, 'args': args, 'f': f, 'o': NOVAL, 'on': 0, 'od': 0, 'raw': show(*r), 'formula': form}
    if v is not None:
        if f in ('COUNT', 'COUNTBLANK'):
            if v.denominator == 1 and v % 4 == 0:
                e['o'] = int(v) // 4
        elif f == 'AVERAGE':
            x = (v / 4).limit_denominator(10 ** 6)
            if abs(x - v / 4) < Fraction(1, 10 ** 10) and abs(x.numerator) < 10 ** 7:
                e['on'], e['od'] = x.numerator, x.denominator
        elif v.denominator == 1 and abs(v) < 2 ** 30:
            e['o'] = int(v)
    return e


# ---------------------------------------------------------------- direction B
def validate(run, events, cols, tag):
    from harness.tlc import parse_tuple
    verdicts = {}
    base = 0
    for pi, part in enumerate(core.chunks(events, 15000)):
        path = os.path.join(run.scratch, f'{tag}_{pi}.json')
        json.dump({'events': [{k: e[k] for k in ('blk', 'args', 'f', 'o', 'on', 'od')} for e in part]}, open(path, 'w'))
        r = run.tlc('Trace_C11', ['SPECIFICATION Spec', f'CONSTANT Cols = {cols}'], workers=1, timeout=1800, env={'TRACE_FILE': path}, tag=f'{tag}_{pi}')
        done = False
        for t in r.tuples:
            v = parse_tuple(t)
            if v[0] == 'V':
                verdicts[base + v[1]] = v[2]
            elif v[0] == 'DONE' and v[1] == len(part) + 1:
                done = True
        if not done:
            raise core.MachineryError(f'{tag}: not all events consumed')
        base += len(part)
    return verdicts


def judge_events(run, evs, part, cols):
    verdicts = validate(run, evs, cols, 'Trace_C11_' + part)
    for i, e in enumerate(evs):
        v = verdicts.get(i + 1)
        case = {'in': {'blk': e['blk'], 'args': e['args'], 'f': e['f'], 'formula': e['formula'], 'cols': cols, 'mode': part}, 'obs': e['raw'], 'kind': part}
        run.judge(case, v is None, clause=f"Trace_C11: {e['formula']} over kinds {e['blk']} = {e['raw']}: not the fold over the numeric cells", part=part)
        run.traces_validated += 1


TKINDS = 'IDNXSTFBEH'


def _trace_job(seeds):
    """random 4x3 blocks: one workbook per seed batch (areas differ per formula, contents by override)"""
    try:
        out = []
        rng0 = random.Random(seeds[0])
        # formulas of this batch
        specs, forms = [], []
        for _ in range(40):
            nargs = rng0.randint(1, 3)
            args = []
            for _ in range(nargs):
                if rng0.random() < 0.15:
                    args.append({'t': 'lit', 'v': rng0.choice([4, 10, 40, -8])})
                else:
                    r1, r2 = sorted((rng0.randint(1, 4), rng0.randint(1, 4)))
                    c1, c2 = sorted((rng0.randint(1, 3), rng0.randint(1, 3)))
                    args.append({'t': 'area', 'v': [r1, c1, r2, c2]})
            f = rng0.choice(FUNS)
            if rng0.random() < 0.15:
                args = [a for a in args if a['t'] == 'area'][:1] or [{'t': 'area', 'v': [1, 1, 2, 2]}]
                f = 'COUNTBLANK'
            txt = ','.join((str(a['v'] // 4) if a['v'] % 4 == 0 else repr(a['v'] / 4)) if a['t'] == 'lit' else
                           (a1(a['v'][0], a['v'][1]) if a['v'][:2] == a['v'][2:] else f"{a1(a['v'][0], a['v'][1])}:{a1(a['v'][2], a['v'][3])}") for a in args)
            if f != 'COUNTBLANK' and any(a['t'] == 'lit' and a['v'] < 0 for a in args):
                txt = txt.replace(',-', ',0-') if False else txt
            specs.append((f, args))
            forms.append(f'={f}({txt})')
        p = repo.Probe(forms)
        tab = _S['tab']
        # every second batch: ONE Executor for the whole sequence of blocks; a blank is then written as None (a cleared cell)
        ses = p.session() if (seeds[0] // max(1, len(seeds))) % 2 else None
        for sd in seeds:
            rng = random.Random(sd)
            blk = [rng.choice(TKINDS) for _ in range(12)]
            if ses is not None:
                res = ses.eval([(0, i % 3, i // 3, kind_value(k, i, tab) if k != 'B' else None) for i, k in enumerate(blk)])
            else:
                ov = [(0, i % 3, i // 3, kind_value(k, i, tab)) for i, k in enumerate(blk) if k != 'B']
                res = p.eval(ov)
            for (f, args), r, form in zip(specs, res, forms):
                out.append(mk_event(blk, args, f, r, form))
        return out
    except Exception as e:
        import traceback
        return {'harness_error': f'{type(e).__name__}: {e} {traceback.format_exc()[-300:]}'}


def trace(run):
    n = 120 if run.quick else 2000
    seeds = [run.seed * 1000039 + i for i in range(n)]
    outs = core.pmap(_trace_job, core.chunks(seeds, 10), chunksize=1)
    evs = []
    for o in outs:
        if isinstance(o, dict):
            raise core.MachineryError(o['harness_error'])
        evs += o
    judge_events(run, evs, 'trace', cols=3)


def check(run):
    run.rule = ('every assignment of 9 content kinds (int, decimal, negative, text, numeric-looking text, TRUE, FALSE, blank, empty text) to an R x 2 '
                'block enumerated by TLC with the folds of 13 formula shapes; SUM/AVERAGE/MIN/MAX/COUNT/COUNTBLANK of each replayed by overrides; '
                'AND/OR over operand vectors as cells and literals; samples through the public file path; random 4 x 3 blocks with random '
                'rectangles judged by Trace_C11. One evaluation = one formula result; a block is non-trivial when it mixes numeric and non-numeric cells.')
    run.assumptions += ['dates inside areas, AVERAGE/MIN/MAX of no numeric cell, text/blank operands of AND/OR, text/boolean scalars as direct arguments: out of scope',
                        'AVERAGE compared as a rational within 1e-9 (numeric contents are multiples of 0.25)']
    inv = ['SplitInvariance', 'OncePerMention', 'NonNumericIgnored', 'ScalarCounts', 'CountBlankExact', 'MinLeMax', 'AndOrFold']
    run.tlc('MC_XlAggregates', ['INIT Init', 'NEXT Next', 'CONSTANT Cols = 2'] + ['INVARIANT ' + i for i in inv], workers=8, timeout=900)
    gen(run)
    trace(run)


def replay(run, case):
    i = case['in']
    if case.get('kind') == 'count_dates':
        count_dates(run)
        return
    setup(run, i.get('R', 2))
    if case.get('kind') == 'logic':
        out = _logic_job([{'vs': i['vs']}])[0]
        ra, ro, fa, fo = out[i['mode']]
        r_ = ra if i['f'] == 'AND' else ro
        ok = r_[0] == 'val' and r_[1] == case['ideal']
        run.judge(dict(case, obs=str(r_)), ok, clause=f'{i["formula"]} = {r_}')
        return
    tab = _S['tab']
    cols = i.get('cols', 2)
    blk = i['blk']
    out = str(i.get('f', '')).endswith('@out')
    ov = [(0, k % cols + (OFF if out else 0), k // cols, kind_value(kd, k, tab)) for k, kd in enumerate(blk) if kd != 'B']
    sheets = [('T', {(0, 0): 100, (1, 0): 200, (0, 1): 't', (1, 1): 300})]
    r = repo.Probe([i['formula'].split(' (block held')[0]], sheets=sheets).eval(ov)[0]
    if 'args' in i:
        judge_events(run, [mk_event(blk, i['args'], i['f'], r, i['formula'])], 'replay', cols)
    else:
        run.judge(dict(case, obs=show(*r)), show(*r) == repr(Fraction(case['ideal'])) or num4(*r) == Fraction(case['ideal']) * 4,
                  clause=f'{i["formula"]} = {show(*r)}, expected {case["ideal"]}')
