"""Sensitivity campaign: python -m harness.seeded [ids...] [--tier quick|thorough] [--checks C01,C02]

For every /verif/seeded/<id>/ (patch.diff, demo.py, meta.json):
  1. a scratch git worktree of /repo's HEAD is created outside /repo and /verif;
  2. the demonstration must PASS on the unchanged worktree;
  3. the patch is applied; the 44 baseline tests must still pass; the demonstration must now FAIL;
  4. the quick check of the property (and any extra checks named in meta.json "also") is run with E2P_REPO=<worktree>
     and must report VIOLATION (exit 1);
  5. the worktree is removed.
Nothing is ever applied to /repo itself. Results: /verif/seeded/RESULTS.md (+ RESULTS.json).
"""
import json
import os
import shutil
import subprocess
import sys
import tempfile
import time

VERIF = os.path.dirname(os.path.dirname(os.path.abspath(__file__)))
SEEDED = os.path.join(VERIF, 'seeded')
PY = '/venv/bin/python'


def sh(cmd, cwd=None, env=None, timeout=3600):
    e = dict(os.environ)
    e.pop('E2P_REPO', None)
    if env:
        e.update(env)
    p = subprocess.run(cmd, cwd=cwd, env=e, stdout=subprocess.PIPE, stderr=subprocess.STDOUT, text=True, timeout=timeout, shell=isinstance(cmd, str))
    return p.returncode, p.stdout


def one(sid, tier, only_checks=None):
    d = os.path.join(SEEDED, sid)
    meta = json.load(open(os.path.join(d, 'meta.json')))
    prop = meta['property']
    checks = [prop] + [c for c in meta.get('also', []) if c != prop]
    if only_checks:
        checks = [c for c in checks if c in only_checks] or checks
    wt = tempfile.mkdtemp(prefix=f'e2p-seed-{sid}-', dir='/var/tmp')
    os.rmdir(wt)
    res = {'id': sid, 'property': prop, 'summary': meta.get('summary', ''), 'needs': meta.get('needs', '')}
    try:
        rc, out = sh(['git', '-C', '/repo', 'worktree', 'add', '-q', '--detach', wt, 'HEAD'])
        if rc:
            res['error'] = 'worktree: ' + out[-300:]
            return res
        demo = os.path.join(d, 'demo.py')
        rc0, out0 = sh([PY, demo], cwd=wt, env={'PYTHONPATH': wt}, timeout=900)
        res['demo_clean'] = rc0
        rc, out = sh(['git', 'apply', os.path.join(d, 'patch.diff')], cwd=wt)
        if rc:      # the tree has moved on since the change was written (later fix: commits): try a three-way merge
            rc, out = sh(['git', 'apply', '-3', os.path.join(d, 'patch.diff')], cwd=wt)
            res['applied'] = 'three-way'
        if rc:
            res['error'] = 'patch does not apply to the current tree: ' + out[-300:]
            return res
        rc, out = sh([PY, '-m', 'pytest', '-q', '-p', 'no:cacheprovider', '-x'], cwd=wt, timeout=1800)
        res['tests'] = out.strip().splitlines()[-1] if out.strip() else ''
        res['tests_ok'] = rc == 0 and '44 passed' in out
        rc1, out1 = sh([PY, demo], cwd=wt, env={'PYTHONPATH': wt}, timeout=900)
        res['demo_seeded'] = rc1
        res['checks'] = {}
        for c in checks:
            t0 = time.time()
            rc, out = sh([os.path.join(VERIF, 'check'), c, '--tier', tier], cwd=VERIF, env={'E2P_REPO': wt, 'VERIF_NO_EVIDENCE': '1'}, timeout=7200)
            viol = [l for l in out.splitlines() if l.startswith('VIOLATION')]
            first = next((l.strip()[:400] for l in out.splitlines() if l.strip().startswith('clause:')), '')
            res['checks'][c] = {'exit': rc, 'violations': len(viol), 'first': first, 'wall_s': round(time.time() - t0, 1),
                                'tail': out.strip().splitlines()[-1][:300] if out.strip() else ''}
        res['caught'] = any(v['exit'] == 1 and v['violations'] > 0 for v in res['checks'].values())
        # a change whose own demonstration passes with it applied no longer breaks the property on the current tree (a later repair of
        # the tree removed what it relied on): nothing to catch
        res['neutralised'] = rc1 == 0
        return res
    finally:
        sh(['git', '-C', '/repo', 'worktree', 'remove', '--force', wt])
        shutil.rmtree(wt, ignore_errors=True)
        sh(['git', '-C', '/repo', 'worktree', 'prune'])


def write_table(results):
    lines = ['# Seeded changes: which check catches which change', '',
             'Produced by `python -m harness.seeded` (see the docstring of harness/seeded.py). "demo clean/seeded" = exit code of the',
             'demonstration on the unchanged / changed worktree (0 = property holds for its scenario).', '',
             '| id | property | change | needs | baseline tests | demo clean / seeded | check result |', '|---|---|---|---|---|---|---|']
    for sid in sorted(results):
        r = results[sid]
        if 'error' in r:
            lines.append(f"| {sid} | {r['property']} | {r['summary'][:90]} | | | | ERROR {r['error'][:80]} |")
            continue
        ch = '; '.join(f"{c} [{r.get('tier', 'quick')}]: exit {v['exit']}, {v['violations']} VIOLATION lines ({v['wall_s']} s)" for c, v in r['checks'].items())
        lines.append(f"| {sid} | {r['property']} | {r['summary'][:160].replace('|', '/')} | {r['needs'][:160].replace('|', '/')} | {r['tests']} | {r['demo_clean']} / {r['demo_seeded']} | "
                     f"{'**neutralised** (its demonstration passes on the current tree)' if r.get('neutralised') else '**caught**' if r['caught'] else '**MISSED**'}: {ch} |")
    open(os.path.join(SEEDED, 'RESULTS.md'), 'w').write('\n'.join(lines) + '\n')
    return lines


def main():
    if '--merge' in sys.argv:
        # python -m harness.seeded --merge a.json b.json ...: side results of parallel runs -> seeded/RESULTS.json + RESULTS.md
        results = {}
        for f in sys.argv[sys.argv.index('--merge') + 1:]:
            results.update(json.load(open(f)))
        json.dump(results, open(os.path.join(SEEDED, 'RESULTS.json'), 'w'), indent=1, sort_keys=True)
        write_table(results)
        print(len(results), 'results merged;', sum(1 for r in results.values() if r.get('caught')), 'caught,',
              sum(1 for r in results.values() if r.get('neutralised')), 'neutralised,', sum(1 for r in results.values() if 'error' in r), 'errors')
        return
    args = [a for a in sys.argv[1:] if not a.startswith('--')]
    tier = 'quick'
    only = None
    for i, a in enumerate(sys.argv):
        if a == '--tier':
            tier = sys.argv[i + 1]
        if a == '--checks':
            only = sys.argv[i + 1].split(',')
    args = [a for a in args if a not in (tier,) and (not only or a != ','.join(only))]
    ids = args or sorted(x for x in os.listdir(SEEDED) if os.path.isdir(os.path.join(SEEDED, x)))
    path = os.environ.get('SEEDED_RESULTS') or os.path.join(SEEDED, 'RESULTS.json')   # SEEDED_RESULTS: a side file for a parallel run
    results = json.load(open(path)) if os.path.exists(path) else {}
    for sid in ids:
        print(f'== {sid}', flush=True)
        r = one(sid, tier, only)
        r['tier'] = tier
        results[sid] = r
        print(json.dumps({k: v for k, v in r.items() if k != 'summary'}, indent=1)[:1500], flush=True)
        json.dump(results, open(path, 'w'), indent=1, sort_keys=True)
    lines = write_table(results) if not os.environ.get('SEEDED_RESULTS') else []
    print('\n'.join(lines[-len(results):]))


if __name__ == '__main__':
    main()
