"""setup_cmd: syntax/semantic check of every TLA+ module with SANY, byte-compile the harness. Offline."""
import compileall
import glob
import os
import sys

from harness import tlc
from harness.core import pmap


def _one(m):
    ok, out = tlc.sany(m)
    return m, ok, out


def main():
    mods = sorted(os.path.basename(p)[:-4] for p in glob.glob(os.path.join(tlc.SPEC_DIR, '*.tla')))
    bad = 0
    for m, ok, out in pmap(_one, mods, procs=8, chunksize=1):
        if not ok:
            bad += 1
            print(f'SANY failed: {m}\n' + '\n'.join(out.splitlines()[-15:]))
    ok = compileall.compile_dir(os.path.dirname(__file__), quiet=1, legacy=False)
    print(f'setup: {len(mods)} TLA+ modules checked, {bad} failed; harness compiled: {bool(ok)}')
    return 0 if bad == 0 and ok else 2
