#!/bin/sh
# tools/collect_seed.sh <Cxx> <suffix> <srcprefix>   copies /tmp/<srcprefix>_<Cxx>_out into /verif/seeded/<Cxx>-<suffix> and removes the scratch worktree
P=$1; S=$2; SRC=${3:-seed2}
mkdir -p /verif/seeded/$P-$S
cp /tmp/${SRC}_${P}_out/patch.diff /tmp/${SRC}_${P}_out/demo.py /tmp/${SRC}_${P}_out/meta.json /verif/seeded/$P-$S/ || exit 1
git -C /repo worktree remove --force /tmp/${SRC}_$P 2>/dev/null
git -C /repo worktree prune
echo collected $P-$S
