"""tools/seed_prompts.py <round-number>  - writes /tmp/seedprompt<round>_<Cxx>.txt for a new round of seeded changes.

Each prompt gives a fresh sub-agent ONLY the text of one property (from properties.jsonl), its own scratch worktree
/tmp/seed<round>_<Cxx> (to be created with `git -C /repo worktree add --detach`), the rules (44 tests must pass, a demo that fails
with / passes without the change, something specific needed to manifest) and one-line summaries of the earlier seeded changes of
that property as "do not repeat". Nothing from /verif's checks or specifications is shown."""
import json
import os
import sys

rnd = sys.argv[1]
VERIF = os.path.dirname(os.path.dirname(os.path.abspath(__file__)))
props = {}
for line in open(os.path.join(VERIF, 'properties.jsonl')):
    o = json.loads(line)
    props[o['id']] = o
TEMPLATE = open(os.path.join(VERIF, 'tools', 'seed_prompt_template.txt')).read()
for pid in sorted(props):
    o = props[pid]
    earlier = []
    for suf in 'abcdefghi':
        mp = os.path.join(VERIF, 'seeded', f'{pid}-{suf}', 'meta.json')
        if os.path.exists(mp):
            earlier.append('   - ' + json.load(open(mp)).get('summary', '')[:300].replace('\n', ' '))
    text = TEMPLATE.replace('{PID}', pid).replace('{WT}', f'/tmp/seed{rnd}_{pid}').replace('{OUT}', f'/tmp/seed{rnd}_{pid}_out') \
        .replace('{TITLE}', o.get('title', '')).replace('{STATEMENT}', o.get('statement', '')) \
        .replace('{QUANT}', (o.get('quantifier') or {}).get('text', '')).replace('{ANCHORS}', ', '.join((o.get('anchors') or {}).get('files', []))) \
        .replace('{EARLIER}', '\n'.join(earlier))
    open(f'/tmp/seedprompt{rnd}_{pid}.txt', 'w').write(text)
print('written', len(props))
