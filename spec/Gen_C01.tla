------------------------------- MODULE Gen_C01 -------------------------------
(* Direction A for C01: operator chains.  A case is                                *)
(*   operand_1 op_1 operand_2 ... op_k operand_{k+1}                               *)
(* where operand i is the variable x_i, each independently plain / negated /       *)
(* percent (Decor), optionally with one bracket pair around operands a..b.         *)
(* Every case is evaluated by the ideal grammar under each valuation; the findings *)
(* whose Guard holds for the token sequence are listed.                            *)
(* The shard (k, first operator) is the initial state so that TLC workers share    *)
(* the enumeration; the cases of a shard are its successors.                       *)
EXTENDS XlFormula, Json
CONSTANTS K, Decor, Brackets, Ops, Envs, EnvNames
VARIABLES st

Var(i) == CASE i = 1 -> "x1" [] i = 2 -> "x2" [] i = 3 -> "x3" [] i = 4 -> "x4" [] i = 5 -> "x5"
Operand(i, dec) == CASE dec = "plain" -> <<Var(i)>> [] dec = "neg" -> <<"MINUS", Var(i)>> [] dec = "pct" -> <<Var(i), "PCT">>
                     [] dec = "negpct" -> <<"MINUS", Var(i), "PCT">> [] dec = "pos" -> <<"PLUS", Var(i)>>
\* token sequence of a chain: ops \in [1..k -> Ops], decs \in [1..k+1 -> Decor], br = <<a, b>> or <<0, 0>>
Chain(k, ops, decs, br) ==
  LET RECURSIVE F(_)
      F(i) == IF i > k + 1 THEN <<>>
              ELSE (IF i > 1 THEN <<ops[i - 1]>> ELSE <<>>)
                   \o (IF br[1] = i THEN <<"LP">> ELSE <<>>) \o Operand(i, decs[i]) \o (IF br[2] = i THEN <<"RP">> ELSE <<>>)
                   \o F(i + 1)
  IN F(1)
BrChoices(k) == {<<0, 0>>} \cup (IF Brackets THEN {<<a, b>> : a \in 1..k, b \in 2..(k + 1)} \ {<<1, k + 1>>} ELSE {})
BrOk(br) == br = <<0, 0>> \/ br[1] < br[2]

Shards == {<<k, o>> : k \in K, o \in Ops}
Init == \E sh \in Shards : st = [ph |-> "shard", sh |-> sh]
Next == /\ st.ph = "shard"
        /\ \E ops \in [1..st.sh[1] -> Ops], decs \in [1..(st.sh[1] + 1) -> Decor], br \in BrChoices(st.sh[1]) :
             /\ ops[1] = st.sh[2] /\ BrOk(br)
             /\ LET t == Chain(st.sh[1], ops, decs, br)
                    vals == [e \in 1..Len(Envs) |-> Ideal(t, Envs[e])]
                IN /\ st' = [ph |-> "case", t |-> t]
                   /\ \A e \in 1..Len(Envs) : vals[e].acc         \* every generated chain is a formula of the grammar
                   /\ PrintT(ToJson([t |-> t, vals |-> [e \in 1..Len(Envs) |-> vals[e].v], g |-> Guards(t)]))
=============================================================================
