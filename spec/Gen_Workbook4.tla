---- MODULE Gen_Workbook4 ----
(* exports the generator workbook so that the harness builds the real xlsx from the SPEC's data *)
EXTENDS Workbook4, Json, TLC
VARIABLE x
Init == x = 0 /\ PrintT(ToJson([wb |-> WB, pos |-> Pos, used |-> [s \in 1..2 |-> UsedSize[s]]]))
Next == UNCHANGED x
====
