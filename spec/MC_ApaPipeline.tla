---------------------------- MODULE MC_ApaPipeline ----------------------------
EXTENDS Integers
Execs == {1, 2, 3}
VARIABLES
    \* @type: Int;
    file,
    \* @type: Bool;
    dirty,
    \* @type: Int;
    text,
    \* @type: Int;
    written,
    \* @type: Int -> Int;
    wv,
    \* @type: Set(Int);
    seen
INSTANCE ApaPipeline
=============================================================================
