---- MODULE MC_Gen_C05 ----
EXTENDS Gen_C05
AlphaSmall == {"LiteralToken", "CellIdentifierToken", "MatrixOfCellIdentifiersToken", "BracketStartToken", "BracketFinishToken",
               "SeparatorToken", "PlusOperatorToken", "MinusOperatorToken", "MultiplicationOperatorToken", "AmpersandToken",
               "PercentToken", "EqOperatorToken", "LtOperatorToken", "IfKeywordToken", "SumKeywordToken", "TodayKeywordToken",
               "RoundKeywordToken", "PatternToken"}
AlphaTiny == {"LiteralToken", "CellIdentifierToken", "BracketStartToken", "BracketFinishToken", "SeparatorToken",
              "PlusOperatorToken", "MinusOperatorToken", "AmpersandToken", "PercentToken", "EqOperatorToken",
              "SumKeywordToken", "TodayKeywordToken"}
\* operands, postfix % and two operators only: longer chains than the wide alphabets can afford (5%6%, 2%+3%%, ...)
AlphaPct == {"LiteralToken", "CellIdentifierToken", "PercentToken", "PlusOperatorToken", "AmpersandToken"}
====
