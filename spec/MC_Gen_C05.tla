---- MODULE MC_Gen_C05 ----
EXTENDS Gen_C05
AlphaSmall == {"LiteralToken", "CellIdentifierToken", "MatrixOfCellIdentifiersToken", "BracketStartToken", "BracketFinishToken",
               "SeparatorToken", "PlusOperatorToken", "MinusOperatorToken", "MultiplicationOperatorToken", "AmpersandToken",
               "PercentToken", "EqOperatorToken", "LtOperatorToken", "IfKeywordToken", "SumKeywordToken", "TodayKeywordToken",
               "RoundKeywordToken", "PatternToken"}
AlphaTiny == {"LiteralToken", "CellIdentifierToken", "BracketStartToken", "BracketFinishToken", "SeparatorToken",
              "PlusOperatorToken", "MinusOperatorToken", "AmpersandToken", "PercentToken", "EqOperatorToken",
              "SumKeywordToken", "TodayKeywordToken"}
====
