------------------------------ MODULE Trace_C11 ------------------------------
(* Direction B for C11: events {blk, args, f, o} recorded on random 4 x 3 blocks with *)
(* random rectangles (Cols = 3): f in SUM / MIN / MAX (o = value in quarter units),     *)
(* COUNT / COUNTBLANK (o = the count), AVERAGE (value = on / od; od = 0: no number).        *)
(* o = NoVal: the code delivered no number.                                             *)
EXTENDS XlAggregates, Json, IOUtils
VARIABLE l
Log == JsonDeserialize(IOEnv.TRACE_FILE).events
ArgOf(a) == IF a.t = "area" THEN [area |-> a.v] ELSE [lit |-> a.v]
Verdict(e) == LET args == [i \in 1..Len(e.args) |-> ArgOf(e.args[i])] f == Folds(args, e.blk) IN
  CASE e.f = "SUM" -> IF e.o = f.sum4 THEN "" ELSE "SUM"
    [] e.f = "COUNT" -> IF e.o = f.count THEN "" ELSE "COUNT"
    [] e.f = "MIN" -> IF f.count = 0 \/ e.o = f.min4 THEN "" ELSE "MIN"
    [] e.f = "MAX" -> IF f.count = 0 \/ e.o = f.max4 THEN "" ELSE "MAX"
    [] e.f = "AVERAGE" -> IF f.count = 0 \/ (e.od # 0 /\ e.on * 4 * f.count = f.sum4 * e.od) THEN "" ELSE "AVERAGE"
    [] e.f = "COUNTBLANK" -> IF e.o = CountBlank(e.args[1].v, e.blk) THEN "" ELSE "COUNTBLANK"
Init == l = 1
Step == /\ l <= Len(Log)
        /\ LET v == Verdict(Log[l]) IN IF v = "" THEN TRUE ELSE PrintT(<<"V", l, v>>)
        /\ l' = l + 1
        /\ (l' = Len(Log) + 1) => PrintT(<<"DONE", l'>>)
Spec == Init /\ [][Step]_l
=============================================================================
