------------------------------ MODULE Gen_C09 ------------------------------
(* Direction A for C09: every call history of the ideal facade up to MaxLen     *)
(* becomes one implementation test.  The behaviour carries its own history; a   *)
(* finished history (it ends with Get or Write) is exported as JSON with, per   *)
(* step, the settings the ideal machine says the result must correspond to.     *)
EXTENDS ParserFacade, Json

CONSTANT MaxLen
VARIABLES hist, done
gvars == <<vars, hist, done>>

Step(call, arg) == [call |-> call, arg |-> arg,
                    exp |-> IF call \in {"get", "write"}
                            THEN (IF path = NoPath THEN <<"nopath">> ELSE <<path, entry, IF safety THEN "on" ELSE "off">>)
                            ELSE <<>>]

GInit == Init /\ hist = <<>> /\ done = FALSE

Do(A, call, arg) == ~done /\ Len(hist) < MaxLen /\ A /\ hist' = Append(hist, Step(call, arg)) /\ done' = FALSE

Finish == /\ ~done /\ hist # <<>> /\ hist[Len(hist)].call \in {"get", "write"}
          /\ done' = TRUE /\ UNCHANGED <<vars, hist>>
          /\ PrintT(ToJson([h |-> hist]))

GNext == \/ \E p \in Paths : Do(SetPath(p), "path", p)
         \/ \E e \in Entries : Do(SetEntry(e), "entry", e)
         \/ Do(Enable, "enable", "")
         \/ Do(Disable, "disable", "")
         \/ Do(Get, "get", "")
         \/ Do(Write, "write", "")
         \/ Finish

GSpec == GInit /\ [][GNext]_gvars
\* in simulation mode a behaviour is exported when it reaches MaxLen
=============================================================================
