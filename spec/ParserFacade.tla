---------------------------- MODULE ParserFacade ----------------------------
(* IDEAL translation facade (property C09, first sentence).                    *)
(* The text returned or written corresponds to the path, entry cell and safety *)
(* setting in force at the time of the call.  T is uninterpreted: equal        *)
(* arguments <=> same workbook and settings, so "out = T(current settings)" is *)
(* exactly "the output depends only on the current workbook and settings".     *)
EXTENDS Naturals, Sequences, TLC

CONSTANTS Paths,        \* workbook files the client may select
          Entries,      \* entry cells the client may select; "whole" = no entry cell
          NoPath        \* the value of an unset path

VARIABLES path, entry, safety,  \* the settings in force
          out,                  \* observation: result of the last Get / Write
          file                  \* observation: content of the last written file

vars == <<path, entry, safety, out, file>>

Nothing == <<"nothing">>
NoPathError == <<"lib", "nopath">>
\* 4th component: the workbook the entry cell's own formula text was read from
T(p, e, s) == <<p, e, s, p>>

Init == /\ path = NoPath /\ entry = "whole" /\ safety = TRUE
        /\ out = Nothing /\ file = Nothing

SetPath(p)  == path' = p    /\ UNCHANGED <<entry, safety, out, file>>
SetEntry(e) == entry' = e   /\ UNCHANGED <<path, safety, out, file>>
Enable      == safety' = TRUE  /\ UNCHANGED <<path, entry, out, file>>
Disable     == safety' = FALSE /\ UNCHANGED <<path, entry, out, file>>

Result == IF path = NoPath THEN NoPathError ELSE T(path, entry, safety)

Get   == out' = Result /\ UNCHANGED <<path, entry, safety, file>>
\* Write: a translation that raises writes nothing.  Which results raise is decided by the
\* workbook (safety exception, parser exception); the model lets the environment choose.
Write == /\ out' = Result
         /\ \/ file' = Result /\ path # NoPath
            \/ file' = file                           \* translation raised: no file written
         /\ UNCHANGED <<path, entry, safety>>

Next == \/ \E p \in Paths : SetPath(p)
        \/ \E e \in Entries : SetEntry(e)
        \/ Enable \/ Disable \/ Get \/ Write

Spec == Init /\ [][Next]_vars

TypeOK == /\ path \in Paths \cup {NoPath} /\ entry \in Entries /\ safety \in BOOLEAN

\* ---- statements of C09 as state / action properties of the ideal machine ----
\* out always reflects settings that were in force when it was produced (action property):
OutIsCurrent == [][(out' # out) => out' = (IF path = NoPath THEN NoPathError ELSE T(path, entry, safety))]_vars
\* repeated calls without a change return the identical text: once a result for the current
\* settings has been delivered, it can only change after a setting changed
GetIdempotent == [][(UNCHANGED <<path, entry, safety>> /\ out = Result) => out' = out]_vars
\* the written file equals the returned text
FileEqualsOut == [][(file' # file) => file' = out']_vars
=============================================================================
