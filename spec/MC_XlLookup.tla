----------------------------- MODULE MC_XlLookup -----------------------------
(* Laws of the lookup oracle over all key columns up to length L over Keys, all      *)
(* lookup values, and the column-letter bijection for every column 1..16384.          *)
EXTENDS XlLookup
CONSTANTS Keys, L, Vals
VARIABLES keys, v, col, ph
RECURSIVE Seqs(_)
Seqs(n) == IF n = 0 THEN {<<>>} ELSE LET S == Seqs(n - 1) IN S \cup {Append(x, a) : x \in {y \in S : Len(y) = n - 1}, a \in Keys}
Init == keys \in (Seqs(L) \ {<<>>}) /\ v = 0 /\ col = 1 /\ ph = "shard"
Next == ph = "shard" /\ ph' = "case" /\ keys' = keys /\ v' \in Vals /\ col' \in {1, 27, 52, 53, 676, 677, 702, 703, 704, 16383, 16384} \cup 1..60
ExactIsFirst == LET r == ExactFirst(v, keys) IN IF r = NA THEN \A i \in 1..Len(keys) : keys[i] # v
                ELSE keys[r] = v /\ \A i \in 1..(r - 1) : keys[i] # v
ExactLastIsLast == LET r == ExactLast(v, keys) IN IF r = NA THEN ExactFirst(v, keys) = NA ELSE keys[r] = v /\ \A i \in (r + 1)..Len(keys) : keys[i] # v
ApproxIsMaxLE == Ascending(keys) => LET r == ApproxRow(v, keys) IN
                   IF r = NA THEN keys[1] > v ELSE keys[r] <= v /\ (r = Len(keys) \/ keys[r + 1] > v)
ApproxAboveAll == (Ascending(keys) /\ v >= keys[Len(keys)]) => ApproxRow(v, keys) = Len(keys)
ApproxExtendsExact == (Ascending(keys) /\ ExactLast(v, keys) # NA) => ApproxRow(v, keys) = ExactLast(v, keys)
\* blanks in the key range are never keys: the answers are those of the column with the blanks removed, at shifted positions
Squeeze(ks) == LET RECURSIVE F(_)
                   F(i) == IF i > Len(ks) THEN <<>> ELSE (IF IsKeyB(ks[i]) THEN <<ks[i]>> ELSE <<>>) \o F(i + 1)
               IN F(1)
BlanksAreNotKeys == LET kb == [i \in 1..Len(keys) |-> IF i = 2 THEN 0 ELSE keys[i]] IN
    /\ (ExactFirstB(v, kb) = NA) = (ExactFirst(v, Squeeze(kb)) = NA)
    /\ (ExactFirstB(v, kb) # NA => kb[ExactFirstB(v, kb)] = v)
    /\ (AscendingB(kb) /\ ApproxRowB(v, kb) \notin {NA, OOS}) => (kb[ApproxRowB(v, kb)] = Squeeze(kb)[ApproxRow(v, Squeeze(kb))])
    /\ (AscendingB(kb)) => ((ApproxRowB(v, kb) = NA) = (Squeeze(kb) = <<>> \/ ApproxRow(v, Squeeze(kb)) = NA))
IndexMatchPartner == LET r == ExactFirst(v, keys) IN r # NA => Index(Len(keys), 3, r, 2) = Cell(r, 2) /\ Index(Len(keys), 3, Len(keys) + 1, 1) = REF
\* letters: ColLetters is the inverse of the positional value for every column up to XFD
RECURSIVE LetterIdx(_)
LetterIdx(n) == IF n <= 26 THEN <<n>> ELSE Append(LetterIdx((n - 1) \div 26), ((n - 1) % 26) + 1)
ColBijective == \A n \in {col, col + 16000 - (col % 2) * 15000, 16384 - col} : n \in 1..16384 => ColNumber(LetterIdx(n)) = n
RECURSIVE Spell(_)
Spell(ix) == IF ix = <<>> THEN "" ELSE Letters[Head(ix)] \o Spell(Tail(ix))
ColBijectiveAll == \A n \in 1..16384 : ColNumber(LetterIdx(n)) = n /\ ColLetters(n) = Spell(LetterIdx(n)) /\ Len(LetterIdx(n)) \in 1..3
AddressAnchors == /\ Address(5, 26) = "$Z$5" /\ Address(5, 27) = "$AA$5" /\ Address(5, 52) = "$AZ$5" /\ Address(5, 702) = "$ZZ$5"
                  /\ Address(5, 703) = "$AAA$5" /\ Address(1048576, 16384) = "$XFD$1048576" /\ Address(10, 1) = "$A$10"
=============================================================================
