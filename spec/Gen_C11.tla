------------------------------- MODULE Gen_C11 -------------------------------
(* Direction A for C11: every assignment of content kinds to an R x 2 block (the     *)
(* last cells over a reduced kind set when R = 3), with the folds of every formula    *)
(* shape.  The shapes themselves are exported once (Kind = "SHAPES") so that the      *)
(* harness builds its formulas from the specification's own argument lists.           *)
EXTENDS XlAggregates, Json
CONSTANTS Kind, R
VARIABLE st
Kinds == {"I", "D", "N", "Z", "X", "S", "T", "F", "B", "E", "H"}
TailKinds == {"I", "X", "B"}
A(r1, c1, r2, c2) == [area |-> <<r1, c1, r2, c2>>, spell |-> "area"]
Far == [far |-> <<400, 800, 1200>>]                 \* T!A1:B2 holds 100, 200, a text, 300
Shapes == <<
  [name |-> "row",        args |-> <<A(1, 1, 1, 2)>>],
  [name |-> "column",     args |-> <<A(1, 1, R, 1)>>],
  [name |-> "rectangle",  args |-> <<A(1, 1, R, 2)>>],
  [name |-> "wholecol",   args |-> <<[area |-> <<1, 1, R, 1>>, spell |-> "wcol"]>>],
  [name |-> "twocols",    args |-> <<A(1, 1, R, 1), A(1, 2, R, 2)>>],
  [name |-> "twice",      args |-> <<A(1, 1, 1, 2), A(1, 1, 1, 2)>>],
  [name |-> "othersheet", args |-> <<Far, A(1, 1, R, 1)>>],
  [name |-> "withscalar", args |-> <<A(1, 1, R, 2), [lit |-> 40]>>],
  [name |-> "cells",      args |-> <<[area |-> <<1, 1, 1, 1>>, spell |-> "cell"], [area |-> <<1, 2, 1, 2>>, spell |-> "cell"]>>],
  [name |-> "overlap",    args |-> <<A(1, 1, R, 2), A(R, 1, R, 2)>>],
  [name |-> "wholecols",  args |-> <<[area |-> <<1, 1, R, 2>>, spell |-> "wcols"]>>],
  [name |-> "scalars",    args |-> <<[lit |-> 40], [lit |-> 10]>>],
  [name |-> "lastrow",    args |-> <<A(R, 1, R, 2)>>],
  [name |-> "scalarfirst", args |-> <<[lit |-> 40], A(1, 1, R, 2)>>],
  [name |-> "cellfirst",  args |-> <<[area |-> <<1, 1, 1, 1>>, spell |-> "cell"], A(1, 2, R, 2)>>],
  [name |-> "areascalararea", args |-> <<A(1, 1, 1, 2), [lit |-> 10], A(R, 1, R, 2)>>] >>
Single(sh) == Len(sh.args) = 1 /\ "area" \in DOMAIN sh.args[1] /\ sh.args[1].spell = "area"
Row(blk) == [i \in 1..Len(Shapes) |-> LET f == Folds(Shapes[i].args, blk) IN
               [s |-> f.sum4, n |-> f.count, lo |-> f.min4, hi |-> f.max4,
                cb |-> IF Single(Shapes[i]) THEN CountBlank(Shapes[i].args[1].area, blk) ELSE -1]]
\* AND / OR operands: booleans, numbers (non-zero is true), comparison results
LogicVals == <<[k |-> "bool", b |-> TRUE], [k |-> "bool", b |-> FALSE], [k |-> "num", q |-> 0], [k |-> "num", q |-> 4], [k |-> "num", q |-> 10],
               [k |-> "num", q |-> -4], [k |-> "cmp", b |-> TRUE], [k |-> "cmp", b |-> FALSE]>>
Truth(v) == IF v.k = "num" THEN v.q # 0 ELSE v.b
Init == st = [ph |-> "root"]
Next == \/ /\ st.ph = "root" /\ Kind = "SHAPES"
           /\ st' = [ph |-> "done"]
           /\ PrintT(ToJson([shapes |-> Shapes, ints |-> Ints, decs4 |-> Decs4, negs |-> Negs]))
        \/ /\ st.ph = "root" /\ Kind = "LOGIC"
           /\ \E n \in 1..3 : \E ix \in [1..n -> 1..Len(LogicVals)] :
                LET vs == [i \in 1..n |-> LogicVals[ix[i]]] bs == [i \in 1..n |-> Truth(LogicVals[ix[i]])] IN
                /\ st' = [ph |-> "logic", ix |-> ix]
                /\ PrintT(ToJson([vs |-> vs, andv |-> AndOf(bs), orv |-> OrOf(bs)]))
        \/ /\ st.ph = "root" /\ Kind = "BLOCKS"
           /\ \E a \in Kinds, b \in Kinds : st' = [ph |-> "shard", a |-> a, b |-> b]
        \/ /\ st.ph = "shard"
           /\ \E c \in Kinds, d \in Kinds :
                \E e \in (IF R = 3 THEN TailKinds ELSE {"-"}), g \in (IF R = 3 THEN TailKinds ELSE {"-"}) :
                LET blk == IF R = 3 THEN <<st.a, st.b, c, d, e, g>> ELSE <<st.a, st.b, c, d>> IN
                /\ st' = [ph |-> "case", blk |-> blk]
                /\ PrintT(ToJson([blk |-> blk, row |-> Row(blk)]))
=============================================================================
