------------------------------- MODULE Gen_C17 -------------------------------
(* Direction A for C17.                                                              *)
(*  LRM    : every text t (<= L over Alphabet): rows of LEFT/RIGHT for n in -1..L+2,  *)
(*           MID for k, n in -1..L+2, one-argument LEFT/RIGHT                          *)
(*  SEARCH : every (f, t) with f <= LF, t <= LT over SAlphabet: results for s = 0..LT+1 and for the two-argument form *)
(*  CONCAT : operand vectors of 2..3 values of kinds text / integer / decimal / date / blank / truth value *)
(*  VALUE  : numeric texts of the grid                                                  *)
EXTENDS XlText, Json
CONSTANTS Kind, Alphabet, L, SAlphabet, LF, LT
VARIABLE st
RECURSIVE Texts(_, _)
Texts(A, len) == IF len = 0 THEN {<<>>} ELSE LET S == Texts(A, len - 1) IN S \cup {Append(x, a) : x \in {y \in S : Len(y) = len - 1}, a \in A}
Ns == [i \in 1..(L + 4) |-> i - 2]            \* -1 .. L+2
J(r) == IF r.k = "text" THEN [k |-> "text", c |-> r.c] ELSE IF r.k = "num" THEN [k |-> "num", n |-> r.n] ELSE [k |-> r.k]
Operands == <<[k |-> "text", c |-> <<97, 66>>], [k |-> "dec", m |-> 12, s |-> 0], [k |-> "dec", m |-> -7, s |-> 0], [k |-> "dec", m |-> 25, s |-> 1],
              [k |-> "dec", m |-> 1205, s |-> 3], [k |-> "date", d |-> 45292], [k |-> "blank"], [k |-> "text", c |-> <<>>], [k |-> "text", c |-> <<32, 120>>],
              [k |-> "dec", m |-> 0, s |-> 0],
              \* truth values beside the numbers they equal in Python (True == 1 == 1.0, False == 0 == 0.0): each keeps its own text form
              [k |-> "bool", b |-> TRUE], [k |-> "bool", b |-> FALSE], [k |-> "dec", m |-> 1, s |-> 0],
              [k |-> "dec", m |-> 1, s |-> 0, fl |-> TRUE], [k |-> "dec", m |-> 0, s |-> 0, fl |-> TRUE]>>
Init == st = [ph |-> "root"]
Next == /\ st.ph = "root"
        /\ \/ /\ Kind = "LRM"
              /\ \E t \in Texts(Alphabet, L) :
                   /\ st' = [ph |-> "LRM", t |-> t]
                   /\ PrintT(ToJson([f |-> "LRM", t |-> t, ns |-> Ns,
                                     left |-> [i \in 1..Len(Ns) |-> J(Left(t, Ns[i]))], right |-> [i \in 1..Len(Ns) |-> J(Right(t, Ns[i]))],
                                     mid |-> [a \in 1..Len(Ns) |-> [b \in 1..Len(Ns) |-> J(Mid(t, Ns[a], Ns[b]))]],
                                     left1 |-> J(Left1(t)), right1 |-> J(Right1(t))]))
           \/ /\ Kind = "SEARCH"
              /\ \E f \in Texts(SAlphabet, LF) :
                   /\ st' = [ph |-> "SEARCH", f |-> f]
                   /\ TildesOk(f, 1)
                   /\ \A t \in Texts(SAlphabet, LT) \ {<<>>} :
                        PrintT(ToJson([f |-> "SEARCH", p |-> f, t |-> t, r |-> [s \in 1..(LT + 2) |-> J(Search(f, t, s - 1))]]))
           \/ /\ Kind = "CONCAT"
              /\ \E a \in 1..Len(Operands), b \in 1..Len(Operands), c \in 0..Len(Operands) :
                   LET vs == IF c = 0 THEN <<Operands[a], Operands[b]>> ELSE <<Operands[a], Operands[b], Operands[c]>> IN
                   /\ st' = [ph |-> "CONCAT", a |-> a, b |-> b, c |-> c]
                   /\ PrintT(ToJson([f |-> "CONCAT", vs |-> vs, r |-> ConcatAll(vs)]))
           \/ /\ Kind = "VALUE"
              /\ \E m \in {-1205, -30, -7, 0, 5, 12, 125, 1001, 99999, 250, 1000}, s \in 0..3 :
                   LET v == Normalize(m, s) IN
                   /\ st' = [ph |-> "VALUE", m |-> m, s |-> s]
                   /\ PrintT(ToJson([f |-> "VALUE", t |-> DecText(v.m, v.s), m |-> v.m, s |-> v.s]))
=============================================================================
