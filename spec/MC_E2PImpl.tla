---- MODULE MC_E2PImpl ----
EXTENDS E2PImpl
====
