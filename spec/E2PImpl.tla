------------------------------ MODULE E2PImpl ------------------------------
(* CODE-SHAPED sessions: where the pieces of state live in the library.            *)
(*                                                                                  *)
(*   class object K (one per load of the translation)                               *)
(*     ksize   : what the class ITSELF holds of the sheet sizes.  In the library     *)
(*               the sizes are literals inside __init__, so K holds nothing and      *)
(*               every instance gets dicts of its own ("fixed").                     *)
(*   instance (one per executor)                                                     *)
(*     isize[x]: instance._sheets_size - the bound of whole-column areas             *)
(*     args[x] : instance._arguments   - the overrides the cell methods look at      *)
(*   executor                                                                        *)
(*     xsize[x]: Executor._sheets_size.  In the library this IS isize[x] (the same    *)
(*               list object): set_cells grows both at once.                          *)
(*                                                                                  *)
(* Variant "fixed"          : the library.                                           *)
(* Variant "class_sizes"    : the sizes hoisted into class attributes, instances      *)
(*                            copy them shallowly: the per-sheet dicts are shared by   *)
(*                            all instances of one class OBJECT (file loads build a    *)
(*                            class each).                                             *)
(* Variant "executor_copies": the executor keeps copies of the instance's sizes:       *)
(*                            set_cells grows the copy, whole-column areas are bounded  *)
(*                            by the instance's own, stale sizes.                       *)
(* Variant "class_args"     : the arguments dict as a class attribute (mutable         *)
(*                            default shared by the instances of one class object).     *)
(* Sizes are kept as the set of coordinates that have extended them (max per cell),  *)
(* as in ExecutorImpl.  hov is the ghost: the ideal overrides per executor.          *)
EXTENDS Workbook4, TLC, FiniteSets

CONSTANTS Execs, WCoords, Values, Variant

VARIABLES live, how,      \* executors created so far, and what each was bound to
          kmarks,         \* marks held by the class OBJECT (shared by the executors bound to the object)
          imarks,         \* per executor: marks of its instance
          xmarks,         \* per executor: marks of the executor's own size list (aliases imarks in the library)
          kargs,          \* arguments held by the class object
          args,           \* per executor: instance arguments
          hov, obs

vars == <<live, how, kmarks, imarks, xmarks, kargs, args, hov, obs>>
Hows == {"object", "file"}
SharedK(x) == how[x] = "object"       \* file loads build a class of their own: nothing is shared with anybody

Init == /\ live = {} /\ how = [x \in Execs |-> "object"]
        /\ kmarks = {} /\ imarks = [x \in Execs |-> {}] /\ xmarks = [x \in Execs |-> {}]
        /\ kargs = EmptyOv /\ args = [x \in Execs |-> EmptyOv]
        /\ hov = [x \in Execs |-> EmptyOv] /\ obs = <<"nothing">>

\* marks / arguments an instance of x effectively has
IM(x) == IF Variant = "class_sizes" /\ SharedK(x) THEN kmarks ELSE imarks[x]
XM(x) == IF Variant = "executor_copies" THEN xmarks[x] ELSE IM(x)
AR(x) == IF Variant = "class_args" /\ SharedK(x) THEN kargs ELSE args[x]
SizesOf(D) == [s \in Sheets |-> SizeOfDom(s, D)]

\* evaluation by the instance: whole-column areas enumerate the rows of the INSTANCE's sizes
RECURSIVE EvI(_, _, _), SumI(_, _, _)
SumI(S, a, D) == IF S = {} THEN Num(0) ELSE LET y == CHOOSE z \in S : TRUE IN Arith("add", EvI(y, a, D), SumI(S \ {y}, a, D))
EvI(c, a, D) ==
  IF c \in DOMAIN a THEN OvVal(a[c])
  ELSE IF c \notin DOMAIN WB THEN Blank
  ELSE LET f == WB[c] IN
       CASE f.op = "const" -> Num(f.v)
         [] f.op = "add"   -> Arith("add", EvI(f.a, a, D), EvI(f.b, a, D))
         [] f.op = "addk"  -> Arith("add", EvI(f.a, a, D), Num(f.b))
         [] f.op = "mulk"  -> Arith("mul", EvI(f.a, a, D), Num(f.b))
         [] f.op = "kdiv"  -> Arith("div", Num(f.a), EvI(f.b, a, D))
         [] f.op = "wcol"  -> SumI({y \in AllCoords : Pos[y][1] = f.s /\ Pos[y][2] = f.col /\ Pos[y][3] <= SizeOfDom(f.s, D).rows}, a, D)

New(x, h) ==
  /\ x \notin live /\ live' = live \cup {x} /\ how' = [how EXCEPT ![x] = h]
  /\ imarks' = [imarks EXCEPT ![x] = {}]
  \* the executor takes (a copy of) what the new instance reports
  /\ xmarks' = [xmarks EXCEPT ![x] = IF Variant = "class_sizes" /\ h = "object" THEN kmarks ELSE {}]
  /\ args' = [args EXCEPT ![x] = EmptyOv] /\ hov' = [hov EXCEPT ![x] = EmptyOv]
  /\ obs' = <<"new", x, h, SizesOf(IF Variant = "class_sizes" /\ h = "object" THEN kmarks ELSE {})>>
  /\ UNCHANGED <<kmarks, kargs>>

Drop(x) == /\ x \in live /\ live' = live \ {x} /\ hov' = [hov EXCEPT ![x] = EmptyOv] /\ obs' = <<"drop", x>>
           /\ imarks' = [imarks EXCEPT ![x] = {}] /\ xmarks' = [xmarks EXCEPT ![x] = {}] /\ args' = [args EXCEPT ![x] = EmptyOv]
           /\ UNCHANGED <<how, kmarks, kargs>>

Set(x, c, v) ==
  /\ x \in live
  /\ IF Variant = "executor_copies" THEN xmarks' = [xmarks EXCEPT ![x] = @ \cup {c}] /\ UNCHANGED <<imarks, kmarks>>
     ELSE IF Variant = "class_sizes" /\ SharedK(x) THEN kmarks' = kmarks \cup {c} /\ UNCHANGED <<imarks, xmarks>>
     ELSE imarks' = [imarks EXCEPT ![x] = @ \cup {c}] /\ UNCHANGED <<kmarks, xmarks>>
  /\ IF Variant = "class_args" /\ SharedK(x) THEN kargs' = Apply(kargs, <<<<c, v>>>>) /\ UNCHANGED args
     ELSE args' = [args EXCEPT ![x] = Apply(@, <<<<c, v>>>>)] /\ UNCHANGED kargs
  /\ hov' = [hov EXCEPT ![x] = Apply(@, <<<<c, v>>>>)] /\ obs' = <<"set", x>>
  /\ UNCHANGED <<live, how>>

Get(x, c) == /\ x \in live /\ obs' = <<"get", x, c, EvI(c, AR(x), IM(x))>>
             /\ UNCHANGED <<live, how, kmarks, imarks, xmarks, kargs, args, hov>>
GetSizes(x) == /\ x \in live /\ obs' = <<"sizes", x, SizesOf(XM(x))>>
               /\ UNCHANGED <<live, how, kmarks, imarks, xmarks, kargs, args, hov>>
GetSheet(x, s) ==
  /\ x \in live
  /\ obs' = <<"sheet", x, s, LET z == SizeOfDom(s, XM(x)) IN
                [r \in 1..z.rows |-> [c \in 1..z.cols |-> LET y == CoordAt(s, c, r) IN IF y = "none" THEN Blank ELSE EvI(y, AR(x), IM(x))]]>>
  /\ UNCHANGED <<live, how, kmarks, imarks, xmarks, kargs, args, hov>>
Bare == /\ obs' = <<"bare", SizesOf(IF Variant = "class_sizes" THEN kmarks ELSE {})>>
        /\ UNCHANGED <<live, how, kmarks, imarks, xmarks, kargs, args, hov>>

Next == \/ \E x \in Execs, h \in Hows : New(x, h)
        \/ \E x \in Execs : Drop(x)
        \/ \E x \in Execs, c \in WCoords, v \in Values : Set(x, c, v)
        \/ \E x \in Execs, c \in AllCoords : Get(x, c)
        \/ \E x \in Execs : GetSizes(x)
        \/ \E x \in Execs, s \in Sheets : GetSheet(x, s)
        \/ Bare

Spec == Init /\ [][Next]_vars

Ideal == INSTANCE E2P WITH ovs <- hov
Refines == Ideal!Spec
=============================================================================
