---- MODULE MC_Gen_C08 ----
EXTENDS Gen_C08
McOvChoices == { <<>>, << <<"S1A2", 4>> >>, << <<"S1A1", 2>>, <<"S1F4", 4>>, <<"S2C3", 2>>, <<"S1B2", 4>> >> }
McQCoords == {"S1C1", "S1D2", "S1F4", "S2A1", "S1B2", "S1E1", "S2D1"}
McQLists == { <<"S1A1", "S1D1", "S2B1">>, <<"S1C1", "S1C1", "S1A2">> }
====
