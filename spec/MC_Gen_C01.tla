---- MODULE MC_Gen_C01 ----
EXTENDS Gen_C01, C01Envs
====
