------------------------------ MODULE Gen_C08 ------------------------------
(* Direction A for C08: for a fixed override set, every schedule of up to MaxQ   *)
(* queries (single cell, list of cells, whole sheet).  Each query carries the    *)
(* reply the ideal executor gives; because queries are pure (QueriesArePure) the *)
(* reply cannot depend on the position in the schedule - the replay checks that  *)
(* the real Executor agrees, query by query, and that overrides/sizes are left   *)
(* untouched.                                                                    *)
EXTENDS Executor, Json

CONSTANTS MaxQ, OvChoices, QCoords, QLists
VARIABLES hist, done
gvars == <<vars, hist, done>>

GInit == /\ \E o \in OvChoices : ov = Apply(EmptyOv, o) /\ hist = <<[q |-> "ov", arg |-> o, exp |-> <<>>]>>
         /\ obs = <<"nothing">> /\ done = FALSE
Q(A, q, arg) == /\ ~done /\ Len(hist) <= MaxQ /\ A
                /\ hist' = Append(hist, [q |-> q, arg |-> arg, exp |-> obs'[Len(obs')]]) /\ done' = FALSE
Finish == /\ ~done /\ Len(hist) > 1 /\ done' = TRUE /\ UNCHANGED <<vars, hist>>
          /\ PrintT(ToJson([h |-> hist, sizes |-> [s \in 1..2 |-> SizeOf(s, ov)]]))
GNext == \/ \E c \in QCoords : Q(Get(c), "get", c)
         \/ \E cs \in QLists : Q(GetMany(cs), "many", cs)
         \/ \E s \in Sheets : Q(GetSheet(s), "sheet", s)
         \/ Finish
GSpec == GInit /\ [][GNext]_gvars
=============================================================================
