------------------------------- MODULE Gen_C05 -------------------------------
(* Direction A for C05/C06: token soups.  Every sequence "=" ++ s with s over the *)
(* alphabet Alpha, |s| <= MaxLen, is a state carrying the grammar's verdict       *)
(* (Accept) and the code-shaped model's prediction (raw first-match result).      *)
EXTENDS ImplGrammar, Json
CONSTANTS Alpha, MaxLen, Variant
VARIABLES toks, done, res

Nil == [acc |-> FALSE, raw |-> "nil"]
Init == toks = <<"EqOperatorToken">> /\ done = FALSE /\ res = Nil
Extend == ~done /\ Len(toks) <= MaxLen /\ \E k \in Alpha : toks' = Append(toks, k) /\ done' = FALSE /\ res' = Nil
Finish == /\ ~done /\ Len(toks) > 1 /\ done' = TRUE /\ toks' = toks
          /\ res' = [acc |-> Accept(toks), raw |-> Raw(toks)]
          /\ PrintT(ToJson([t |-> Tail(toks), acc |-> res'.acc, raw |-> res'.raw]))
Next == Extend \/ Finish
Spec == Init /\ [][Next]_<<toks, done, res>>

\* C05 on the design (holds for Variant = "fixed", fails for "pinned"):
InvWholeOrLib == done => (res.raw \in {"whole", "exc"} \/ Variant = "fixed")
\* what first match accepts whole, the grammar derives whole
InvWholeImpliesCFG == done => (res.raw = "whole" => res.acc)
=============================================================================
