------------------------------- MODULE XlText -------------------------------
(* C17: the substring algebra, SEARCH with wildcards, text forms, VALUE.            *)
(* A text is a sequence of character codes (TLC cannot index strings).              *)
(* Results: [k |-> "text", c], [k |-> "num", n] (positions), [k |-> "err"],          *)
(*          [k |-> "oos"] where the statement pins nothing.                          *)
EXTENDS Integers, Sequences, FiniteSets, TLC

T(c) == [k |-> "text", c |-> c]
N(n) == [k |-> "num", n |-> n]
Err == [k |-> "err"]
Oos == [k |-> "oos"]
Min(a, b) == IF a < b THEN a ELSE b
Max(a, b) == IF a > b THEN a ELSE b
QM == 63  STAR == 42  TILDE == 126
Lower(c) == IF c \in 65..90 THEN c + 32 ELSE c

\* ---- LEFT / RIGHT / MID ----
Left(t, n) == IF n < 0 THEN Err ELSE T(SubSeq(t, 1, Min(n, Len(t))))
Right(t, n) == IF n < 0 THEN Err ELSE T(SubSeq(t, Len(t) - Min(n, Len(t)) + 1, Len(t)))
Mid(t, k, n) == IF k < 1 \/ n < 0 THEN Err ELSE T(SubSeq(t, k, Min(k + n - 1, Len(t))))
Left1(t) == Left(t, 1)          \* the count defaults to 1 (also on the empty text)
Right1(t) == Right(t, 1)

\* ---- wildcard matching: ? one character, * any run, ~ makes the next ? * ~ literal; case-insensitive ----
RECURSIVE MatchPrefix(_, _, _, _)
\* can p[i..] be matched against t[j..e) for some e (pattern consumed entirely)?
MatchPrefix(p, i, t, j) ==
  IF i > Len(p) THEN TRUE
  ELSE IF p[i] = TILDE /\ i < Len(p) /\ p[i + 1] \in {QM, STAR, TILDE}
       THEN j <= Len(t) /\ t[j] = p[i + 1] /\ MatchPrefix(p, i + 2, t, j + 1)
  ELSE IF p[i] = QM THEN j <= Len(t) /\ MatchPrefix(p, i + 1, t, j + 1)
  ELSE IF p[i] = STAR THEN \E e \in j..(Len(t) + 1) : MatchPrefix(p, i + 1, t, e)
  ELSE j <= Len(t) /\ Lower(t[j]) = Lower(p[i]) /\ MatchPrefix(p, i + 1, t, j + 1)
\* tilde scan: every ~ must start an escape pair (left to right)
RECURSIVE TildesOk(_, _)
TildesOk(p, i) == IF i > Len(p) THEN TRUE
                  ELSE IF p[i] = TILDE THEN i < Len(p) /\ p[i + 1] \in {QM, STAR, TILDE} /\ TildesOk(p, i + 2)
                  ELSE TildesOk(p, i + 1)
\* SEARCH(f, t, s): least position >= s where f matches, else #VALUE!; s outside 1..Len(t) is #VALUE!
Search(f, t, s) ==
  IF ~TildesOk(f, 1) \/ t = <<>> THEN Oos
  ELSE IF s < 1 \/ s > Len(t) THEN Err
  ELSE LET P == {p \in s..Len(t) : MatchPrefix(f, 1, t, p)} IN
       IF P = {} THEN Err ELSE N(CHOOSE p \in P : \A q \in P : p <= q)

\* ---- text form of a value under & / CONCATENATE, and VALUE ----
\* numbers are decimals <<m, s>> (m * 10^-s, m has no trailing zero when s > 0)
RECURSIVE DigitsOf(_)
DigitsOf(n) == IF n < 10 THEN <<48 + n>> ELSE DigitsOf(n \div 10) \o <<48 + (n % 10)>>
RECURSIVE Pow10(_)
Pow10(k) == IF k <= 0 THEN 1 ELSE 10 * Pow10(k - 1)
RECURSIVE PadFrac(_, _)
PadFrac(n, w) == IF w = 0 THEN <<>> ELSE PadFrac(n \div 10, w - 1) \o <<48 + (n % 10)>>
DecText(m, s) == LET a == IF m < 0 THEN -m ELSE m IN
  (IF m < 0 THEN <<45>> ELSE <<>>) \o DigitsOf(a \div Pow10(s)) \o (IF s > 0 THEN <<46>> \o PadFrac(a % Pow10(s), s) ELSE <<>>)
\* v: [k |-> "text", c] | [k |-> "dec", m, s] | [k |-> "blank"] | [k |-> "date", d] | [k |-> "bool", b]
ToText(v) == CASE v.k = "text" -> v.c [] v.k = "dec" -> DecText(v.m, v.s) [] v.k = "blank" -> <<>> [] v.k = "date" -> DigitsOf(v.d)
               [] v.k = "bool" -> (IF v.b THEN <<84, 82, 85, 69>> ELSE <<70, 65, 76, 83, 69>>)      \* TRUE / FALSE
RECURSIVE ConcatAll(_)
ConcatAll(vs) == IF vs = <<>> THEN <<>> ELSE ToText(Head(vs)) \o ConcatAll(Tail(vs))
\* VALUE: [sign] digits [. digits]  ->  <<m, s>> normalised; anything else is outside this model
IsDigit(c) == c \in 48..57
RECURSIVE ParseNat(_, _, _)
ParseNat(t, i, acc) == IF i > Len(t) \/ ~IsDigit(t[i]) THEN <<acc, i>> ELSE ParseNat(t, i + 1, acc * 10 + (t[i] - 48))
RECURSIVE Normalize(_, _)
Normalize(m, s) == IF s > 0 /\ m % 10 = 0 THEN Normalize(m \div 10, s - 1) ELSE [k |-> "dec", m |-> m, s |-> s]
Value(t) ==
  LET neg == Len(t) > 0 /\ t[1] = 45
      i0 == IF neg THEN 2 ELSE 1
      ip == ParseNat(t, i0, 0)
      hasDot == ip[2] <= Len(t) /\ t[ip[2]] = 46
      fp == IF hasDot THEN ParseNat(t, ip[2] + 1, 0) ELSE <<0, ip[2]>>
      fl == IF hasDot THEN fp[2] - ip[2] - 1 ELSE 0
      sg == IF neg THEN -1 ELSE 1
  IN IF ip[2] = i0 \/ fp[2] # Len(t) + 1 \/ (hasDot /\ fl = 0) \/ Len(t) > 9 THEN Oos
     ELSE Normalize(sg * (ip[1] * Pow10(fl) + fp[1]), fl)
=============================================================================
