------------------------------- MODULE Gen_C15 -------------------------------
(* Direction A for C15.  Kind selects the family; a shard is one row of the grid,   *)
(* exported as one record with the whole row of ideal results.                      *)
(*   DATE    : (y, m) x d in DLo..DHi            -> serial (or -1 outside 1900-03-01..9999-12-31) *)
(*   EDATE   : start date x month offsets         -> EDATE and EOMONTH serials        *)
(*   DATEDIF : start date x later dates of the grid -> D, M, Y, YM  *)
(*   NWD     : (start date, holiday subset) x end dates of the window -> NETWORKDAYS   *)
EXTENDS XlCalendar, Json
CONSTANTS Kind, Thorough
VARIABLE st

SeqOf(lo, hi) == [i \in 1..(hi - lo + 1) |-> lo + i - 1]
InRange(s) == s >= 61 /\ s <= 2958465
\* ---- DATE ----
Years == IF Thorough THEN {1900, 1999, 2000, 2001, 2023, 2024, 2100, 9990} ELSE {1900, 2024, 2100}
MLo == -14  MHi == 27
DLo == -70  DHi == 99
DateRow(y, m) == [i \in 1..(DHi - DLo + 1) |-> LET s == DateNorm(y, m, DLo + i - 1) IN IF InRange(s) THEN s ELSE -1]
\* ---- EDATE / EOMONTH ----
W0 == Serial(2023, 12, 25)
W1 == Serial(2025, 3, 5)
EStarts == IF Thorough THEN W0..W1
           ELSE {s \in W0..W1 : Civil(s).d \in {1, 15, 28, 29, 30, 31}} \cup (Serial(2024, 1, 25)..Serial(2024, 3, 5))
Ks == IF Thorough THEN SeqOf(-60, 60) ELSE <<-60, -25, -13, -12, -11, -2, -1, 0, 1, 2, 11, 12, 13, 14, 24, 60>>
\* ---- DATEDIF ----
D0 == Serial(2019, 12, 1)
D1 == Serial(2022, 3, 5)
IsMonthEnd(s) == Civil(s + 1).d = 1
DGrid == IF Thorough THEN {s \in D0..D1 : (s - D0) % 3 = 0 \/ IsMonthEnd(s) \/ Civil(s).d \in {1, 28, 29}}
         ELSE {s \in D0..Serial(2021, 3, 5) : (s - D0) % 7 = 0 \/ IsMonthEnd(s) \/ (Civil(s).m = 2 /\ Civil(s).d \in {28, 29}) \/ (Civil(s).m = 3 /\ Civil(s).d = 1)}
SetToSeq(S) == LET RECURSIVE F(_, _)
                   F(R, lo) == IF R = {} THEN <<>> ELSE LET x == CHOOSE y \in R : \A z \in R : y <= z IN <<x>> \o F(R \ {x}, x)
               IN F(S, 0)
DifRow(s1, ends, u) == [i \in 1..Len(ends) |-> DateDif(u, s1, ends[i])]
\* ---- NETWORKDAYS ----
N0 == Serial(2024, 4, 22)          \* a Monday
NLen == IF Thorough THEN 42 ELSE 21
Hol == <<N0 + 2, N0 + 5, N0 + 9, N0 + 25>>      \* Wed, Sat (weekend holiday), next Wed, a later Friday
HSets == SUBSET (1..4)
NwdRow(s1, hs) == [i \in 1..NLen |-> NetworkDays(s1, N0 + i - 1, {Hol[h] : h \in hs})]

Init == st = [ph |-> "root"]
Next == /\ st.ph = "root"
        /\ \/ /\ Kind = "DATE"
              /\ \E y \in Years, m \in MLo..MHi :
                   /\ st' = [ph |-> "DATE", y |-> y, m |-> m]
                   /\ PrintT(ToJson([f |-> "DATE", y |-> y, m |-> m, d0 |-> DLo, v |-> DateRow(y, m)]))
           \/ /\ Kind = "EDATE"
              /\ \E s \in EStarts :
                   /\ st' = [ph |-> "EDATE", s |-> s]
                   /\ PrintT(ToJson([f |-> "EDATE", s |-> s, ks |-> Ks, e |-> [i \in 1..Len(Ks) |-> EDate(s, Ks[i])],
                                     eo |-> [i \in 1..Len(Ks) |-> EoMonth(s, Ks[i])]]))
           \/ /\ Kind = "DATEDIF"
              /\ \E s1 \in DGrid :
                   LET ends == SetToSeq({s2 \in DGrid : s2 >= s1}) IN
                   /\ st' = [ph |-> "DATEDIF", s |-> s1]
                   /\ PrintT(ToJson([f |-> "DATEDIF", s |-> s1, ends |-> ends, D |-> DifRow(s1, ends, "D"), M |-> DifRow(s1, ends, "M"),
                                     Y |-> DifRow(s1, ends, "Y"), YM |-> DifRow(s1, ends, "YM")]))
           \/ /\ Kind = "NWD"
              /\ \E i \in 1..NLen, hs \in HSets :
                   /\ st' = [ph |-> "NWD", s |-> N0 + i - 1, hs |-> hs]
                   /\ PrintT(ToJson([f |-> "NWD", s |-> N0 + i - 1, n0 |-> N0, hol |-> [h \in 1..4 |-> IF h \in hs THEN Hol[h] ELSE 0],
                                     v |-> NwdRow(N0 + i - 1, hs)]))
=============================================================================
