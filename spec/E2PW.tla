-------------------------------- MODULE E2PW --------------------------------
(* THE WHOLE PIPELINE (ideal): a workbook file that is REPLACED under its path,   *)
(* one Parser that is told about it (or not), the translation it returns and the  *)
(* class file it writes, and executors made from either - while the file keeps    *)
(* changing.  It composes the facade of C09 with the sessions of E2P:             *)
(*   - the text a Parser returns is the translation of the file as it was when    *)
(*     the Parser last had a reason to read it (a setter was called): repeated    *)
(*     requests without a change return the identical text, also when the file    *)
(*     was replaced behind the Parser's back (C09);                               *)
(*   - the written class file equals the returned text (C09);                     *)
(*   - an executor reports the workbook OF ITS TRANSLATION (+) its own overrides, *)
(*     whatever is translated, written or loaded afterwards (C04, C06): loading a *)
(*     newer class file, or executing a newer text, changes nothing for the       *)
(*     executors that already exist.                                              *)
(* Two versions of the generator workbook: version 1 is Workbook4!WB, version 2   *)
(* stores 7 in S1!A1 and 9 in S2!C3 (a cell beyond version 1's used range: the    *)
(* sizes differ too).  A stored constant and an override of the same cell mean    *)
(* the same workbook (C04), so version v is WB (+) Base(v).                       *)
EXTENDS Workbook4, TLC

CONSTANTS Execs, WCoords, Values

Versions == {1, 2}
Base(v) == IF v = 1 THEN EmptyOv ELSE [c \in {"S1A1", "S2C3"} |-> IF c = "S1A1" THEN 7 ELSE 9]
\* the workbook of version v edited by the overrides ov (the overrides win)
Over(v, ov) == [c \in (DOMAIN Base(v)) \cup (DOMAIN ov) |-> IF c \in DOMAIN ov THEN ov[c] ELSE Base(v)[c]]
EvV(v, c, ov) == Ev(c, Over(v, ov))
SizesV(v, ov) == [s \in Sheets |-> SizeOf(s, Over(v, ov))]

VARIABLES file,        \* version of the workbook stored under the path at the moment
          dirty,       \* the Parser has been given a reason to read the file again (a setter was called)
          text,        \* version the Parser's current translation was made from (0: none yet)
          written,     \* version of the class file on disk (0: none)
          wv,          \* per executor: version of the translation it was made from (0: not alive)
          ovs,         \* per executor: its overrides
          obs

vars == <<file, dirty, text, written, wv, ovs, obs>>

Init == /\ file = 1 /\ dirty = TRUE /\ text = 0 /\ written = 0
        /\ wv = [x \in Execs |-> 0] /\ ovs = [x \in Execs |-> EmptyOv] /\ obs = <<"nothing">>

\* the user's tool regenerates the workbook under the same path
Replace(v) == /\ file' = v /\ obs' = <<"replace", v>> /\ UNCHANGED <<dirty, text, written, wv, ovs>>
\* set_excel_file_path(the same path) / any other setter: the next request reads the file
Announce == /\ dirty' = TRUE /\ obs' = <<"announce">> /\ UNCHANGED <<file, text, written, wv, ovs>>
Current == IF dirty THEN file ELSE text
GetText == /\ text' = Current /\ dirty' = FALSE /\ obs' = <<"text", Current>> /\ UNCHANGED <<file, written, wv, ovs>>
WriteFile == /\ text' = Current /\ dirty' = FALSE /\ written' = Current /\ obs' = <<"write", Current>> /\ UNCHANGED <<file, wv, ovs>>
NewFromFile(x) == /\ wv[x] = 0 /\ written # 0
                  /\ wv' = [wv EXCEPT ![x] = written] /\ ovs' = [ovs EXCEPT ![x] = EmptyOv]
                  /\ obs' = <<"new", x, "file", SizesV(written, EmptyOv)>> /\ UNCHANGED <<file, dirty, text, written>>
NewFromText(x) == /\ wv[x] = 0 /\ text # 0
                  /\ wv' = [wv EXCEPT ![x] = text] /\ ovs' = [ovs EXCEPT ![x] = EmptyOv]
                  /\ obs' = <<"new", x, "text", SizesV(text, EmptyOv)>> /\ UNCHANGED <<file, dirty, text, written>>
Drop(x) == /\ wv[x] # 0 /\ wv' = [wv EXCEPT ![x] = 0] /\ ovs' = [ovs EXCEPT ![x] = EmptyOv] /\ obs' = <<"drop", x>>
           /\ UNCHANGED <<file, dirty, text, written>>
Set(x, c, v) == /\ wv[x] # 0 /\ ovs' = [ovs EXCEPT ![x] = Apply(@, <<<<c, v>>>>)] /\ obs' = <<"set", x>>
                /\ UNCHANGED <<file, dirty, text, written, wv>>
Get(x, c) == /\ wv[x] # 0 /\ obs' = <<"get", x, c, EvV(wv[x], c, ovs[x])>> /\ UNCHANGED <<file, dirty, text, written, wv, ovs>>
GetSizes(x) == /\ wv[x] # 0 /\ obs' = <<"sizes", x, SizesV(wv[x], ovs[x])>> /\ UNCHANGED <<file, dirty, text, written, wv, ovs>>

Next == \/ \E v \in Versions : Replace(v)
        \/ Announce \/ GetText \/ WriteFile
        \/ \E x \in Execs : NewFromFile(x) \/ NewFromText(x) \/ Drop(x) \/ GetSizes(x)
        \/ \E x \in Execs, c \in WCoords, v \in Values : Set(x, c, v)
        \/ \E x \in Execs, c \in AllCoords : Get(x, c)

Spec == Init /\ [][Next]_vars

\* ---- the statements
\* an executor keeps the workbook of its translation for as long as it lives
ExecutorKeepsItsWorkbook == [][\A x \in Execs : (wv[x] # 0 /\ wv'[x] # 0) => wv'[x] = wv[x]]_vars
\* nothing the Parser or the file does reaches the overrides of an executor
PipelineLeavesOverridesAlone == [][obs'[1] \in {"replace", "announce", "text", "write"} => UNCHANGED <<wv, ovs>>]_vars
\* repeated requests without a change return the identical text, even when the file was replaced behind the Parser's back
TextStableUntilAnnounced == [][(~dirty /\ obs'[1] \in {"text", "write"}) => text' = text]_vars
\* a request after a setter reflects the file as it is at that moment
TextIsCurrentAfterAnnounce == [][(dirty /\ obs'[1] \in {"text", "write"}) => text' = file]_vars
\* the written file equals the returned text
FileEqualsText == [][(written' # written) => written' = text']_vars
\* the two versions are distinguishable by an executor that was told nothing (otherwise the binding would be vacuous)
VersionsDiffer == EvV(1, "S1A1", EmptyOv) # EvV(2, "S1A1", EmptyOv) /\ SizesV(1, EmptyOv) # SizesV(2, EmptyOv)
=============================================================================
