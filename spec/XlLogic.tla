------------------------------- MODULE XlLogic -------------------------------
(* C13: IF / IFS / IFERROR with lazy semantics and error values.                    *)
(* AST (nested records):                                                             *)
(*   [t |-> "num", n]      numeric literal            [t |-> "cond", i]  condition i  *)
(*   [t |-> "fail"]        an expression whose evaluation fails (1/blank)            *)
(*   [t |-> "na"]          an expression yielding the error value #N/A (MATCH miss)  *)
(*   [t |-> "blank"]       a reference to a blank cell      [t |-> "text"]  a text cell *)
(*   [t |-> "if3", c, a, b]   [t |-> "if2", c, a]   [t |-> "ifs", ps] ps = <<<<c1, v1>>, ...>>   *)
(*   [t |-> "iferror", x, f]                                                          *)
(* env: sequence of BOOLEAN (truth of condition i).                                   *)
(* Values: [k |-> "num", n] (n in hundredths, to allow %), [k |-> "bool", b], [k |-> "err", e] e in NA / DIV0 *)
EXTENDS Integers, Sequences, TLC

Num(n) == [k |-> "num", n |-> n]
Bool(b) == [k |-> "bool", b |-> b]
Err(e) == [k |-> "err", e |-> e]
IsErr(v) == v.k = "err"
Truthy(v) == IF v.k = "bool" THEN v.b ELSE IF v.k = "num" THEN v.n # 0 ELSE FALSE
RECURSIVE Eval(_, _), EvalIfs(_, _, _)
Eval(a, env) ==
  CASE a.t = "num"  -> Num(100 * a.n)
    [] a.t = "cond" -> Bool(env[a.i])
    [] a.t = "fail" -> Err("DIV0")
    [] a.t = "failref" -> Err("DIV0")               \* a bare reference to a cell whose own formula fails
    [] a.t = "failcat" -> Err("DIV0")               \* ... joined with a text by & : the failure is still a failure
    [] a.t = "failcmp" -> Err("DIV0")               \* ... compared with a number
    [] a.t = "na"   -> Err("NA")
    [] a.t = "blank" -> [k |-> "blank"]             \* a reference to a blank cell: a value, not an error
    [] a.t = "text" -> [k |-> "text"]               \* a text value (which text is irrelevant here)
    [] a.t = "if3"  -> LET c == Eval(a.c, env) IN IF IsErr(c) THEN c ELSE IF Truthy(c) THEN Eval(a.a, env) ELSE Eval(a.b, env)
    [] a.t = "if2"  -> LET c == Eval(a.c, env) IN IF IsErr(c) THEN c ELSE IF Truthy(c) THEN Eval(a.a, env) ELSE Bool(FALSE)
    [] a.t = "ifs"  -> EvalIfs(a.ps, 1, env)
    [] a.t = "iferror" -> LET x == Eval(a.x, env) IN IF IsErr(x) THEN Eval(a.f, env) ELSE x
EvalIfs(ps, i, env) == IF i > Len(ps) THEN Err("NA")
                       ELSE LET c == Eval(ps[i][1], env) IN IF IsErr(c) THEN c ELSE IF Truthy(c) THEN Eval(ps[i][2], env) ELSE EvalIfs(ps, i + 1, env)
\* the nest placed inside a larger expression; OOS where the surrounding operator's treatment of the value is another property's business
Oos == [k |-> "oos"]
Embed(kind, v) ==
  IF kind = "bare" THEN v
  ELSE IF v.k # "num" THEN Oos
  ELSE CASE kind = "left"  -> Num(v.n + 100)        \* T+1
         [] kind = "right" -> Num(100 + v.n)        \* 1+T
         [] kind = "neg"   -> Num(-v.n)             \* -T
         [] kind = "pct"   -> Num(v.n \div 100)     \* T%   (hundredths of an integer value: exact)
         [] kind = "sum"   -> Num(v.n + 100)        \* SUM(T,1)
         [] kind = "round" -> v                     \* ROUND(T,0)
         [] kind = "mul"   -> Num(2 * v.n)          \* 2*T
EmbKinds == <<"bare", "left", "right", "neg", "pct", "sum", "round", "mul">>
=============================================================================
