------------------------------- MODULE Gen_C12 -------------------------------
(* Direction A for C12: every criteria column of R cells over the content grid x    *)
(* every criterion, with the selected positions, and - per spelling of the criterion  *)
(* in the formula - the open findings whose Guard holds for this input.               *)
(* Spellings:  value      5 / "x" / "app*" written as a literal                         *)
(*             valuecell  the value held by a cell                                     *)
(*             eqlit      "=5" / "=x"                                                  *)
(*             oplit      ">5" / "<>x" literal                                          *)
(*             opcat      ">" & cell holding the number                                 *)
(*             cellcrit   a cell holding the text ">5"                                  *)
EXTENDS XlCriteria, C12Grid, Json
CONSTANTS R, Reduced, Bools
VARIABLE st
Pool == IF Bools THEN BoolCells ELSE IF Reduced THEN {NQ(0), NQ(20), NQ(28), NQ(10), TX(<<120>>), TX(<<97, 112, 112, 108, 101>>), TX(<<98, 63>>), TX(<<97, 112, 112, 10, 108, 101>>), BlankC} ELSE Cells
Spellings(crit) == IF crit.op = "EQ" THEN {"value", "valuecell", "eqlit", "cellcrit"}
                   ELSE IF crit.operand.k = "num" THEN {"oplit", "opcat", "cellcrit"} ELSE {"oplit", "cellcrit"}
SetToSeq(S) == LET RECURSIVE F(_)
                   F(W) == IF W = {} THEN <<>> ELSE LET x == CHOOSE y \in W : \A z \in W : y <= z IN <<x>> \o F(W \ {x})
               IN F(S)
StrSeq(S) == LET RECURSIVE F(_)
                 F(W) == IF W = {} THEN <<>> ELSE LET x == CHOOSE y \in W : TRUE IN <<x>> \o F(W \ {x})
             IN F(S)
CritSeq == StrSeq(IF Bools THEN BoolCrits ELSE Crits)
\* the fixed second pair of the two-pair formulas: column C holds 1, 2, 3, 4 and the criterion is ">1"
CCol == [i \in 1..R |-> NQ(4 * i)]
C2 == [op |-> "GT", operand |-> NQ(4)]
Init == \E i \in 1..Len(CritSeq) : st = [ph |-> "shard", ci |-> i]
Next == /\ st.ph = "shard"
        /\ \E col \in [1..R -> Pool] :
             LET crit == CritSeq[st.ci] sel == Sel(<<col>>, <<crit>>, R) IN
             /\ st' = [ph |-> "case", ci |-> st.ci, col |-> col]
             /\ PrintT(ToJson([ci |-> st.ci, crit |-> crit, col |-> col, sel |-> SetToSeq(sel),
                               sel12 |-> SetToSeq(Sel(<<col, CCol>>, <<crit, C2>>, R)),
                               g |-> [sp \in Spellings(crit) |-> StrSeq(Guards(col, crit, sp))],
                               gsum |-> [sp \in Spellings(crit) |-> StrSeq(GuardsSum(col, crit, sp))],
                               iv |-> [sp \in Spellings(crit) |-> [c |-> ImplVerdicts(col, crit, sp, TRUE), n |-> ImplVerdicts(col, crit, sp, FALSE)]]]))
=============================================================================
