----------------------------- MODULE Trace_E2P -----------------------------
(* Direction B for the session specification: traces recorded from SEVERAL real  *)
(* executors of one translation (bound to the class object or to the written     *)
(* file), interleaved at random, are validated against E2P: every reply of       *)
(* executor x must be what the specification computes from the workbook and the  *)
(* overrides supplied to x alone; a new executor and a bare instance report the  *)
(* workbook's sizes.                                                              *)
EXTENDS Workbook4, TLC, Json, IOUtils, FiniteSets

VARIABLES ovs, live, tid, l
Traces == JsonDeserialize(IOEnv.TRACE_FILE).traces
XS == 1..3
NoOvs == [x \in XS |-> EmptyOv]

Init == ovs = NoOvs /\ live = {} /\ tid = 1 /\ l = 1
Ev0 == Traces[tid][l]

V(j) == IF j.k = "num" THEN Num(j.n) ELSE IF j.k = "bool" THEN Bool(j.b) ELSE IF j.k = "blank" THEN Blank ELSE IF j.k = "err" THEN Err ELSE Other
SameGrid(g, exp) ==
  /\ Len(g) = Len(exp)
  /\ \A r \in 1..Len(exp) : Len(g[r]) = Len(exp[r]) /\ \A c \in 1..Len(exp[r]) : V(g[r][c]) = exp[r][c]
HasErr(exp) == \E r \in 1..Len(exp) : \E c \in 1..Len(exp[r]) : exp[r][c] = Err
SameSizes(res, o) == \A s \in 1..2 : res[s].rows = SizeOf(s, o).rows /\ res[s].cols = SizeOf(s, o).cols

Verdict(e) ==   \* "" = explained by the specification, otherwise the failed clause
  CASE e.ev = "new"   -> IF e.x \in live THEN "harness: executor identity reused while alive"
                         ELSE IF SameSizes(e.res, EmptyOv) THEN "" ELSE "a new executor does not report the sizes of the workbook"
    [] e.ev = "bare"  -> IF SameSizes(e.res, EmptyOv) THEN "" ELSE "a new instance of the class does not report the sizes of the workbook"
    [] e.ev = "drop"  -> ""
    [] e.ev = "set"   -> ""
    [] e.ev = "get"   -> IF V(e.res) = Ev(e.c, ovs[e.x]) THEN "" ELSE "get: value differs from (workbook (+) the overrides of this executor)"
    [] e.ev = "sheet" -> LET exp == Grid(e.s, ovs[e.x]) IN
                         IF e.raised THEN (IF HasErr(exp) THEN "" ELSE "get_sheet raised although no cell of the grid fails")
                         ELSE IF SameGrid(e.res, exp) THEN "" ELSE "get_sheet: grid differs from used range (+) the overrides of this executor"
    [] e.ev = "sizes" -> IF SameSizes(e.res, ovs[e.x]) THEN "" ELSE "sizes differ from used range (+) the overrides of this executor"

Step ==
  /\ tid <= Len(Traces)
  /\ LET e == Ev0 v == Verdict(Ev0) last == (l = Len(Traces[tid])) IN
     IF v = ""
     THEN /\ tid' = IF last THEN tid + 1 ELSE tid
          /\ l' = IF last THEN 1 ELSE l + 1
          /\ ovs' = IF last THEN NoOvs
                    ELSE IF e.ev = "set" THEN [ovs EXCEPT ![e.x] = Apply(@, <<<<e.c, e.v>>>>)]
                    ELSE IF e.ev \in {"new", "drop"} THEN [ovs EXCEPT ![e.x] = EmptyOv] ELSE ovs
          /\ live' = IF last THEN {} ELSE IF e.ev = "new" THEN live \cup {e.x} ELSE IF e.ev = "drop" THEN live \ {e.x} ELSE live
     ELSE /\ PrintT(<<"REJECT", tid, l, v>>)
          /\ tid' = tid + 1 /\ l' = 1 /\ ovs' = NoOvs /\ live' = {}
  /\ ((tid' = Len(Traces) + 1) => PrintT(<<"DONE", tid'>>))

Spec == Init /\ [][Step]_<<ovs, live, tid, l>>
=============================================================================
