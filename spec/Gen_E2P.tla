------------------------------ MODULE Gen_E2P ------------------------------
(* Direction A for the session specification: every history of Depth steps       *)
(* (new / drop / set over the executors) of the IDEAL sessions.  After every step *)
(* the behaviour records what EVERY live executor must report - the value of      *)
(* every coordinate and the sizes - and what a bare instance of the class object  *)
(* reports.  The harness replays each history on real executors bound to one      *)
(* class object / to the written file and compares after every step.              *)
EXTENDS E2P, Json, Sequences

CONSTANT Depth
VARIABLES hist, done
gvars == <<vars, hist, done>>

CoordSeq == <<"S1A1", "S1B1", "S1C1", "S1D1", "S1A2", "S1B2", "S1C2", "S1D2", "S1E1", "S1F4", "S2A1", "S2B1", "S2C3", "S2D1">>
ExecSeq == <<1, 2, 3>>
SnapOf(o) == [vals |-> [i \in 1..Len(CoordSeq) |-> [c |-> CoordSeq[i], v |-> Ev(CoordSeq[i], o)]], sizes |-> [s \in 1..2 |-> SizeOf(s, o)]]
\* one entry per executor identity (dead executors: live = FALSE, nothing to compare)
Snap(lv, o) == [i \in 1..Len(ExecSeq) |-> IF ExecSeq[i] \in lv THEN [live |-> TRUE, snap |-> SnapOf(o[ExecSeq[i]])]
                                                             ELSE [live |-> FALSE, snap |-> SnapOf(EmptyOv)]]
Bare0 == [s \in 1..2 |-> SizeOf(s, EmptyOv)]

GInit == Init /\ hist = <<>> /\ done = FALSE
Rec(a) == hist' = Append(hist, [a |-> a, after |-> Snap(live', ovs'), bare |-> Bare0]) /\ done' = FALSE
Step == /\ ~done /\ Len(hist) < Depth
        /\ \/ \E x \in Execs, h \in Hows : New(x, h) /\ Rec([op |-> "new", x |-> x, how |-> h, c |-> "", v |-> 0])
           \/ \E x \in Execs : Drop(x) /\ Rec([op |-> "drop", x |-> x, how |-> "", c |-> "", v |-> 0])
           \/ \E x \in Execs, c \in WCoords, v \in Values : Set(x, c, v) /\ Rec([op |-> "set", x |-> x, how |-> "", c |-> c, v |-> v])
\* only histories in which at least two executors were alive at once and something was written say anything beyond Gen_C04
Interesting == /\ \E i \in 1..Len(hist) : hist[i].a.op = "set"
               /\ \E i \in 1..Len(hist) : Len(SelectSeq(hist[i].after, LAMBDA e : e.live)) >= 2
Finish == /\ ~done /\ Len(hist) = Depth /\ done' = TRUE /\ UNCHANGED <<vars, hist>>
          /\ (Interesting => PrintT(ToJson([h |-> hist])))
GNext == Step \/ Finish
GSpec == GInit /\ [][GNext]_gvars
=============================================================================
