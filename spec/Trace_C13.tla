------------------------------ MODULE Trace_C13 ------------------------------
(* Direction B for C13: events {ast, env, emb, obs} from random deeper nests           *)
(* (depth 3, mixed) are evaluated by the specification's lazy evaluator.               *)
(* obs: [k |-> "num", n (hundredths)] | [k |-> "bool", b] | [k |-> "err"] | [k |-> "other"] *)
EXTENDS XlLogic, Json, IOUtils
VARIABLE l
Log == JsonDeserialize(IOEnv.TRACE_FILE).events
Same(r, o) == CASE r.k = "oos" -> TRUE [] r.k = "num" -> o.k = "num" /\ o.n = r.n [] r.k = "bool" -> o.k = "bool" /\ o.b = r.b
                [] r.k = "err" -> o.k = "err"
                [] r.k = "blank" -> o.k = "blank" [] r.k = "text" -> o.k = "text"
Init == l = 1
Step == /\ l <= Len(Log)
        /\ LET e == Log[l] r == Embed(e.emb, Eval(e.ast, e.env)) IN IF Same(r, e.obs) THEN TRUE ELSE PrintT(<<"V", l, r>>)
        /\ l' = l + 1
        /\ (l' = Len(Log) + 1) => PrintT(<<"DONE", l'>>)
Spec == Init /\ [][Step]_l
=============================================================================
