---- MODULE MC_Gen_C05M ----
EXTENDS Gen_C05M
L == "LiteralToken"  C == "CellIdentifierToken"  M == "MatrixOfCellIdentifiersToken"
LP == "BracketStartToken"  RP == "BracketFinishToken"  S == "SeparatorToken"
McSeeds == {
  <<L, "PlusOperatorToken", C, "MultiplicationOperatorToken", L>>,
  <<LP, L, "MinusOperatorToken", C, RP, "DivOperatorToken", L>>,
  <<"MinusOperatorToken", L, "PercentToken", "AmpersandToken", L>>,
  <<C, "LtOrEqualOperatorToken", L>>,
  <<"IfKeywordToken", LP, C, "GtOperatorToken", L, S, L, S, L, RP>>,
  <<"SumKeywordToken", LP, M, S, L, RP, "PlusOperatorToken", L>>,
  <<"RoundKeywordToken", LP, C, "DivOperatorToken", L, S, L, RP>>,
  <<"IfErrorKeywordToken", LP, "VlookupKeywordToken", LP, C, S, M, S, L, S, L, RP, S, L, RP>>,
  <<"SumIfSKeywordToken", LP, M, S, M, S, L, RP>>,
  <<"TodayKeywordToken", LP, RP>>,
  <<"IndexKeywordToken", LP, M, S, "MatchKeywordToken", LP, C, S, M, S, L, RP, RP>>,
  <<"CountIfSKeywordToken", LP, M, S, "PatternToken", RP>>,
  <<"LeftKeywordToken", LP, C, S, L, RP, "AmpersandToken", "MidKeywordToken", LP, C, S, L, S, L, RP>>
}
McSeedsQuick == {
  <<L, "PlusOperatorToken", C, "MultiplicationOperatorToken", L>>,
  <<LP, L, "MinusOperatorToken", C, RP, "DivOperatorToken", L>>,
  <<"IfKeywordToken", LP, C, "GtOperatorToken", L, S, L, S, L, RP>>,
  <<"SumKeywordToken", LP, M, S, L, RP, "PlusOperatorToken", L>>,
  <<"SumIfSKeywordToken", LP, M, S, M, S, L, RP>>
}
McAlpha == {L, C, M, LP, RP, S, "PlusOperatorToken", "MultiplicationOperatorToken", "AmpersandToken", "PercentToken",
            "EqOperatorToken", "SumKeywordToken", "PatternToken"}
McKeywords == {t \in Terminals : \E i \in 1..Len(t) : SubSeq(t, i, Len(t)) = "KeywordToken" }
====
