------------------------------ MODULE Gen_C04 ------------------------------
(* Direction A for C04: every sequence of up to Rounds override batches of the   *)
(* ideal executor.  After each batch the behaviour records the complete expected *)
(* snapshot (value of every coordinate, both sheet grids, sizes) computed by the *)
(* specification's own evaluation of (workbook (+) overrides).                   *)
EXTENDS Executor, Json

CONSTANT Rounds
VARIABLES hist, done
gvars == <<vars, hist, done>>

CoordSeq == <<"S1A1", "S1B1", "S1C1", "S1D1", "S1A2", "S1B2", "S1C2", "S1D2", "S1E1", "S1F4", "S2A1", "S2B1", "S2C3", "S2D1">>
Snap(o) == [vals |-> [i \in 1..Len(CoordSeq) |-> [c |-> CoordSeq[i], v |-> Ev(CoordSeq[i], o)]],
            grids |-> [s \in 1..2 |-> Grid(s, o)],
            sizes |-> [s \in 1..2 |-> SizeOf(s, o)]]

GInit == Init /\ hist = <<>> /\ done = FALSE
Round(b) == /\ ~done /\ Len(hist) < Rounds /\ SetCells(b)
            /\ hist' = Append(hist, [batch |-> b, snap |-> Snap(ov')]) /\ done' = FALSE
Finish == /\ ~done /\ hist # <<>> /\ done' = TRUE /\ UNCHANGED <<vars, hist>>
          /\ PrintT(ToJson([h |-> hist]))
GNext == (\E b \in Batches : Round(b)) \/ Finish
GSpec == GInit /\ [][GNext]_gvars
=============================================================================
