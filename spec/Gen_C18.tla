------------------------------- MODULE Gen_C18 -------------------------------
(* Direction A for C18 / C19: workbook layouts.                                       *)
(*  LAYOUT : 1..3 sheets, each a subset of a 3 x 3 corner grid plus optional beacons    *)
(*           far from the origin, content kinds rotated over the cells; with the size     *)
(*           of each sheet (invariants: WellFormed, SizesAreBoundingBox).                  *)
(*  GATE   : placements of 1..3 text fragments on a 4 x 5 grid of two sheets, each with    *)
(*           the verdict of the gate specification.                                        *)
EXTENDS Workbook, Json
CONSTANTS Kind, Thorough
VARIABLE st
Kinds == <<"int", "float", "bool", "one", "text", "datetime", "negint", "zero", "array", "date", "boolf", "bigint", "eqtext", "calltext">>
Corner == {<<c, r>> : c \in 1..3, r \in 1..3}
Beacons == {<<4, 7>>, <<27, 1>>, <<1, 100>>, <<16384, 3>>}
\* cells of a sheet from a set of coordinates; the kind depends on the position and a rotation
Mk(S, rot) == {[c |-> p[1], r |-> p[2], k |-> Kinds[((p[1] * 7 + p[2] * 3 + rot) % Len(Kinds)) + 1]] : p \in S}
FewSets == {{}, {<<1, 1>>}, {<<2, 3>>}, {<<1, 1>>, <<3, 3>>}, {<<3, 1>>, <<1, 3>>, <<2, 2>>}, Corner, Corner \ {<<1, 1>>}}
CornerSets == IF Thorough THEN SUBSET Corner ELSE FewSets
SizesAreBoundingBox(sh) == LET z == SizeOf(sh) IN
   /\ \A x \in sh.cells : x.c <= z.cols /\ x.r <= z.rows
   /\ (sh.cells # {} => (\E x \in sh.cells : x.c = z.cols) /\ (\E x \in sh.cells : x.r = z.rows))
   /\ (sh.cells = {} => z = [cols |-> 0, rows |-> 0])
\* every third layout has a chart sheet among its tabs (the position rotates)
ChartAt(wb) == LET k == Cardinality(wb[1].cells) + Len(wb) IN IF k % 3 = 0 THEN (k % Len(wb)) + 1 ELSE 0
Laws == st.ph = "case" => /\ \A i \in 1..Len(st.wb) : WellFormed(st.wb[i]) /\ SizesAreBoundingBox(st.wb[i])
                          /\ WorksheetTitles(Tabs(st.wb, ChartAt(st.wb))) = [i \in 1..Len(st.wb) |-> st.wb[i].title]     \* a chart sheet changes nothing
SetToSeq(S) == LET RECURSIVE F(_)
                   F(W) == IF W = {} THEN <<>> ELSE LET x == CHOOSE y \in W : TRUE IN <<x>> \o F(W \ {x})
               IN F(S)
Out(wb) == [sheets |-> [i \in 1..Len(wb) |-> [title |-> wb[i].title, cells |-> SetToSeq(wb[i].cells), size |-> SizeOf(wb[i])]],
            chartAt |-> ChartAt(wb), titles |-> WorksheetTitles(Tabs(wb, ChartAt(wb)))]
\* ---- gate ----
Frag == << <<101, 118, 97, 108, 40, 49, 41>>,                                              \* eval(1)
           <<111, 115, 46, 115, 121, 115, 116, 101, 109, 40, 34, 120, 34, 41>>,             \* os.system("x")
           <<95, 95, 105, 109, 112, 111, 114, 116, 95, 95, 40, 39, 111, 115, 39, 41>>,      \* __import__('os')
           <<102, 40, 41>>,                                                                 \* f()
           <<61, 83, 85, 77, 40, 65, 49, 58, 65, 50, 41>>,                                  \* =SUM(A1:A2)
           <<61, 73, 70, 40, 65, 49, 62, 48, 44, 49, 44, 50, 41>>,                          \* =IF(A1>0,1,2)
           <<112, 108, 97, 105, 110, 32, 116, 101, 120, 116>>,                              \* plain text
           <<97, 32, 40, 98, 41>>,                                                          \* a (b)
           <<83, 117, 109, 40, 49, 41>>,                                                    \* Sum(1)
           <<61, 65, 49, 43, 108, 101, 110, 40, 34, 120, 34, 41>>,                          \* =A1+len("x")
           <<120, 61, 102, 40, 49, 41, 59, 32, 103, 40, 50, 41>>,                           \* x=f(1); g(2)
           <<101, 118, 97, 108, 40, 40, 49, 43, 50, 41, 42, 51, 41>>,          \* eval((1+2)*3)   a bracketed sub-expression inside the call
           <<61, 65, 49, 43, 101, 120, 101, 99, 40, 40, 50, 41, 41>>,             \* =A1+exec((2))
           <<111, 115, 46, 115, 121, 115, 116, 101, 109, 40, 40, 34, 108, 115, 34, 41, 41>>,   \* os.system(("ls"))
           <<101, 118, 97, 108, 40, 10, 49, 41>>,                        \* eval( line break 1)   the argument list runs over a line break
           <<61, 65, 49, 43, 101, 120, 101, 99, 40, 10, 34, 120, 34, 41>>,  \* =A1+exec( line break "x")
           <<61, 101, 120, 101, 99, 40, 49, 41, 43, 49>>,                \* =exec(1)+1
           <<61, 76, 79, 71, 49, 48, 40, 49, 48, 48, 41>>,          \* =LOG10(100)   an Excel function whose name ends in a digit
           <<61, 83, 85, 77, 88, 50, 77, 89, 50, 40, 65, 49, 58, 65, 50, 44, 66, 49, 58, 66, 50, 41>>,   \* =SUMX2MY2(A1:A2,B1:B2)
           <<103, 101, 116, 88, 40, 49, 41>>,                      \* getX(1)   not an upper-case function: the name is getX
           <<111, 115, 46, 115, 121, 115, 116, 101, 109, 40, 34, 101, 99, 104, 111, 32, 37, 80, 65, 84, 72, 37, 34, 41>>,      \* os.system("echo %PATH%")   characters that mean something to a format string
           <<112, 114, 105, 110, 116, 40, 34, 37, 115, 34, 32, 37, 32, 110, 41>>,      \* print("%s" % n)   characters that mean something to a format string
           <<61, 101, 120, 101, 99, 40, 53, 48, 37, 41>>,      \* =exec(50%)   characters that mean something to a format string
           <<102, 40, 34, 123, 48, 125, 123, 120, 125, 34, 41>>,      \* f("{0}{x}")   characters that mean something to a format string
           <<103, 40, 34, 92, 110, 123, 34, 41>>,      \* g("\n{")   characters that mean something to a format string
           <<61, 67, 97, 108, 99, 50, 40, 49, 41>> >>                 \* =Calc2(1)
GCols == 1..4
GRows == 1..5
Places == {<<s, c, r>> : s \in 1..2, c \in GCols, r \in GRows}
Init == st = [ph |-> "root"]
Next == \/ /\ st.ph = "root" /\ Kind = "LAYOUT"
           /\ \E n \in 1..3, rot \in 0..(IF Thorough THEN 3 ELSE 2) : st' = [ph |-> "shard", n |-> n, rot |-> rot]
        \/ /\ st.ph = "shard"
           /\ \E A \in (IF st.n = 1 THEN CornerSets ELSE FewSets), B \in (IF st.n >= 2 THEN FewSets ELSE {{}}), ba \in SUBSET Beacons,
                 bb \in (IF st.n >= 2 THEN {{}, {<<4, 7>>}, {<<27, 1>>, <<1, 100>>}} ELSE {{}}) :
                /\ (Cardinality(ba) <= 1 \/ (Thorough /\ st.n = 1 /\ A \in FewSets))
                /\ (<<16384, 3>> \in ba => Cardinality(A) <= 2)
                /\ (Thorough \/ st.n = 1 \/ Cardinality(B) \in {0, 2, 9})
                /\ LET wb == <<[title |-> "First", cells |-> Mk(A \cup ba, st.rot)]>>
                             \o (IF st.n >= 2 THEN <<[title |-> "Second one", cells |-> Mk(B \cup bb, st.rot + 1)]>> ELSE <<>>)
                             \o (IF st.n = 3 THEN <<[title |-> "Z3", cells |-> Mk({<<2, 2>>}, st.rot + 2)]>> ELSE <<>>) IN
                   /\ st' = [ph |-> "case", wb |-> wb]
                   /\ PrintT(ToJson(Out(wb)))
        \/ /\ st.ph = "root" /\ Kind = "GATE"
           /\ \E f1 \in 1..Len(Frag) : st' = [ph |-> "gshard", f1 |-> f1]
        \/ /\ st.ph = "gshard"
           /\ \E p1 \in Places, f2 \in 0..Len(Frag), p2 \in Places :
                /\ (f2 = 0 => p2 = p1) /\ (f2 # 0 => p2 # p1)
                /\ ((p1[2] + p1[3] * 3 + p2[2] * 7 + p2[3] + st.f1 + f2) % (IF Thorough THEN 4 ELSE 40) = 0)
                /\ LET cells == <<[s |-> p1[1], c |-> p1[2], r |-> p1[3], t |-> Frag[st.f1], j |-> Judge(Frag[st.f1])]>>
                                \o (IF f2 = 0 THEN <<>> ELSE <<[s |-> p2[1], c |-> p2[2], r |-> p2[3], t |-> Frag[f2], j |-> Judge(Frag[f2])]>>) IN
                   /\ st' = [ph |-> "gcase", cells |-> cells]
                   /\ PrintT(ToJson([gate |-> cells]))
=============================================================================
