------------------------------- MODULE Gen_C02 -------------------------------
(* Direction A for C02: structured references over a grid of columns, rows, shapes,  *)
(* prefixes and $ markers; each printed as text and - as the law that ties printer   *)
(* and parser - parsed back (RoundTrip), with the coordinates it denotes.             *)
EXTENDS XlRefs, Json
CONSTANTS Kind, Thorough
NRows == <<5, 5, 5>>          \* used rows of each sheet in the whole-column workbook
VARIABLE st
\* Data, My  Sheet (two blanks), It's 2 (an apostrophe inside the title)
Titles == <<[t |-> <<68, 97, 116, 97>>, q |-> FALSE], [t |-> <<77, 121, 32, 32, 83, 104, 101, 101, 116>>, q |-> TRUE], [t |-> <<73, 116, 39, 115, 32, 50>>, q |-> TRUE]>>
TitleTexts == [i \in 1..3 |-> Titles[i].t]
ColsGrid == IF Thorough THEN {1, 2, 25, 26, 27, 28, 51, 52, 53, 78, 676, 677, 701, 702, 703, 704, 728, 1379, 16383, 16384} ELSE {1, 26, 27, 52, 53, 702, 703, 16384}
RowsGrid == IF Thorough THEN {1, 2, 9, 10, 11, 99, 100, 999, 1000, 12345, 99999} ELSE {1, 9, 10, 100, 12345}
Dollars == IF Thorough THEN [1..4 -> BOOLEAN] ELSE {<<FALSE, FALSE, FALSE, FALSE>>, <<TRUE, TRUE, TRUE, TRUE>>, <<TRUE, FALSE, FALSE, TRUE>>, <<FALSE, TRUE, TRUE, FALSE>>}
Shapes == {<<"cell", 0, 0>>, <<"area", 0, 2>>, <<"area", 2, 0>>, <<"area", 1, 2>>, <<"area", 2, 1>>}      \* <<shape, extra rows, extra cols>>
Mk(pre, c, r, sh, d) == LET c1 == IF c + sh[3] > 16384 THEN c - sh[3] ELSE c IN
                        [pre |-> pre, c1 |-> c1, r1 |-> r, c2 |-> c1 + sh[3], r2 |-> r + sh[2], shape |-> sh[1], d |-> d]
WMk(pre, c, w, d) == [pre |-> pre, c1 |-> c, r1 |-> 0, c2 |-> c + w, r2 |-> 0, shape |-> "wcol", d |-> d]
Strip(ref) == [pre |-> ref.pre, c1 |-> ref.c1, r1 |-> ref.r1, c2 |-> ref.c2, r2 |-> ref.r2, shape |-> ref.shape]
Parsed(ref, qa) == LET p == ParseRef(RefCodes(ref, Titles, qa), TitleTexts) IN
                   IF p.ok /\ ~p.unknown THEN [pre |-> p.pre, c1 |-> p.c1, r1 |-> p.r1, c2 |-> p.c2, r2 |-> p.r2, shape |-> p.shape] ELSE [pre |-> -1]
Out(ref, own, qa) == [text |-> RefCodes(ref, Titles, qa), own |-> own, shape |-> ref.shape, rows |-> Rows(ref, own, NRows), cols |-> ColsOf(ref),
                      den |-> Denote(ref, own, NRows)]
\* laws checked on every generated case
RoundTrip == st.ph = "case" => Parsed(st.ref, st.qa) = Strip(st.ref)
AreaCardinality == st.ph = "case" => LET d == Denote(st.ref, st.own, NRows) IN
                     /\ Len(d) = Rows(st.ref, st.own, NRows) * ColsOf(st.ref)
                     /\ \A i \in 1..(Len(d) - 1) : d[i][3] < d[i + 1][3] \/ (d[i][3] = d[i + 1][3] /\ d[i][2] < d[i + 1][2])      \* row-major, no repeats
                     /\ \A i \in 1..Len(d) : d[i][1] = SheetOf(st.ref, st.own)
Init == \E pre \in 0..3, own \in 1..3 : st = [ph |-> "shard", pre |-> pre, own |-> own]
Next == /\ st.ph = "shard"
        /\ \/ /\ Kind = "NEAR"
              /\ \E c \in ColsGrid, r \in RowsGrid, sh \in Shapes, d \in Dollars, qa \in BOOLEAN :
                   /\ (qa => st.pre = 1) /\ (sh[1] = "cell" => (d[3] = d[1] /\ d[4] = d[2]))
                   /\ ((c + r + st.pre) % 3 = st.own % 3 \/ Thorough)
                   /\ LET ref == Mk(st.pre, c, r, sh, d) IN
                      /\ st' = [ph |-> "case", ref |-> ref, own |-> st.own, qa |-> qa]
                      /\ PrintT(ToJson(Out(ref, st.own, qa)))
           \/ /\ Kind = "BEYOND"       \* areas that reach beyond the stored rows / columns of the sheet (5 used rows, 7 used columns)
              /\ \E c \in {1, 6, 7}, r \in {4, 5, 6}, er \in 0..2, ec \in 0..2, dd \in {<<FALSE, FALSE, FALSE, FALSE>>, <<TRUE, TRUE, TRUE, TRUE>>} :
                   LET ref == Mk(st.pre, c, r, <<"area", er, ec>>, dd) IN
                   /\ (er + ec > 0)
                   /\ st' = [ph |-> "case", ref |-> ref, own |-> st.own, qa |-> FALSE]
                   /\ PrintT(ToJson(Out(ref, st.own, FALSE)))
           \/ /\ Kind = "WCOL"
              /\ \E c \in {1, 2, 3}, w \in 0..2, dd \in {<<FALSE, FALSE>>, <<TRUE, TRUE>>, <<TRUE, FALSE>>} :
                   LET ref == WMk(st.pre, c, w, <<dd[1], FALSE, dd[2], FALSE>>) IN
                   /\ st' = [ph |-> "case", ref |-> ref, own |-> st.own, qa |-> FALSE]
                   /\ PrintT(ToJson(Out(ref, st.own, FALSE)))
=============================================================================
