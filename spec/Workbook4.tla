------------------------------ MODULE Workbook4 ------------------------------
(* The generator workbook of the Executor specifications (C04, C08) and its     *)
(* evaluation function.  Formulas are restricted to + * / over integers so that *)
(* the specification can compute "what a fresh translation of the edited        *)
(* workbook reports" itself:  Ev(c, ov) = value of cell c in (workbook (+) ov). *)
EXTENDS Integers, Sequences, FiniteSets

\* coordinates are names; Pos gives (sheet index, column, row), all 1-based here
Pos == [ S1A1 |-> <<1, 1, 1>>, S1B1 |-> <<1, 2, 1>>, S1C1 |-> <<1, 3, 1>>, S1D1 |-> <<1, 4, 1>>,
         S1A2 |-> <<1, 1, 2>>, S1B2 |-> <<1, 2, 2>>, S1C2 |-> <<1, 3, 2>>, S1D2 |-> <<1, 4, 2>>,
         S1E1 |-> <<1, 5, 1>>, S1F4 |-> <<1, 6, 4>>,
         S2A1 |-> <<2, 1, 1>>, S2B1 |-> <<2, 2, 1>>, S2C3 |-> <<2, 3, 3>>, S2D1 |-> <<2, 4, 1>> ]
AllCoords == DOMAIN Pos
Sheets == {1, 2}

K(v) == [op |-> "const", v |-> v]
Bin(o, a, b) == [op |-> o, a |-> a, b |-> b]
\* S1: A1=3  B1=5  C1=A1+B1  D1=C1*2 ; A2 blank  B2=8/A2 (fails while A2 is blank)  C2=B2+1  D2=A2+1
\*     E1=F4+S2!C3 reads two cells that lie beyond the used ranges (blank until they are overridden)
\* S2: A1=S1!A1*5  B1=10  D1=SUM(C:C) - a WHOLE column: every cell of column C, also rows that exist only because of an override ;
\*     S1!F4 and S2!C3 lie beyond the used range
WB == [ S1A1 |-> K(3), S1B1 |-> K(5), S1C1 |-> Bin("add", "S1A1", "S1B1"), S1D1 |-> Bin("mulk", "S1C1", 2),
        S1B2 |-> Bin("kdiv", 8, "S1A2"), S1C2 |-> Bin("addk", "S1B2", 1), S1D2 |-> Bin("addk", "S1A2", 1),
        S1E1 |-> Bin("add", "S1F4", "S2C3"),
        S2A1 |-> Bin("mulk", "S1A1", 5), S2B1 |-> K(10), S2D1 |-> [op |-> "wcol", s |-> 2, col |-> 3] ]
UsedSize == [s \in Sheets |-> IF s = 1 THEN [rows |-> 2, cols |-> 5] ELSE [rows |-> 1, cols |-> 4]]

\* values: [k |-> "num", n] | [k |-> "blank"] | [k |-> "err"] | [k |-> "other"]
Num(n) == [k |-> "num", n |-> n]
Blank == [k |-> "blank"]
Err == [k |-> "err"]
Other == [k |-> "other"]
Bool(b) == [k |-> "bool", b |-> b]
AsInt(v) == IF v.k = "blank" THEN 0 ELSE IF v.k = "bool" THEN (IF v.b THEN 1 ELSE 0) ELSE v.n
\* the value a client writes: an integer, or a truth value (written 1001 / 1000 in the constants of a model, since a TLC set cannot
\* mix integers and booleans).  TRUE and 1 are DIFFERENT cell contents: the cell reports what was written, type included.
\* 999 stands for "no content" (the client writes None): the cell is blank from then on, as in a workbook where it was cleared
OvVal(n) == IF n = 1001 THEN Bool(TRUE) ELSE IF n = 1000 THEN Bool(FALSE) ELSE IF n = 999 THEN Blank ELSE Num(n)

Arith(o, x, y) ==
  IF x.k = "err" \/ y.k = "err" THEN Err
  ELSE IF x.k = "other" \/ y.k = "other" THEN Other
  ELSE LET a == AsInt(x) b == AsInt(y) IN
       CASE o = "add" -> Num(a + b)
         [] o = "mul" -> Num(a * b)
         [] o = "div" -> IF b = 0 THEN Err ELSE IF a % b = 0 THEN Num(a \div b) ELSE Other

RECURSIVE Ev(_, _), SumOf(_, _)
\* sum of the cells of a set (numbers; blanks count 0): the whole-column fold
SumOf(S, ov) == IF S = {} THEN Num(0) ELSE LET x == CHOOSE y \in S : TRUE IN Arith("add", Ev(x, ov), SumOf(S \ {x}, ov))
\* ov: function from a subset of AllCoords to integers (the overrides in force)
Ev(c, ov) ==
  IF c \in DOMAIN ov THEN OvVal(ov[c])                       \* an overridden cell IS its constant
  ELSE IF c \notin DOMAIN WB THEN Blank
  ELSE LET f == WB[c] IN
       CASE f.op = "const" -> Num(f.v)
         [] f.op = "add"   -> Arith("add", Ev(f.a, ov), Ev(f.b, ov))
         [] f.op = "addk"  -> Arith("add", Ev(f.a, ov), Num(f.b))
         [] f.op = "mulk"  -> Arith("mul", Ev(f.a, ov), Num(f.b))
         [] f.op = "kdiv"  -> Arith("div", Num(f.a), Ev(f.b, ov))
         [] f.op = "wcol"  -> SumOf({x \in AllCoords : Pos[x][1] = f.s /\ Pos[x][2] = f.col}, ov)

\* sizes reported for a sheet: used range extended by the overrides
MaxOf(S, d) == IF S = {} THEN d ELSE LET m == CHOOSE x \in S : \A y \in S : y <= x IN IF m > d THEN m ELSE d
\* D: the set of coordinates that extend the used range (the coordinates of the overrides in force)
SizeOfDom(s, D) == [rows |-> MaxOf({Pos[c][3] : c \in {x \in D : Pos[x][1] = s}}, UsedSize[s].rows),
                    cols |-> MaxOf({Pos[c][2] : c \in {x \in D : Pos[x][1] = s}}, UsedSize[s].cols)]
SizeOf(s, ov) == SizeOfDom(s, DOMAIN ov)
CoordAt(s, col, row) == IF \E c \in AllCoords : Pos[c] = <<s, col, row>>
                        THEN CHOOSE c \in AllCoords : Pos[c] = <<s, col, row>> ELSE "none"
EvAt(s, col, row, ov) == LET c == CoordAt(s, col, row) IN IF c = "none" THEN Blank ELSE Ev(c, ov)
Grid(s, ov) == LET z == SizeOf(s, ov) IN [r \in 1..z.rows |-> [c \in 1..z.cols |-> EvAt(s, c, r, ov)]]

\* apply a batch (sequence of <<coord, value>>) left to right
RECURSIVE Apply(_, _)
Apply(ov, batch) ==
  IF batch = <<>> THEN ov
  ELSE LET w == Head(batch)
           ov1 == [c \in (DOMAIN ov) \cup {w[1]} |-> IF c = w[1] THEN w[2] ELSE ov[c]]
       IN Apply(ov1, Tail(batch))
EmptyOv == [c \in {} |-> 0]
=============================================================================
