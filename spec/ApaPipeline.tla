---------------------------- MODULE ApaPipeline ----------------------------
(* The version bookkeeping of the pipeline specification (E2PW) on its own, typed  *)
(* for Apalache: which version of the workbook the cached text, the class file and  *)
(* every executor stem from.  IndInv is INDUCTIVE (checked by Apalache for steps of *)
(* any history, not only the bounded ones TLC explores):                            *)
(*   - whatever exists was translated from a version that was once under the path,  *)
(*   - a class file exists only if a text does, an executor only if a text does,    *)
(*   - while the Parser has no reason to read the file again, its text is a version *)
(*     that really existed (never "none").                                          *)
EXTENDS Integers

CONSTANT
    \* @type: Set(Int);
    Execs

VARIABLES
    \* @type: Int;
    file,
    \* @type: Bool;
    dirty,
    \* @type: Int;
    text,
    \* @type: Int;
    written,
    \* @type: Int -> Int;
    wv,
    \* @type: Set(Int);
    seen

Versions == {1, 2}

Init == /\ file = 1 /\ dirty = TRUE /\ text = 0 /\ written = 0
        /\ wv = [x \in Execs |-> 0] /\ seen = {1}

Replace(v) == /\ file' = v /\ seen' = seen \union {v} /\ UNCHANGED <<dirty, text, written, wv>>
Announce == /\ dirty' = TRUE /\ UNCHANGED <<file, text, written, wv, seen>>
Current == IF dirty THEN file ELSE text
GetText == /\ text' = Current /\ dirty' = FALSE /\ UNCHANGED <<file, written, wv, seen>>
WriteFile == /\ text' = Current /\ dirty' = FALSE /\ written' = Current /\ UNCHANGED <<file, wv, seen>>
NewFromFile(x) == /\ wv[x] = 0 /\ written # 0 /\ wv' = [wv EXCEPT ![x] = written] /\ UNCHANGED <<file, dirty, text, written, seen>>
NewFromText(x) == /\ wv[x] = 0 /\ text # 0 /\ wv' = [wv EXCEPT ![x] = text] /\ UNCHANGED <<file, dirty, text, written, seen>>
Drop(x) == /\ wv[x] # 0 /\ wv' = [wv EXCEPT ![x] = 0] /\ UNCHANGED <<file, dirty, text, written, seen>>

Next == \/ \E v \in Versions : Replace(v)
        \/ Announce \/ GetText \/ WriteFile
        \/ \E x \in Execs : NewFromFile(x) \/ NewFromText(x) \/ Drop(x)

TypeOK == /\ file \in Versions /\ dirty \in BOOLEAN /\ text \in {0} \union Versions /\ written \in {0} \union Versions
          /\ wv \in [Execs -> {0} \union Versions] /\ seen \in SUBSET Versions

IndInv == /\ TypeOK
          /\ file \in seen
          /\ (text # 0 => text \in seen)
          /\ (written # 0 => (written \in seen /\ text # 0))
          /\ (\A x \in Execs : wv[x] # 0 => (wv[x] \in seen /\ text # 0))
          /\ (~dirty => text # 0)

\* what the inductive invariant is for: nothing stems from a version that never existed
Safety == /\ (\A x \in Execs : wv[x] # 0 => wv[x] \in seen) /\ (written # 0 => written \in seen)
=============================================================================
