------------------------------ MODULE Trace_C17 ------------------------------
(* Direction B for C17: events {f, t, p, a (integer arguments), obs} recorded from    *)
(* the real code on random longer texts are recomputed by the specification.           *)
(* obs: [k |-> "text", c] | [k |-> "num", n] | [k |-> "err"] | [k |-> "blank"] | [k |-> "other"] *)
EXTENDS XlText, Json, IOUtils
VARIABLE l
Log == JsonDeserialize(IOEnv.TRACE_FILE).events
Ideal(e) == CASE e.f = "LEFT" -> Left(e.t, e.a[1]) [] e.f = "RIGHT" -> Right(e.t, e.a[1]) [] e.f = "MID" -> Mid(e.t, e.a[1], e.a[2])
              [] e.f = "SEARCH" -> Search(e.p, e.t, e.a[1])
              [] e.f = "REBUILD" -> IF 0 <= e.a[1] /\ e.a[1] < Len(e.t) THEN T(e.t) ELSE Oos
\* a text function may deliver the empty text as a blank (the library's blank equals "")
Same(r, o) == CASE r.k = "text" -> (o.k = "text" /\ o.c = r.c) \/ (r.c = <<>> /\ o.k = "blank")
                [] r.k = "num" -> o.k = "num" /\ o.n = r.n
                [] r.k = "err" -> o.k = "err"
                [] OTHER -> TRUE
Init == l = 1
Step == /\ l <= Len(Log)
        /\ LET e == Log[l] r == Ideal(e) IN IF Same(r, e.obs) THEN TRUE ELSE PrintT(<<"V", l, r>>)
        /\ l' = l + 1
        /\ (l' = Len(Log) + 1) => PrintT(<<"DONE", l'>>)
Spec == Init /\ [][Step]_l
=============================================================================
