------------------------------ MODULE Trace_C16B ------------------------------
(* Direction B for C16 on LONG decimals (10..15 significant digits): events           *)
(* {f, neg, d, s, n, oneg, od, os} recorded from the real code; [oneg, od, os] is the  *)
(* observed result as an exact decimal in canonical digit form (os = -1: not a finite  *)
(* decimal).  Judged by the digit-level operators of XlRoundingBig.                    *)
EXTENDS XlRoundingBig, Json, IOUtils
VARIABLE l
Log == JsonDeserialize(IOEnv.TRACE_FILE).events

\* the digit-level formulation agrees with XlRounding's quantum arithmetic wherever both apply
R == INSTANCE XlRounding
RECURSIVE DigitsOf(_)
DigitsOf(m) == IF m = 0 THEN <<>> ELSE DigitsOf(m \div 10) \o <<m % 10>>
RECURSIVE ValOf(_)
ValOf(d) == IF d = <<>> THEN 0 ELSE 10 * ValOf(SubSeq(d, 1, Len(d) - 1)) + d[Len(d)]
AsPair(c) == <<(IF c.neg THEN -1 ELSE 1) * ValOf(c.d), c.s>>
AgreeSmall == \A f \in {"ROUND", "ROUNDUP", "ROUNDDOWN", "PCT"}, s \in 0..3, n \in -2..3 :
                \A m \in {-1995, -1250, -1005, -999, -450, -55, -5, -1, 0, 1, 4, 5, 15, 25, 49, 50, 95, 149, 150, 995, 999, 1005, 1234, 1250, 1995} :
                   AsPair(ApplyBig(f, m < 0, DigitsOf(R!Abs(m)), s, n)) = R!Apply(f, m, s, n)
ASSUME AgreeSmall

Verdict(e) == LET r == ApplyBig(e.f, e.neg, e.d, e.s, e.n) IN
  IF e.os >= 0 /\ [neg |-> e.oneg, d |-> e.od, s |-> e.os] = r THEN "" ELSE "DIFFERS"
Init == l = 1
Step == /\ l <= Len(Log)
        /\ LET v == Verdict(Log[l]) IN IF v = "" THEN TRUE ELSE PrintT(<<"V", l, v>>)
        /\ l' = l + 1
        /\ (l' = Len(Log) + 1) => PrintT(<<"DONE", l'>>)
Spec == Init /\ [][Step]_l
=============================================================================
