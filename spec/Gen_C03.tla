------------------------------ MODULE Gen_C03 ------------------------------
(* Direction A for C03: every dependency graph on Nodes x every entry node.  The *)
(* state carries the ideal outcome: the slice (closure) the generated class must *)
(* contain, or "cyclic" = must be rejected with the library's parser exception.  *)
EXTENDS Naturals, Sequences, FiniteSets, TLC, Json
CONSTANTS Nodes
VARIABLES g, e

T == INSTANCE Translator WITH Variant <- "fixed", DepthCap <- 99, deps <- g, entry <- e,
                              stack <- <<>>, todo <- <<>>, ctx <- {}, status <- "run"

SetToSortedSeq(S) == LET RECURSIVE F(_, _)
                         F(R, k) == IF k > Cardinality(Nodes) THEN <<>> ELSE (IF k \in R THEN <<k>> ELSE <<>>) \o F(R, k + 1)
                     IN F(S, 1)
Init == /\ g \in [Nodes -> SUBSET Nodes] /\ e \in Nodes
        /\ PrintT(ToJson([deps |-> [n \in Nodes |-> SetToSortedSeq(g[n])], entry |-> e,
                          cyclic |-> T!CyclicFrom(g, e),
                          anycycle |-> \E n \in Nodes : T!CyclicFrom(g, n),
                          slice |-> SetToSortedSeq(T!Closure(g, e))]))
Next == UNCHANGED <<g, e>>
\* law of the oracle itself: the slice is closed under deps and contains the entry
SliceClosed == e \in T!Closure(g, e) /\ \A n \in T!Closure(g, e) : g[n] \subseteq T!Closure(g, e)
SliceMinimal == \A n \in T!Closure(g, e) : n = e \/ \E m \in T!Closure(g, e) : n \in g[m]
=============================================================================
