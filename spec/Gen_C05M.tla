------------------------------- MODULE Gen_C05M -------------------------------
(* Direction A for C05/C06, part 2: (a) single-token mutations of valid seed      *)
(* formulas - every insertion, deletion, duplication and neighbour swap at every  *)
(* position; (b) the arity sweep - every function keyword with 0..MaxArgs         *)
(* arguments of several kinds.  Each state carries the grammar's verdict.         *)
EXTENDS ImplGrammar, Json
CONSTANTS Seeds, Alpha, Keywords, MaxArgs, Mode
VARIABLES toks, res

E == "EqOperatorToken"
Ins(s, p, k) == SubSeq(s, 1, p) \o <<k>> \o SubSeq(s, p + 1, Len(s))
Del(s, p) == SubSeq(s, 1, p - 1) \o SubSeq(s, p + 1, Len(s))
Swap(s, p) == SubSeq(s, 1, p - 1) \o <<s[p + 1], s[p]>> \o SubSeq(s, p + 2, Len(s))
\* mutants of seed s at position p (p = 0: insertions before the first token, and the seed itself)
MutantsAt(s, p) == {Ins(s, p, k) : k \in Alpha}
                   \cup (IF p = 0 THEN {s} ELSE {Del(s, p), Ins(s, p, s[p])})
                   \cup (IF p >= 1 /\ p < Len(s) THEN {Swap(s, p)} ELSE {})

\* an argument is a token sequence: a literal, a cell, an area - or an EXPRESSION over them (cell + literal, literal %, a nested call):
\* a function may not classify an argument by its first operand and lose the rest
ArgKinds == { <<"LiteralToken">>, <<"CellIdentifierToken">>, <<"MatrixOfCellIdentifiersToken">>,
              <<"CellIdentifierToken", "PlusOperatorToken", "LiteralToken">>, <<"LiteralToken", "PercentToken">>,
              <<"LiteralToken", "AmpersandToken", "LiteralToken">>,       \* a text assembled from two literals (also as a criterion)
              <<"SumKeywordToken", "BracketStartToken", "LiteralToken", "SeparatorToken", "LiteralToken", "BracketFinishToken">> }
\* n arguments: pattern "uni" = all of kind a; "mfirst" = a matrix first, then kind a; "msecond" = kind a, a matrix, then kind a
ArgList(n, a, pat) ==
  LET kind(i) == IF pat = "mfirst" /\ i = 1 THEN <<"MatrixOfCellIdentifiersToken">>
                 ELSE IF pat = "msecond" /\ i = 2 THEN <<"MatrixOfCellIdentifiersToken">> ELSE a
      RECURSIVE F(_)
      F(i) == IF i > n THEN <<>> ELSE (IF i > 1 THEN <<"SeparatorToken">> ELSE <<>>) \o kind(i) \o F(i + 1)
  IN F(1)
CallsOf(k) == UNION { {<<k, "BracketStartToken">> \o ArgList(n, a, pat) \o <<"BracketFinishToken">> :
                          n \in 0..(IF Len(a) > 1 /\ MaxArgs > 3 THEN 3 ELSE MaxArgs), pat \in {"uni", "mfirst", "msecond"}} : a \in ArgKinds }

\* (c) bracket groups: an operand, a bracketed group, two groups joined by an operator or by a separator inside one pair of brackets -
\* two levels deep, and wrapped once more - as a whole formula, as the right operand of a product, and as the argument list of a call.
\* Which pair of brackets closes which, and what a pair encloses, decides whether the text is a formula of the grammar at all
\* ( ((1),(2)) is an argument list only for functions that take bracketed lists ) - and, for the accepted ones, what they mean.
LPt == "BracketStartToken"  RPt == "BracketFinishToken"
G0 == {<<"LiteralToken">>, <<"CellIdentifierToken">>}
Join(A) == {<<LPt>> \o a \o <<RPt>> : a \in A}
           \cup {<<LPt>> \o a \o <<o>> \o b \o <<RPt>> : a \in A, b \in A, o \in {"PlusOperatorToken", "SeparatorToken"}}
G1 == G0 \cup Join(G0)
G2 == G1 \cup Join(G1)
Groups == G2 \cup {<<LPt>> \o a \o <<RPt>> : a \in G2}
GroupContexts == {"bare", "product", "SumKeywordToken", "LeftKeywordToken", "RoundKeywordToken", "MaxKeywordToken", "IfKeywordToken"}
InContext(ctx, g) == IF ctx = "bare" THEN g
                     ELSE IF ctx = "product" THEN <<"LiteralToken", "MultiplicationOperatorToken">> \o g
                     ELSE <<ctx>> \o g
\* shards are the initial states (processed by different TLC workers); the cases of a shard are its successors
Shards == IF Mode = "mut" THEN {<<s, p>> : s \in Seeds, p \in 0..12}
          ELSE IF Mode = "groups" THEN {<<ctx, i>> : ctx \in (IF MaxArgs > 1 THEN GroupContexts ELSE {"bare", "product", "SumKeywordToken", "LeftKeywordToken"}), i \in 0..3}
          ELSE {<<k, 0>> : k \in Keywords}
CasesOf(sh) == IF Mode = "mut" THEN (IF sh[2] <= Len(sh[1]) THEN MutantsAt(sh[1], sh[2]) ELSE {})
               ELSE IF Mode = "groups" THEN {InContext(sh[1], g) : g \in {x \in Groups : (Len(x) \div 2) % 4 = sh[2]}}
               ELSE CallsOf(sh[1])
Nil == [acc |-> FALSE, raw |-> "nil"]

Init == /\ \E sh \in Shards : toks = <<"shard", sh>>
        /\ res = Nil
Next == /\ res = Nil /\ toks[1] = "shard"
        /\ \E c \in CasesOf(toks[2]) :
              /\ toks' = <<E>> \o c
              \* (the code-shaped interpretation Raw is exponential in the bracket depth, like the code: the groups carry the CFG verdict only)
              /\ res' = LET a == Accept(toks') IN [acc |-> a, raw |-> IF Mode = "groups" THEN (IF a THEN "whole" ELSE "exc") ELSE Raw(toks')]
              /\ PrintT(ToJson([t |-> c, acc |-> res'.acc, raw |-> res'.raw]))
InvWholeImpliesCFG == res.raw = "whole" => res.acc
=============================================================================
