------------------------------ MODULE XlCriteria ------------------------------
(* C12: criteria of SUMIF / SUMIFS / COUNTIFS / AVERAGEIFS.                          *)
(* Cell contents:  [k |-> "num", q] (quarter units), [k |-> "text", c] (codes), [k |-> "blank"], *)
(*                 [k |-> "bool", b] (a truth value: NOT a number for a criterion)               *)
(* Criterion (semantic content):  [op, operand] with op in EQ NE GT GE LT LE and      *)
(* operand a number [k |-> "num", q] or a text [k |-> "text", c] (which may contain    *)
(* the wildcards ? * ~).  How it is spelled in the formula (plain value, "op value"     *)
(* literal, op & cell, a cell holding the criterion text, pattern literal) does not    *)
(* change what it accepts.                                                              *)
(* Accepts returns TRUE / FALSE, or "oos" where Excel's table is not pinned by the      *)
(* statement (ordering against a text operand, wildcards against blanks).               *)
EXTENDS XlText
Ordering == {"GT", "GE", "LT", "LE"}
HasWildcard(c) == \E i \in 1..Len(c) : c[i] \in {QM, STAR}
\* whole-cell wildcard match, case-insensitive
RECURSIVE MatchWhole(_, _, _, _)
MatchWhole(p, i, t, j) ==
  IF i > Len(p) THEN j = Len(t) + 1
  ELSE IF p[i] = TILDE /\ i < Len(p) /\ p[i + 1] \in {QM, STAR, TILDE}
       THEN j <= Len(t) /\ t[j] = p[i + 1] /\ MatchWhole(p, i + 2, t, j + 1)
  ELSE IF p[i] = QM THEN j <= Len(t) /\ MatchWhole(p, i + 1, t, j + 1)
  ELSE IF p[i] = STAR THEN \E e \in j..(Len(t) + 1) : MatchWhole(p, i + 1, t, e)
  ELSE j <= Len(t) /\ Lower(t[j]) = Lower(p[i]) /\ MatchWhole(p, i + 1, t, j + 1)
NumCmp(op, x, y) == CASE op = "EQ" -> x = y [] op = "NE" -> x # y [] op = "GT" -> x > y [] op = "GE" -> x >= y [] op = "LT" -> x < y [] op = "LE" -> x <= y
TextEq(pat, t) == MatchWhole(pat, 1, t, 1)
YN(b) == IF b THEN "yes" ELSE "no"
\* a criterion text TRUE / FALSE (any case) denotes the truth value; it accepts exactly the cells holding that truth value
LowerSeq(c) == [i \in 1..Len(c) |-> Lower(c[i])]
BoolWord(c) == IF LowerSeq(c) = <<116, 114, 117, 101>> THEN "T" ELSE IF LowerSeq(c) = <<102, 97, 108, 115, 101>> THEN "F" ELSE "-"
\* "yes" / "no" / "oos"
Accepts(crit, cell) ==
  IF crit.operand.k = "num" THEN
       IF crit.op = "NE" THEN YN(~(cell.k = "num" /\ cell.q = crit.operand.q))
       ELSE YN(cell.k = "num" /\ NumCmp(crit.op, cell.q, crit.operand.q))
  ELSE \* text operand
       IF crit.op \in Ordering THEN "oos"
       ELSE IF BoolWord(crit.operand.c) # "-" THEN
            IF cell.k = "text" THEN "oos"
            ELSE LET hitb == cell.k = "bool" /\ cell.b = (BoolWord(crit.operand.c) = "T") IN IF crit.op = "EQ" THEN YN(hitb) ELSE YN(~hitb)
       ELSE IF ~TildesOk(crit.operand.c, 1) THEN "oos"
       ELSE IF cell.k = "blank" /\ (HasWildcard(crit.operand.c) \/ crit.operand.c = <<>>) THEN "oos"
       ELSE LET hit == cell.k = "text" /\ TextEq(crit.operand.c, cell.c) IN IF crit.op = "EQ" THEN YN(hit) ELSE YN(~hit)
\* selection over aligned columns: cols = <<column_1, ...>>, crits = <<crit_1, ...>>, all of length n; <<"oos">> when not pinned
Sel(cols, crits, n) ==
  IF \E p \in 1..Len(cols), i \in 1..n : Accepts(crits[p], cols[p][i]) = "oos" THEN {-1}
  ELSE {i \in 1..n : \A p \in 1..Len(cols) : Accepts(crits[p], cols[p][i]) = "yes"}
\* ---- Guards of the open findings (known_findings.txt); sp is the spelling of the criterion in the formula ----
HasKind(col, kd) == \E i \in 1..Len(col) : col[i].k = kd
ActiveWildcard(c) == \E i \in 1..Len(c) : c[i] \in {QM, STAR} /\ (i = 1 \/ c[i - 1] # TILDE)
IsPattern(c) == \E i \in 1..Len(c) : c[i] \in {QM, STAR, TILDE}
\* root causes of the open findings (known_findings.txt)
Guards(col, crit, sp) ==
     \* F1: an operator prefix is recognised only in a literal of the form "<op><number>" (and op & cell); a criterion text that
     \*     arrives any other way ("=5", "=x", "<>x", a cell holding ">5", a cell holding a wildcard pattern) is compared as plain text
     (IF sp \in {"eqlit", "cellcrit"} THEN {"C12-F1"} ELSE {})
     \cup (IF sp = "valuecell" /\ crit.operand.k = "text" /\ IsPattern(crit.operand.c) THEN {"C12-F1"} ELSE {})
     \cup (IF crit.op = "NE" /\ crit.operand.k = "text" THEN {"C12-F1"} ELSE {})
     \* ... and a literal whose only wildcard characters are ~-escaped is not seen as a pattern at all (the ~ stays in the text)
     \cup (IF crit.operand.k = "text" /\ IsPattern(crit.operand.c) /\ ~ActiveWildcard(crit.operand.c) THEN {"C12-F1"} ELSE {})
     \* F2: a numeric ordering criterion applied to a text cell raises TypeError instead of rejecting the cell
     \cup (IF crit.operand.k = "num" /\ crit.op \in Ordering /\ HasKind(col, "text") THEN {"C12-F2"} ELSE {})
     \* F3: a blank cell of a criteria range is treated as the number 0
     \cup (IF crit.operand.k = "num" /\ HasKind(col, "blank") /\ YN(NumCmp(crit.op, 0, crit.operand.q)) # Accepts(crit, [k |-> "blank"]) THEN {"C12-F3"} ELSE {})
     \* F4: a truth value in a criteria range is compared as the number 1 / 0 by a numeric criterion
     \cup (IF crit.operand.k = "num" /\ \E i \in 1..Len(col) : col[i].k = "bool" /\ YN(NumCmp(crit.op, IF col[i].b THEN 4 ELSE 0, crit.operand.q)) # Accepts(crit, col[i])
           THEN {"C12-F4"} ELSE {})
\* ... and SUMIF / SUMIFS / AVERAGEIFS turn the truth values of a criteria range into 1 / 0 BEFORE the criterion is applied, so the criterion TRUE / FALSE
\* accepts none of them there (COUNTIFS does not cast: the guard holds for the summing functions only)
GuardsSum(col, crit, sp) ==
     IF crit.operand.k = "text" /\ BoolWord(crit.operand.c) # "-" /\ crit.op = "EQ" /\ \E i \in 1..Len(col) : col[i].k = "bool" /\ Accepts(crit, col[i]) = "yes"
     THEN {"C12-F4"} ELSE {}
\* ---- deviation model of the open findings: what the EMITTED criterion callable answers ("yes" / "no" / "raise") ----
\* Every function reads a blank of a criteria range as the number 0; SUMIFS / AVERAGEIFS (cast = TRUE) also turn truth values into
\* 1 / 0 before the criterion is applied, the others compare a truth value like Python does (TRUE == 1, str(TRUE) = "True").
\* A criterion is classified when the formula is translated: only a literal "<op><number>", op & cell, a plain value and a literal
\* with an active wildcard get their meaning; every other text is compared as it stands, case-insensitively.
IsNumLike(cell) == cell.k \in {"num", "blank", "bool"}
AsQ(cell) == IF cell.k = "num" THEN cell.q ELSE IF cell.k = "bool" /\ cell.b THEN 4 ELSE 0
PlainEq(cell, t, cast) == \/ cell.k = "text" /\ LowerSeq(cell.c) = LowerSeq(t)
                          \/ cell.k = "bool" /\ ~cast /\ LowerSeq(t) = (IF cell.b THEN <<116, 114, 117, 101>> ELSE <<102, 97, 108, 115, 101>>)
ImplAccepts(crit, cell, sp, cast) ==
  LET o == crit.operand IN
  IF o.k = "num" THEN
       IF sp \in {"value", "valuecell"} THEN YN(IsNumLike(cell) /\ AsQ(cell) = o.q)
       ELSE IF sp \in {"oplit", "opcat"} THEN
            IF IsNumLike(cell) THEN YN(NumCmp(crit.op, AsQ(cell), o.q))
            ELSE IF crit.op = "NE" THEN "yes" ELSE IF crit.op = "EQ" THEN "no" ELSE "raise"
       ELSE "no"                                  \* "=5", a cell holding ">5": compared as the text it is
  ELSE IF sp = "value" /\ crit.op = "EQ" THEN
            IF ActiveWildcard(o.c) THEN YN(cell.k = "text" /\ TextEq(o.c, cell.c))
            ELSE YN(PlainEq(cell, o.c, cast))
       ELSE IF sp = "valuecell" /\ crit.op = "EQ" THEN YN(PlainEq(cell, o.c, cast))
       ELSE "no"                                  \* "=x", "<>x", a cell holding them
ImplVerdicts(col, crit, sp, cast) == [i \in 1..Len(col) |-> ImplAccepts(crit, col[i], sp, cast)]
RECURSIVE SumOver(_, _)
SumOver(S, tq) == IF S = {} THEN 0 ELSE LET i == CHOOSE x \in S : TRUE IN (IF tq[i].k = "num" THEN tq[i].q ELSE 0) + SumOver(S \ {i}, tq)
=============================================================================
