------------------------------ MODULE XlCalendar ------------------------------
(* C15: the proleptic Gregorian calendar in integer arithmetic.                     *)
(* A date is its serial number: days since 1899-12-30 (so 1900-03-01 = 61,          *)
(* 2024-01-01 = 45292), the convention of the abstraction function.                  *)
EXTENDS Integers, Sequences, FiniteSets, TLC

IsLeap(y) == (y % 4 = 0 /\ y % 100 # 0) \/ y % 400 = 0
DaysInMonth(y, m) == IF m \in {1, 3, 5, 7, 8, 10, 12} THEN 31 ELSE IF m \in {4, 6, 9, 11} THEN 30 ELSE IF IsLeap(y) THEN 29 ELSE 28
Min(a, b) == IF a < b THEN a ELSE b
\* days-from-civil / civil-from-days (era arithmetic), shifted so that 1899-12-30 |-> 0
Serial(y0, m, d) ==
  LET y == IF m <= 2 THEN y0 - 1 ELSE y0
      era == y \div 400
      yoe == y - era * 400
      mp == (m + 9) % 12
      doy == (153 * mp + 2) \div 5 + d - 1
      doe == yoe * 365 + yoe \div 4 - yoe \div 100 + doy
  IN era * 146097 + doe - 719468 + 25569
Civil(s) ==
  LET z == s - 25569 + 719468
      era == z \div 146097
      doe == z - era * 146097
      yoe == (doe - doe \div 1460 + doe \div 36524 - doe \div 146096) \div 365
      doy == doe - (365 * yoe + yoe \div 4 - yoe \div 100)
      mp == (5 * doy + 2) \div 153
      d == doy - (153 * mp + 2) \div 5 + 1
      m == IF mp < 10 THEN mp + 3 ELSE mp - 9
  IN [y |-> yoe + era * 400 + (IF m <= 2 THEN 1 ELSE 0), m |-> m, d |-> d]
\* 0 = Saturday, 1 = Sunday, 2 = Monday ... 6 = Friday   (1899-12-30 was a Saturday)
Weekday(s) == s % 7
IsWorkday(s) == Weekday(s) \notin {0, 1}

\* DATE(y, m, d) = 1 January of year y + (m-1) months + (d-1) days
DateNorm(y, m, d) == LET t == m - 1 IN Serial(y + t \div 12, (t % 12) + 1, 1) + d - 1
\* EDATE / EOMONTH
ShiftMonth(s, k, toEnd) ==
  LET c == Civil(s)  t == c.m - 1 + k  yy == c.y + t \div 12  mm == (t % 12) + 1  dim == DaysInMonth(yy, mm)
  IN Serial(yy, mm, IF toEnd THEN dim ELSE Min(c.d, dim))
EDate(s, k) == ShiftMonth(s, k, FALSE)
EoMonth(s, k) == ShiftMonth(s, k, TRUE)
\* DATEDIF for s1 <= s2
Months(s1, s2) == LET a == Civil(s1) b == Civil(s2) IN 12 * (b.y - a.y) + (b.m - a.m) - (IF b.d < a.d THEN 1 ELSE 0)
\* a month is complete when the day of the month of the start date has been reached again (Excel's DATEDIF: Jan 31 -> Feb 28
\* is 0 complete months, Feb 29 2020 -> Feb 28 2021 is 0 complete years).  ClampedEnd marks the pairs where a clamping
\* "anniversary" reading (EDATE(start, k) <= end) would count one more; it is used by the laws only.
AmbiguousMonths(s1, s2) == LET a == Civil(s1) b == Civil(s2) IN b.d < a.d /\ b.d = DaysInMonth(b.y, b.m)
DateDif(u, s1, s2) == CASE u = "D" -> s2 - s1 [] u = "M" -> Months(s1, s2) [] u = "Y" -> Months(s1, s2) \div 12 [] u = "YM" -> Months(s1, s2) % 12
\* NETWORKDAYS with a set of holiday serials
WorkBetween(a, b, H) == Cardinality({d \in a..b : IsWorkday(d) /\ d \notin H})
NetworkDays(s1, s2, H) == IF s1 <= s2 THEN WorkBetween(s1, s2, H) ELSE -WorkBetween(s2, s1, H)
=============================================================================
