------------------------------ MODULE Trace_C05 ------------------------------
(* Direction B for C05/C06: events {toks (classes produced by the real Lexer for  *)
(* a generated text), outcome} recorded from real translations are judged by the  *)
(* grammar: a sequence the supported grammar does not derive as a whole must have *)
(* been rejected with the library's parser exception; no outcome may be foreign.  *)
EXTENDS ImplGrammar, Json, IOUtils
VARIABLES l
Log == JsonDeserialize(IOEnv.TRACE_FILE).events
Verdict(ev) ==
  IF ev.outcome \in {"foreign", "syntax", "timeout"} THEN "outcome class " \o ev.outcome \o " (neither a loadable class nor a library exception)"
  ELSE IF ~Accept(ev.toks) /\ ev.outcome # "lib" THEN "the grammar does not derive the whole token sequence, but it was not rejected"
  ELSE ""
Init == l = 1
Step == /\ l <= Len(Log)
        /\ LET v == Verdict(Log[l]) IN IF v = "" THEN TRUE ELSE PrintT(<<"REJECT", l, 0, v>>)
        /\ l' = l + 1
        /\ (l' = Len(Log) + 1) => PrintT(<<"DONE", l'>>)
Spec == Init /\ [][Step]_l
=============================================================================
