---- MODULE MC_E2PWImpl ----
EXTENDS E2PWImpl
====
