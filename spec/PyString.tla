------------------------------ MODULE PyString ------------------------------
(* C07: workbook text may reach the generated module only as inert string data.    *)
(* This module states the obligation every emitter of Python text must meet, on a  *)
(* model of Python's short string literal: Quote(s) is the ideal emitter; Unquote   *)
(* is the lexer (backslash escapes, closing quote, raw newline = error).            *)
(* Texts are sequences of character codes.                                           *)
EXTENDS Integers, Sequences, TLC
SQ == 39  DQ == 34  BS == 92  NL == 10  LN == 110     \* ' " \ newline n
Esc(c) == IF c = BS THEN <<BS, BS>> ELSE IF c = SQ THEN <<BS, SQ>> ELSE IF c = NL THEN <<BS, LN>> ELSE <<c>>
RECURSIVE EscAll(_)
EscAll(s) == IF s = <<>> THEN <<>> ELSE Esc(Head(s)) \o EscAll(Tail(s))
Quote(s) == <<SQ>> \o EscAll(s) \o <<SQ>>
Naive(s) == <<SQ>> \o s \o <<SQ>>                    \* quotes put around the raw text (the emitter before c892072)
\* lexer: [ok, s, end] - end is the index of the closing quote
RECURSIVE Scan(_, _, _)
Scan(L, i, acc) ==
  IF i > Len(L) THEN [ok |-> FALSE, s |-> acc, end |-> 0]               \* unterminated
  ELSE IF L[i] = SQ THEN [ok |-> TRUE, s |-> acc, end |-> i]
  ELSE IF L[i] = NL THEN [ok |-> FALSE, s |-> acc, end |-> i]           \* raw newline inside a short string
  ELSE IF L[i] = BS THEN
         IF i = Len(L) THEN [ok |-> FALSE, s |-> acc, end |-> 0]
         ELSE LET x == L[i + 1] IN
              Scan(L, i + 2, acc \o (IF x = BS THEN <<BS>> ELSE IF x = SQ THEN <<SQ>> ELSE IF x = LN THEN <<NL>> ELSE IF x = NL THEN <<>> ELSE <<BS, x>>))
  ELSE Scan(L, i + 1, Append(acc, L[i]))
Unquote(L) == IF L = <<>> \/ L[1] # SQ THEN [ok |-> FALSE, s |-> <<>>, end |-> 0] ELSE Scan(L, 2, <<>>)
\* the obligation: the literal denotes exactly s and is closed by its last character only
Inert(L, s) == LET u == Unquote(L) IN u.ok /\ u.s = s /\ u.end = Len(L)

\* ---- what the check demands of one planted text (shared by the generator and the trace specification) ----
\* positions: const (constant cell), literal (="s"), concat (="s"&"b"), criterion (SUMIF(A1:A2,"s")), pattern (SEARCH("s",A1)), title (sheet title)
ValuePinned(pos, s) == pos = "const" \/ (pos \in {"literal", "concat"} /\ \A i \in 1..Len(s) : s[i] # DQ)
Expected(pos, s) == IF pos = "concat" THEN s \o <<98>> ELSE s
Verdict(e) ==
  IF e.outcome \in {"lib", "safety"} THEN (IF e.outcome = "safety" /\ ~e.gate THEN "safety exception although the check is disabled" ELSE "")
  ELSE IF e.outcome # "ok" THEN "outcome class: neither a loadable module nor a library exception"
  ELSE IF e.canary # 0 THEN "code taken from the workbook was executed"
  ELSE IF e.taint # 0 THEN "workbook text appears outside string constants of the generated module"
  ELSE IF ValuePinned(e.pos, e.s) /\ e.value # Expected(e.pos, e.s) THEN "the text does not evaluate to the original string"
  ELSE ""
=============================================================================
