------------------------------ MODULE E2PWImpl ------------------------------
(* CODE-SHAPED pipeline: where the pieces of state live in the library.            *)
(*   Parser: _translation (the cached text) and the three *_has_been_changed flags  *)
(*           (one flag here: every setter raises it, _translate lowers it)          *)
(*   disk  : the workbook under its path, the written class file                    *)
(*   object_loader.load_module: executes the class file anew on every call          *)
(*   Executor: the instance of the class it was given                               *)
(* Variant "fixed"        : the library.                                            *)
(* Variant "module_cache" : load_module keeps the module of a path it has loaded    *)
(*                          (sys.modules by file name): an executor made from a     *)
(*                          re-written class file gets the class of the first load.  *)
(* Variant "mtime_cache"  : _translate also skips its work when the setter named     *)
(*                          the path it already has (the file may have been replaced)*)
(* Variant "write_skips"  : write_translation does not write when nothing was        *)
(*                          translated anew and the file exists (it may hold the      *)
(*                          text of another Parser's translation - here: of an older   *)
(*                          version written before the last replace)                   *)
(* hver / hwritten / hwv are the ghosts of the ideal pipeline.                       *)
EXTENDS Workbook4, TLC

CONSTANTS Execs, WCoords, Values, Variant

Versions == {1, 2}
Base(v) == IF v = 1 THEN EmptyOv ELSE [c \in {"S1A1", "S2C3"} |-> IF c = "S1A1" THEN 7 ELSE 9]
Over(v, ov) == [c \in (DOMAIN Base(v)) \cup (DOMAIN ov) |-> IF c \in DOMAIN ov THEN ov[c] ELSE Base(v)[c]]
SizesV(v, ov) == [s \in Sheets |-> SizeOf(s, Over(v, ov))]

VARIABLES file, flag, translation, disk, modcache, inst, ovs, obs
vars == <<file, flag, translation, disk, modcache, inst, ovs, obs>>

Init == /\ file = 1 /\ flag = TRUE /\ translation = 0 /\ disk = 0 /\ modcache = 0
        /\ inst = [x \in Execs |-> 0] /\ ovs = [x \in Execs |-> EmptyOv] /\ obs = <<"nothing">>

Replace(v) == /\ file' = v /\ obs' = <<"replace", v>> /\ UNCHANGED <<flag, translation, disk, modcache, inst, ovs>>
\* set_excel_file_path(path): the flag is raised (the variant keeps it down when the path is the one it has)
Announce == /\ flag' = (IF Variant = "mtime_cache" /\ translation # 0 THEN flag ELSE TRUE)
            /\ obs' = <<"announce">> /\ UNCHANGED <<file, translation, disk, modcache, inst, ovs>>
Translated == IF flag THEN file ELSE translation
GetText == /\ translation' = Translated /\ flag' = FALSE /\ obs' = <<"text", Translated>>
           /\ UNCHANGED <<file, disk, modcache, inst, ovs>>
WriteFile == /\ translation' = Translated /\ flag' = FALSE
             /\ disk' = IF Variant = "write_skips" /\ ~flag /\ disk # 0 THEN disk ELSE Translated
             /\ obs' = <<"write", Translated>> /\ UNCHANGED <<file, modcache, inst, ovs>>
Loaded == IF Variant = "module_cache" /\ modcache # 0 THEN modcache ELSE disk
NewFromFile(x) == /\ inst[x] = 0 /\ disk # 0
                  /\ inst' = [inst EXCEPT ![x] = Loaded] /\ modcache' = Loaded /\ ovs' = [ovs EXCEPT ![x] = EmptyOv]
                  /\ obs' = <<"new", x, "file", SizesV(Loaded, EmptyOv)>> /\ UNCHANGED <<file, flag, translation, disk>>
NewFromText(x) == /\ inst[x] = 0 /\ translation # 0
                  /\ inst' = [inst EXCEPT ![x] = translation] /\ ovs' = [ovs EXCEPT ![x] = EmptyOv]
                  /\ obs' = <<"new", x, "text", SizesV(translation, EmptyOv)>> /\ UNCHANGED <<file, flag, translation, disk, modcache>>
Drop(x) == /\ inst[x] # 0 /\ inst' = [inst EXCEPT ![x] = 0] /\ ovs' = [ovs EXCEPT ![x] = EmptyOv] /\ obs' = <<"drop", x>>
           /\ UNCHANGED <<file, flag, translation, disk, modcache>>
Set(x, c, v) == /\ inst[x] # 0 /\ ovs' = [ovs EXCEPT ![x] = Apply(@, <<<<c, v>>>>)] /\ obs' = <<"set", x>>
                /\ UNCHANGED <<file, flag, translation, disk, modcache, inst>>
Get(x, c) == /\ inst[x] # 0 /\ obs' = <<"get", x, c, Ev(c, Over(inst[x], ovs[x]))>> /\ UNCHANGED <<file, flag, translation, disk, modcache, inst, ovs>>
GetSizes(x) == /\ inst[x] # 0 /\ obs' = <<"sizes", x, SizesV(inst[x], ovs[x])>> /\ UNCHANGED <<file, flag, translation, disk, modcache, inst, ovs>>

Next == \/ \E v \in Versions : Replace(v)
        \/ Announce \/ GetText \/ WriteFile
        \/ \E x \in Execs : NewFromFile(x) \/ NewFromText(x) \/ Drop(x) \/ GetSizes(x)
        \/ \E x \in Execs, c \in WCoords, v \in Values : Set(x, c, v)
        \/ \E x \in Execs, c \in AllCoords : Get(x, c)

Spec == Init /\ [][Next]_vars

\* refinement mapping: the ideal pipeline's variables are exactly these (the module cache is invisible to it)
Ideal == INSTANCE E2PW WITH dirty <- flag, text <- translation, written <- disk, wv <- inst
Refines == Ideal!Spec
=============================================================================
