------------------------------ MODULE Translator ------------------------------
(* Entry-point translation as a state machine (C03, C06).                        *)
(* The workbook is a dependency graph deps : Nodes -> SUBSET Nodes chosen in     *)
(* Init.  Translation is the memoised depth-first walk of                        *)
(* CellTranslator._set_cell_to_context: a cell is registered in the context      *)
(* (ctx) only AFTER its formula has been translated, which recursively           *)
(* translates its precedents.                                                    *)
(*   Variant = "pinned": no in-progress marker -> a cycle recurses until the     *)
(*                       interpreter's recursion limit (DepthCap) is hit and a   *)
(*                       foreign RecursionError escapes                          *)
(*   Variant = "fixed" : cells being translated are marked; meeting one again    *)
(*                       raises the library's parser exception                   *)
EXTENDS Naturals, Sequences, FiniteSets, TLC

CONSTANTS Nodes, Variant, DepthCap

VARIABLES deps, entry,
          stack,      \* cells whose formula is being translated (innermost last)
          todo,       \* todo[i]: precedents of stack[i] not yet visited
          ctx,        \* Context._cell_translations: cells whose translation is registered
          status      \* "run" | "done" | "lib" | "foreign"

vars == <<deps, entry, stack, todo, ctx, status>>

\* ---- graph theory on deps (the oracle side) ----
RECURSIVE ReachFrom(_, _, _)
ReachFrom(d, frontier, seen) ==
  IF frontier = {} THEN seen
  ELSE LET nxt == (UNION {d[n] : n \in frontier}) \ seen IN ReachFrom(d, nxt, seen \cup nxt)
Closure(d, e) == ReachFrom(d, {e}, {e})                    \* reflexive-transitive closure
Reach1(d, n) == ReachFrom(d, d[n], d[n])                   \* transitive (non-reflexive) closure
CyclicFrom(d, e) == \E n \in Closure(d, e) : n \in Reach1(d, n)

Init == /\ deps \in [Nodes -> SUBSET Nodes] /\ entry \in Nodes
        /\ stack = <<entry>> /\ todo = <<deps[entry]>> /\ ctx = {} /\ status = "run"

Top == stack[Len(stack)]
OnStack(n) == \E i \in 1..Len(stack) : stack[i] = n

\* visit one precedent n of the cell on top of the stack
Visit(n) ==
  /\ status = "run" /\ stack # <<>> /\ n \in todo[Len(stack)]
  /\ IF n \in ctx
     THEN \* memo hit: context.get_cell(cell) is truthy
          /\ todo' = [todo EXCEPT ![Len(stack)] = @ \ {n}]
          /\ UNCHANGED <<stack, ctx, status>>
     ELSE IF Variant = "fixed" /\ OnStack(n)
     THEN \* in-progress marker: circular reference -> E2PyclParserException
          /\ status' = "lib" /\ UNCHANGED <<stack, todo, ctx>>
     ELSE IF Len(stack) >= DepthCap
     THEN \* interpreter recursion limit
          /\ status' = "foreign" /\ UNCHANGED <<stack, todo, ctx>>
     ELSE \* Enter: lex/parse/translate n's formula
          /\ stack' = Append(stack, n)
          /\ todo' = Append([todo EXCEPT ![Len(stack)] = @ \ {n}], deps[n])
          /\ UNCHANGED <<ctx, status>>
  /\ UNCHANGED <<deps, entry>>

\* all precedents translated: context.set_cell(cell, code)
Exit ==
  /\ status = "run" /\ stack # <<>> /\ todo[Len(stack)] = {}
  /\ ctx' = ctx \cup {Top}
  /\ stack' = SubSeq(stack, 1, Len(stack) - 1)
  /\ todo' = SubSeq(todo, 1, Len(todo) - 1)
  /\ status' = IF Len(stack) = 1 THEN "done" ELSE "run"
  /\ UNCHANGED <<deps, entry>>

Next == Exit \/ \E n \in Nodes : Visit(n)
Spec == Init /\ [][Next]_vars /\ WF_vars(Next)

\* ---- C03 / C06 ----
Closed == status = "done" => ctx = Closure(deps, entry)
RejectIffCyclic == /\ status = "lib" => CyclicFrom(deps, entry)
                   /\ status = "done" => ~CyclicFrom(deps, entry)
NoForeignOutcome == status # "foreign"
StackDiscipline == \A i, j \in 1..Len(stack) : (i # j /\ Variant = "fixed") => stack[i] # stack[j]
Terminates == <>(status \in {"done", "lib", "foreign"})
=============================================================================
