------------------------------ MODULE Trace_C18 ------------------------------
(* Direction B for C18: one event per workbook written to a real xlsx file and read    *)
(* through the public path: {sheets (the layout), titles, sizes, cells (<<sheet, c, r,    *)
(* kind observed>> for every coordinate of the bounding box plus one ring), ncells}.      *)
(* The specification says what must be seen at every coordinate, the sizes and titles.    *)
EXTENDS Workbook, Json, IOUtils
VARIABLE l
Log == JsonDeserialize(IOEnv.TRACE_FILE).events
SheetOf(e, i) == [title |-> e.sheets[i].title, cells |-> {e.sheets[i].cells[j] : j \in 1..Len(e.sheets[i].cells)}]
Verdict(e) ==
  IF Len(e.titles) # Len(e.sheets) \/ \E i \in 1..Len(e.sheets) : e.titles[i] # e.sheets[i].title THEN "TITLES"
  ELSE IF \E i \in 1..Len(e.sheets) : e.sizes[i] # SizeOf(SheetOf(e, i)) THEN "SIZES"
  ELSE IF \E j \in 1..Len(e.cells) : LET x == e.cells[j] IN At(SheetOf(e, x[1]), x[2], x[3]) # x[4] THEN "CELL"
  ELSE ""
Init == l = 1
Step == /\ l <= Len(Log)
        /\ LET v == Verdict(Log[l]) IN IF v = "" THEN TRUE ELSE PrintT(<<"V", l, v>>)
        /\ l' = l + 1
        /\ (l' = Len(Log) + 1) => PrintT(<<"DONE", l'>>)
Spec == Init /\ [][Step]_l
=============================================================================
