------------------------------- MODULE Gen_C06 -------------------------------
(* Direction A for C06 (translation is total): adversarial workbook descriptors.  *)
(* A workbook of the generator is described by                                    *)
(*    title kind x constant kind x formula kind x placement                       *)
(* The specification states the obligation for every descriptor:                  *)
(*    Outcome \in {"ok", "lib"}            (never foreign / syntax / timeout)      *)
(* and, where the formula kind is outside the supported grammar or refers to a    *)
(* sheet that does not exist, that the outcome must be "lib"; where everything is *)
(* supported it must be "ok" (the workbook is readable and well-formed).          *)
EXTENDS Naturals, Sequences, TLC, Json
VARIABLES d

TitleKinds == {"plain", "space", "quote", "dquote", "brace", "format", "digit", "unicode", "long", "dquote3", "dquote_last", "squote3"}
ConstKinds == {"int", "float", "bigint", "bool", "text", "text_quote", "text_backslash", "text_newline", "text_brace",
               "datetime", "date", "time", "timedelta", "errstr", "empty", "numtext", "eqtext_const", "datatable", "overflow", "overflow_neg"}
FormulaKinds == {"none", "valid_arith", "valid_fn", "valid_nested3", "valid_crosssheet", "valid_wholecol", "array_formula",
                 "unknown_fn", "unknown_sheet", "far_ref", "lowercase_fn", "name", "error_literal", "unbalanced", "trailing_op",
                 "lit_quote", "lit_backslash", "lit_brace", "lit_newline", "adjacent_pct", "match2", "xmatch2", "vlookup3",
                 "empty_formula", "only_eq_space", "nested4", "self_ref", "diag_range", "cross_sheet_range", "column_noarg",
                 "count_mixed", "index_multi", "sumif_cell", "address5", "text_fn", "neg_pct_chain",
                 "row_zero", "abs_row_zero", "range_row_zero", "col_4letters", "wholecol_4letters", "col_beyond_xfd", "row_huge", "brackets8", "half_open_area", "half_open_area2", "empty_title", "empty_quoted_title",
                 "exp_huge", "long_sum", "sumif_wholecol_target", "column_4letters", "crit_unicode_digit", "unicode_digit_literal", "crit_leading_zero", "crit_huge", "cmp_chain_220", "row_5000_digits", "cmp_chain_in_call"}
Placements == {"origin", "gap"}

Rejecting == {"unknown_fn", "unknown_sheet", "lowercase_fn", "name", "error_literal", "unbalanced", "trailing_op",
              "adjacent_pct", "only_eq_space", "self_ref", "cross_sheet_range",
              \* coordinates that do not exist: row 0, a column spelled with four letters
              "row_zero", "abs_row_zero", "range_row_zero", "col_4letters", "wholecol_4letters",
              \* an area with a row number on one side only; a sheet prefix with an empty title
              "half_open_area", "half_open_area2", "empty_title", "empty_quoted_title", "column_4letters"}
MustBeOk == {"none", "valid_arith", "valid_fn", "valid_nested3", "valid_crosssheet", "valid_wholecol", "array_formula", "far_ref",
             "lit_quote", "lit_backslash", "lit_brace", "match2", "xmatch2", "vlookup3", "column_noarg", "count_mixed",
             "sumif_cell", "text_fn", "neg_pct_chain", "brackets8"}
\* a title containing a quote must be spelled with a doubled quote inside a reference ('it''s'!B1); the supported
\* reference grammar has no such escape, so rejecting that reference is admissible
\* a lone "=" is stored by the workbook writer as a TEXT cell (it is not a formula): a constant or a rejection are both admissible
\* a cell that holds an object instead of a value (a what-if data table) has no translation: rejecting the workbook is admissible
Expected(f, t, c) == IF f \in Rejecting THEN {"lib"}
                  ELSE IF c = "datatable" THEN {"ok", "lib"}
                  \* a stored number beyond the range of a double (<v>1e999</v>): read as an infinity; a member that evaluates to it or a rejection
                  ELSE IF c \in {"overflow", "overflow_neg"} THEN {"ok", "lib"}
                  ELSE IF f \in {"valid_crosssheet"} /\ t \in {"quote", "squote3"} THEN {"ok", "lib"}
                  ELSE IF f \in MustBeOk THEN {"ok"} ELSE {"ok", "lib"}

Init == d \in [title : TitleKinds, const : ConstKinds, formula : FormulaKinds, place : Placements]
        /\ PrintT(ToJson([title |-> d.title, const |-> d.const, formula |-> d.formula, place |-> d.place,
                          expected |-> Expected(d.formula, d.title, d.const)]))
Next == UNCHANGED d
\* the obligation is total: every descriptor has a non-empty set of admissible outcome classes within {ok, lib}
Total == Expected(d.formula, d.title, d.const) # {} /\ Expected(d.formula, d.title, d.const) \subseteq {"ok", "lib"}
=============================================================================
