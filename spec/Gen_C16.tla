------------------------------- MODULE Gen_C16 -------------------------------
(* Direction A for C16: decimals sign x integer part x four fractional digits, with  *)
(* the exact results of the three functions for every digit count -3..6 and of x%.   *)
(* Shard = (sign, integer part); the cases of a shard are its successors.            *)
EXTENDS XlRounding, Json
CONSTANTS IntParts, FracStep, FracRes
VARIABLE st
S == 4
Ns == <<-3, -2, -1, 0, 1, 2, 3, 4, 5, 6>>
Fracs == {f \in 0..9999 : (f % FracStep) \in FracRes}
Init == \E sg \in {-1, 1}, i \in IntParts : st = [ph |-> "shard", sg |-> sg, i |-> i]
Row(f, m) == [k \in 1..Len(Ns) |-> Apply(f, m, S, Ns[k])]
Next == /\ st.ph = "shard"
        /\ \E f \in Fracs :
             LET m == st.sg * (st.i * 10000 + f) IN
             /\ (st.sg = 1 \/ m # 0)
             /\ st' = [ph |-> "case", m |-> m]
             /\ PrintT(ToJson([m |-> m, s |-> S, R |-> Row("ROUND", m), U |-> Row("ROUNDUP", m), D |-> Row("ROUNDDOWN", m),
                               P |-> Apply("PCT", m, S, 0)]))
=============================================================================
