------------------------------- MODULE Gen_C10 -------------------------------
(* Direction A for C10: every ordered pair of the grid that is in scope, with the   *)
(* three-way result the specification pins (or LAWS).  Shard = left operand.        *)
EXTENDS XlCompare, C10Grid, Json
VARIABLE st
Init == \E a \in Grid : st = [ph |-> "shard", a |-> a]
Next == /\ st.ph = "shard"
        /\ \E b \in Grid :
             /\ Cmp3(st.a, b) # OOS
             /\ st' = [ph |-> "case", a |-> st.a, b |-> b]
             /\ PrintT(ToJson([a |-> st.a, b |-> b, c |-> Cmp3(st.a, b)]))
=============================================================================
