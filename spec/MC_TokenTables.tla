---- MODULE MC_TokenTables ----
EXTENDS TokenTables
====
