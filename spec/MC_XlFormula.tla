---------------------------- MODULE MC_XlFormula ----------------------------
(* Laws of the ideal operator grammar, checked by TLC over all operator pairs and *)
(* valuations: the precedence table is self-consistent (a chain equals its fully  *)
(* bracketed reading), equal levels associate to the left, % binds tighter than   *)
(* the unary sign, a blank operand counts as 0 in arithmetic.                     *)
EXTENDS C01Envs
VARIABLES o1, o2, e

Prec(o) == CASE o \in {"MUL", "DIV"} -> 3 [] o \in {"PLUS", "MINUS"} -> 2 [] o = "AMP" -> 1 [] OTHER -> 0
MInit == o1 \in AllOps /\ o2 \in AllOps /\ e \in 1..Len(McEnvs)
MNext == UNCHANGED <<o1, o2, e>>
Env == McEnvs[e]
V(t) == Ideal(t, Env)
\* a chain of two operators equals the bracketed reading the precedence table prescribes
Grouping == LET flat == V(<<"x1", o1, "x2", o2, "x3">>)
                left == V(<<"LP", "x1", o1, "x2", "RP", o2, "x3">>)
                right == V(<<"x1", o1, "LP", "x2", o2, "x3", "RP">>)
            IN flat.acc /\ left.acc /\ right.acc /\ flat.v = (IF Prec(o2) > Prec(o1) THEN right.v ELSE left.v)
\* unary sign: applies to its operand only, and % binds tighter
UnaryScope == /\ V(<<"MINUS", "x1", o1, "x2">>).v = V(<<"LP", "MINUS", "x1", "RP", o1, "x2">>).v
              /\ V(<<"MINUS", "x4", "PCT">>).v = V(<<"MINUS", "LP", "x4", "PCT", "RP">>).v
              /\ V(<<"x2", o1, "MINUS", "x4">>).v = V(<<"x2", o1, "LP", "MINUS", "x4", "RP">>).v
\* blank = 0 in arithmetic and in a comparison with a number (against a truth value - the result of another comparison - a blank
\* is FALSE, against a text it is the empty text: XCmp)
Zeroed == [x \in DOMAIN Env |-> IF Env[x].k = "blank" THEN IntV(0) ELSE Env[x]]
BlankIsZero == (o1 # "AMP" /\ o2 # "AMP" /\ ~(o1 \in CmpOps /\ o2 \in CmpOps)) => Ideal(<<"x1", o1, "x2", o2, "x3">>, Env).v = Ideal(<<"x1", o1, "x2", o2, "x3">>, Zeroed).v
\* the guards of the findings are syntactic: insensitive to the valuation, empty for pure arithmetic
GuardsSyntactic == (o1 \in ArOps /\ o2 \in ArOps) => Guards(<<"x1", o1, "x2", o2, "x3">>) = {}
=============================================================================
