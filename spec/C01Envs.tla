---- MODULE C01Envs ----
(* operator sets and valuations shared by the C01 generator and the law checks *)
EXTENDS XlFormula
AllOps == {"PLUS", "MINUS", "MUL", "DIV", "AMP", "EQ", "NE", "LT", "GT", "LE", "GE"}
ArOps == {"PLUS", "MINUS", "MUL", "DIV"}
\* valuations: pairwise distinct primes; negative and dyadic; blanks; texts
E1 == [x1 |-> IntV(2), x2 |-> IntV(3), x3 |-> IntV(5), x4 |-> IntV(7), x5 |-> IntV(11)]
E2 == [x1 |-> IntV(-3), x2 |-> Rat(1, 2), x3 |-> IntV(8), x4 |-> Rat(1, 4), x5 |-> IntV(6)]
E3 == [x1 |-> Blank, x2 |-> IntV(5), x3 |-> Blank, x4 |-> IntV(2), x5 |-> IntV(3)]
E4 == [x1 |-> Text(<<"a">>), x2 |-> Text(<<"b">>), x3 |-> Text(<<"a">>), x4 |-> IntV(2), x5 |-> Text(<<"b", "c">>)]
E5 == [x1 |-> Bool(TRUE), x2 |-> IntV(1), x3 |-> Bool(FALSE), x4 |-> IntV(0), x5 |-> IntV(4)]
\* texts that differ in case only, next to a number and a truth value
E6 == [x1 |-> Text(<<"a", "B">>), x2 |-> Text(<<"A", "b">>), x3 |-> IntV(1), x4 |-> Bool(TRUE), x5 |-> Text(<<"a">>)]
\* texts that differ in their whitespace only (a run of two blanks, one blank, a tab, blanks at the ends): a text literal is kept character by character
E7 == [x1 |-> Text(<<"a", " ", " ", "b">>), x2 |-> Text(<<"a", " ", "b">>), x3 |-> Text(<<"a", "\t", "b">>), x4 |-> Text(<<" ", "a", " ">>), x5 |-> IntV(2)]
McEnvs == <<E1, E2, E3, E4, E5, E6, E7>>
Dec3 == {"plain", "neg", "pct"}
Dec1 == {"plain"}
Dec5 == {"plain", "neg", "pct", "negpct", "pos"}
====
