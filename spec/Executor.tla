------------------------------- MODULE Executor -------------------------------
(* IDEAL executor (C04: overrides mean edit-the-cell-and-recalculate, the last   *)
(* write wins;  C08: queries are pure, repeatable, and all query APIs agree).    *)
EXTENDS Workbook4, TLC

CONSTANTS WCoords,     \* coordinates the client may override
          Values,      \* values it may write
          MaxBatch     \* writes per set_cells call

VARIABLES ov,          \* overrides in force: coord -> value  (the abstract state)
          obs          \* observation: the last reply

vars == <<ov, obs>>
Writes == WCoords \X Values
Batches == UNION {[1..n -> Writes] : n \in 1..MaxBatch}

Init == ov = EmptyOv /\ obs = <<"nothing">>

SetCells(batch) == ov' = Apply(ov, batch) /\ obs' = <<"set">>
\* a set_cells call that names an invalid cell (unknown sheet, impossible coordinate) is rejected as a whole: nothing changes,
\* whichever valid cells came before the invalid one in the batch
RejectedSet == ov' = ov /\ obs' = <<"rejected">>
Get(c)      == obs' = <<"get", c, Ev(c, ov)>> /\ UNCHANGED ov
GetMany(cs) == obs' = <<"many", [i \in 1..Len(cs) |-> Ev(cs[i], ov)]>> /\ UNCHANGED ov
GetSheet(s) == obs' = <<"sheet", s, Grid(s, ov)>> /\ UNCHANGED ov

IsQuery == obs'[1] \in {"get", "many", "sheet"}

Next == \/ \E b \in Batches : SetCells(b)
        \/ RejectedSet
        \/ \E c \in AllCoords : Get(c)
        \/ \E s \in Sheets : GetSheet(s)

Spec == Init /\ [][Next]_vars

\* ---- C04 ----
\* the last write wins, across batches and inside a batch
LastWriteWins == [][\A b \in Batches : (ov' = Apply(ov, b)) =>
                      \A i \in 1..Len(b) : (\A j \in (i+1)..Len(b) : b[j][1] # b[i][1]) => ov'[b[i][1]] = b[i][2]]_vars
\* an overridden cell reports its constant, whatever its formula was (errors included)
OverriddenIsConstant == \A c \in DOMAIN ov : Ev(c, ov) = OvVal(ov[c])
\* cells that neither are overridden nor depend on an overridden cell keep their workbook meaning
RECURSIVE Deps(_)
Deps(c) == IF c \notin DOMAIN WB THEN {c}
           ELSE LET f == WB[c] IN
                {c} \cup (CASE f.op = "const" -> {}
                            [] f.op = "add" -> Deps(f.a) \cup Deps(f.b)
                            [] f.op \in {"addk", "mulk"} -> Deps(f.a)
                            [] f.op = "kdiv" -> Deps(f.b)
                            [] f.op = "wcol" -> {x \in AllCoords : Pos[x][1] = f.s /\ Pos[x][2] = f.col})
UntouchedKeepMeaning == \A c \in AllCoords : (Deps(c) \cap DOMAIN ov = {}) => Ev(c, ov) = Ev(c, EmptyOv)
\* ---- C08 ----
QueriesArePure == [][IsQuery => UNCHANGED ov]_vars
\* the whole-sheet grid has exactly one entry per coordinate of (used range (+) overrides), each = the single query
GridIsBox == \A s \in Sheets : LET g == Grid(s, ov) z == SizeOf(s, ov) IN
               /\ Len(g) = z.rows /\ \A r \in 1..z.rows : Len(g[r]) = z.cols
               /\ \A c \in AllCoords : Pos[c][1] = s /\ (c \in DOMAIN ov \/ c \in DOMAIN WB) => g[Pos[c][3]][Pos[c][2]] = Ev(c, ov)
SizesGrow == \A s \in Sheets : SizeOf(s, ov).rows >= UsedSize[s].rows /\ SizeOf(s, ov).cols >= UsedSize[s].cols
=============================================================================
