---- MODULE MC_Executor ----
EXTENDS Executor
====
