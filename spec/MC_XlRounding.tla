---------------------------- MODULE MC_XlRounding ----------------------------
(* The property's own algebra, checked on the oracle for every m in -M..M at scale 4 *)
(* and every digit count -3..6.                                                      *)
EXTENDS XlRounding
CONSTANT M
VARIABLES m, n
S == 4
Init == m \in -M..M /\ n \in -3..6
Next == UNCHANGED <<m, n>>
q == Quantum(S, n)
R == RoundM(m, S, n)  U == RoundUpM(m, S, n)  D == RoundDownM(m, S, n)
OnGrid(x) == x % q = 0
Idempotent == RoundM(R, S, n) = R /\ RoundUpM(U, S, n) = U /\ RoundDownM(D, S, n) = D /\ OnGrid(R) /\ OnGrid(U) /\ OnGrid(D)
Monotone == RoundM(m + 1, S, n) >= R /\ RoundUpM(m + 1, S, n) >= U /\ RoundDownM(m + 1, S, n) >= D
HalfQuantum == 2 * Abs(R - m) <= q
Bracket == Abs(D) <= Abs(m) /\ Abs(m) <= Abs(U) /\ Abs(U) - Abs(D) \in {0, q}
OddSymmetric == RoundM(-m, S, n) = -R /\ RoundUpM(-m, S, n) = -U /\ RoundDownM(-m, S, n) = -D
RepresentableUnchanged == OnGrid(m) => (R = m /\ U = m /\ D = m)
TiesAwayFromZero == (q > 1 /\ Abs(m) % q = q \div 2) => Abs(R) = Abs(m) + q \div 2
NearestOtherwise == (q > 1 /\ Abs(m) % q < q \div 2) => R = D
=============================================================================
