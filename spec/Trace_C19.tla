------------------------------ MODULE Trace_C19 ------------------------------
(* Direction B for C19: one event per workbook: {titles, cells (<<sheet, c, r, text>>),  *)
(* gate, raised, report (<<key, fragments>> pairs)}.  The specification decides which     *)
(* cells must be listed (Workbook.Judge), builds the report key 'title' + A1 address of    *)
(* the true coordinate, and demands: raised <=> gate /\ something listed; the report is    *)
(* exactly the listed cells with their fragments.                                          *)
EXTENDS Workbook, XlRefs, Json, IOUtils
VARIABLE l
Log == JsonDeserialize(IOEnv.TRACE_FILE).events
Key(e, x) == <<39>> \o e.titles[x[1]] \o <<39>> \o ColCodes(x[2]) \o NatCodes(x[3])
Listed(e) == {j \in 1..Len(e.cells) : Judge(e.cells[j][4]).v = "listed"}
Pinned(e) == \A j \in 1..Len(e.cells) : Judge(e.cells[j][4]).v # "oos"
Verdict(e) ==
  IF ~Pinned(e) THEN ""
  ELSE IF ~e.gate THEN (IF e.raised THEN "RAISED_WHILE_DISABLED" ELSE "")
  ELSE IF e.raised # (Listed(e) # {}) THEN (IF e.raised THEN "INNOCENT_REJECTED" ELSE "NOT_REJECTED")
  ELSE IF ~e.raised THEN ""
  ELSE IF {e.report[i][1] : i \in 1..Len(e.report)} # {Key(e, e.cells[j]) : j \in Listed(e)} THEN "WRONG_CELLS_LISTED"
  ELSE IF \E i \in 1..Len(e.report) : \E j \in Listed(e) : e.report[i][1] = Key(e, e.cells[j]) /\ e.report[i][2] # Judge(e.cells[j][4]).fs THEN "WRONG_FRAGMENTS"
  ELSE ""
Init == l = 1
Step == /\ l <= Len(Log)
        /\ LET v == Verdict(Log[l]) IN IF v = "" THEN TRUE ELSE PrintT(<<"V", l, v>>)
        /\ l' = l + 1
        /\ (l' = Len(Log) + 1) => PrintT(<<"DONE", l'>>)
Spec == Init /\ [][Step]_l
=============================================================================
