------------------------------- MODULE C12Grid -------------------------------
(* cell contents and criteria of the C12 enumeration *)
EXTENDS XlCriteria
NQ(q) == [k |-> "num", q |-> q]
TX(c) == [k |-> "text", c |-> c]
BlankC == [k |-> "blank"]
\* 0, 3, 5, 7, -1, 2.5 ; "x" "X" "apple" "apply" "b?" ; blank
\* ... and "app<line break>le": a wildcard covers a line break like any other character
Cells == {NQ(0), NQ(12), NQ(20), NQ(28), NQ(-4), NQ(10), TX(<<120>>), TX(<<88>>), TX(<<97, 112, 112, 108, 101>>), TX(<<97, 112, 112, 108, 121>>),
          TX(<<98, 63>>), TX(<<97, 112, 112, 10, 108, 101>>), BlankC}
BoolC(b) == [k |-> "bool", b |-> b]
\* the truth-value enumeration: 1, 0, TRUE, FALSE, blank x criteria TRUE / FALSE (as texts, = and <>) and numbers 1 / 0
BoolCells == {NQ(4), NQ(0), BoolC(TRUE), BoolC(FALSE), BlankC}
BoolCrits == {[op |-> o, operand |-> t] : o \in {"EQ", "NE"}, t \in {TX(<<84, 82, 85, 69>>), TX(<<102, 97, 108, 115, 101>>)}}
             \cup {[op |-> o, operand |-> NQ(4)] : o \in {"EQ", "NE", "GT", "GE", "LT", "LE"}} \cup {[op |-> "EQ", operand |-> NQ(0)]}
Ops == {"EQ", "NE", "GT", "GE", "LT", "LE"}
TextOperands == {TX(<<120>>), TX(<<97, 112, 112, 42>>), TX(<<97, 112, 112, 108, 63>>), TX(<<42, 112, 42>>), TX(<<98, 126, 63>>), TX(<<63>>), TX(<<42>>),
                 TX(<<97, 112, 112, 108, 101>>), TX(<<42, 108, 63>>)}
Crits == {[op |-> o, operand |-> NQ(q)] : o \in Ops, q \in {20, 0, 16}} \cup {[op |-> o, operand |-> t] : o \in {"EQ", "NE"}, t \in TextOperands}
=============================================================================
