------------------------------ MODULE Gen_E2PW ------------------------------
(* Direction A for the pipeline specification: every history of Depth steps of   *)
(* the ideal pipeline over one executor identity per kind of origin.  After each  *)
(* step the behaviour records what the step must have returned (the version of    *)
(* the text / the class file) and what every live executor must report (marker    *)
(* cell, the cell beyond version 1's used range, the whole-column cell, sizes).   *)
EXTENDS E2PW, Json, Sequences

CONSTANT Depth
VARIABLES hist, done
gvars == <<vars, hist, done>>

ExecSeq == <<1, 2>>
Probe == <<"S1A1", "S1C1", "S2A1", "S2C3", "S2D1", "S1E1">>
SnapOf(v, o) == [vals |-> [i \in 1..Len(Probe) |-> [c |-> Probe[i], v |-> EvV(v, Probe[i], o)]], sizes |-> [s \in 1..2 |-> SizeOf(s, Over(v, o))]]
Snap(w, o) == [i \in 1..Len(ExecSeq) |-> IF w[ExecSeq[i]] # 0 THEN [live |-> TRUE, snap |-> SnapOf(w[ExecSeq[i]], o[ExecSeq[i]])]
                                                            ELSE [live |-> FALSE, snap |-> SnapOf(1, EmptyOv)]]
GInit == Init /\ hist = <<>> /\ done = FALSE
Rec(a) == hist' = Append(hist, [a |-> a, text |-> text', written |-> written', after |-> Snap(wv', ovs')]) /\ done' = FALSE
A(op, x, v) == [op |-> op, x |-> x, v |-> v]
Step == /\ ~done /\ Len(hist) < Depth
        /\ \/ \E v \in Versions : Replace(v) /\ Rec(A("replace", 0, v))
           \/ Announce /\ Rec(A("announce", 0, 0))
           \/ GetText /\ Rec(A("text", 0, 0))
           \/ WriteFile /\ Rec(A("write", 0, 0))
           \/ NewFromFile(1) /\ Rec(A("newfile", 1, 0))
           \/ NewFromText(2) /\ Rec(A("newtext", 2, 0))
           \/ \E x \in Execs : Drop(x) /\ Rec(A("drop", x, 0))
           \/ \E x \in Execs, c \in WCoords, v \in Values : Set(x, c, v) /\ Rec([op |-> "set", x |-> x, v |-> v, c |-> c])
\* only histories that replace the file and make an executor say anything beyond the facade and the session specifications
Interesting == /\ \E i \in 1..Len(hist) : hist[i].a.op = "replace" /\ hist[i].a.v = 2
               /\ \E i \in 1..Len(hist) : hist[i].a.op \in {"newfile", "newtext"}
               /\ hist[Len(hist)].a.op \notin {"replace", "announce", "drop"}
Finish == /\ ~done /\ Len(hist) = Depth /\ done' = TRUE /\ UNCHANGED <<vars, hist>>
          /\ (Interesting => PrintT(ToJson([h |-> hist])))
GNext == Step \/ Finish
=============================================================================
