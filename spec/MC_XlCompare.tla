---------------------------- MODULE MC_XlCompare ----------------------------
(* Laws of the comparison oracle itself, over the whole C10 grid (pairs and triples). *)
EXTENDS XlCompare, C10Grid
VARIABLES a, b, c
Init == a \in Grid /\ b \in Grid /\ c \in SmallGrid
Next == UNCHANGED <<a, b, c>>
Pinned(x, y) == Cmp3(x, y) \in {-1, 0, 1}
\* the oracle obeys the laws it is going to demand
OracleLawful == Pinned(a, b) => (Pinned(b, a) /\ Lawful(Six(Cmp3(a, b)), Six(Cmp3(b, a))))
OracleSymmetricScope == (Cmp3(a, b) = LAWS) = (Cmp3(b, a) = LAWS) /\ (Cmp3(a, b) = OOS) = (Cmp3(b, a) = OOS)
Transitive == (Pinned(a, b) /\ Pinned(b, c) /\ Pinned(a, c) /\ Cmp3(a, b) <= 0 /\ Cmp3(b, c) <= 0) => Cmp3(a, c) <= 0
Reflexive == (a.k # "bool") => Cmp3(a, a) \in {0, LAWS}
\* numbers: exact rational order (agrees with the order of the numerators over a common denominator)
OneStepUp == (a.k = "num") => LET u == [k |-> "numup", n |-> a.n, d |-> a.d] IN
               Cmp3(a, u) = -1 /\ Cmp3(u, a) = 1 /\ Cmp3(u, u) = 0 /\ ((b.k = "num" /\ Cmp3(a, b) = -1) => Cmp3(u, b) = -1)
NumbersExact == (a.k = "num" /\ b.k = "num") =>
                  LET m == a.d * b.d IN Cmp3(a, b) = Sign(a.n * (m \div a.d) - b.n * (m \div b.d))
\* the blank clauses of the statement
BlankClauses == /\ Cmp3(Blank, Num(0, 1)) = 0 /\ Cmp3(Blank, TextV(<<>>)) = 0 /\ Cmp3(Blank, BoolV(FALSE)) = 0
                /\ (a.k = "num" /\ a.n > 0) => Cmp3(Blank, a) = -1
                /\ (a.k = "text" /\ a.c # <<>>) => Cmp3(Blank, a) = -1
                /\ (a.k \in {"date", "day"}) => (Cmp3(Blank, a) = -1 /\ Cmp3(a, Blank) = 1)
DateEqualsMidnight == (a.k = "day") => Cmp3(a, DateV(a.d, 0)) = 0 /\ Cmp3(a, DateV(a.d, 1)) = -1
=============================================================================
