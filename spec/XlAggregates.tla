---------------------------- MODULE XlAggregates ----------------------------
(* C11: aggregates fold exactly the numeric cells of their arguments.               *)
(* A block of cells (Cols columns, row-major index) holds content kinds:             *)
(*   "I" integer  "D" decimal  "N" negative  "Z" zero (a number like any other)       *)
(*   "X" text  "S" numeric-looking text                                              *)
(*   "T" TRUE  "F" FALSE  "B" blank  "E" empty text  "H" a text that starts with #   *)
(*   (an order number like #41: a text, not an error value)                           *)
(* Numeric values are position dependent (so that every cell is distinguishable) and *)
(* kept in quarter units (value * 4) to stay in integer arithmetic.                   *)
(* An argument is an area <<r1, c1, r2, c2>> of the block, or [far |-> q4s] (numeric   *)
(* cells of an area on another sheet), or [lit |-> q4] (a numeric scalar).            *)
EXTENDS Integers, Sequences, FiniteSets, TLC
CONSTANT Cols

Numeric == {"I", "D", "N", "Z"}
Ints == <<2, 3, 5, 7, 11, 13, 17, 19, 23, 29, 31, 37>>
Decs4 == <<2, 5, 11, 18, 25, 34, 41, 50, 61, 70, 83, 94>>       \* 0.5, 1.25, 2.75, 4.5 ...
Negs == <<1, 4, 6, 9, 10, 12, 14, 15, 16, 18, 20, 21>>
Q4(i, kind) == CASE kind = "I" -> 4 * Ints[i] [] kind = "D" -> Decs4[i] [] kind = "N" -> -4 * Negs[i] [] kind = "Z" -> 0
Idx(r, c) == (r - 1) * Cols + c
\* cells of an area in row-major order
AreaCells(a) == LET w == a[4] - a[2] + 1 n == (a[3] - a[1] + 1) * w IN
                [i \in 1..n |-> Idx(a[1] + (i - 1) \div w, a[2] + ((i - 1) % w))]
\* numeric values (quarter units) contributed by one argument, in order
ArgNums(arg, blk) ==
  IF "far" \in DOMAIN arg THEN arg.far
  ELSE IF "lit" \in DOMAIN arg THEN <<arg.lit>>
  ELSE LET cs == AreaCells(arg.area) IN
       LET RECURSIVE G(_)
           G(i) == IF i > Len(cs) THEN <<>> ELSE (IF blk[cs[i]] \in Numeric THEN <<Q4(cs[i], blk[cs[i]])>> ELSE <<>>) \o G(i + 1)
       IN G(1)
RECURSIVE AllNums(_, _)
AllNums(args, blk) == IF args = <<>> THEN <<>> ELSE ArgNums(Head(args), blk) \o AllNums(Tail(args), blk)
RECURSIVE SumSeq(_)
SumSeq(s) == IF s = <<>> THEN 0 ELSE Head(s) + SumSeq(Tail(s))
MinSeq(s) == CHOOSE x \in {s[i] : i \in 1..Len(s)} : \A j \in 1..Len(s) : x <= s[j]
MaxSeq(s) == CHOOSE x \in {s[i] : i \in 1..Len(s)} : \A j \in 1..Len(s) : x >= s[j]
NoVal == -999999
\* results: sum4, count, min4, max4 (NoVal when there is no numeric cell); the average is sum4 / (4 * count)
Folds(args, blk) == LET ns == AllNums(args, blk) IN
  [sum4 |-> SumSeq(ns), count |-> Len(ns), min4 |-> IF ns = <<>> THEN NoVal ELSE MinSeq(ns), max4 |-> IF ns = <<>> THEN NoVal ELSE MaxSeq(ns)]
CountBlank(a, blk) == Cardinality({i \in 1..Len(AreaCells(a)) : blk[AreaCells(a)[i]] \in {"B", "E"}})
\* AND / OR over truth values
AndOf(bs) == \A i \in 1..Len(bs) : bs[i]
OrOf(bs) == \E i \in 1..Len(bs) : bs[i]
=============================================================================
