------------------------------ MODULE Runtime2 ------------------------------
(* C20: the importable base class and the runtime emitted into every generated       *)
(* class are two renderings of one helper interface.  Nothing about the helpers'       *)
(* values is stated here (the library modules do that): the only obligation is          *)
(* agreement - same set of helper names, and for every call the same outcome            *)
(* (value, or type of the raised exception).  Outcomes are compared by a canonical       *)
(* digest computed by the abstraction function.                                          *)
EXTENDS Integers, Sequences, FiniteSets, TLC
SetOf(s) == {s[i] : i \in 1..Len(s)}
SameHelpers(namesA, namesB) == SetOf(namesA) = SetOf(namesB)
OnlyIn(namesA, namesB) == SetOf(namesA) \ SetOf(namesB)
Agree(call) == call.da = call.db
=============================================================================
