----------------------------- MODULE ExecutorImpl -----------------------------
(* CODE-SHAPED executor: utilities/executor.py + the template's                   *)
(* _cell_preprocessor / set_arguments, one action per method.                     *)
(*                                                                                 *)
(* Variant = "pinned" (the code at the pinned commit):                             *)
(*   - Executor._cells is a SET of Cell objects that are equal only if uid AND     *)
(*     value agree, so two writes of one cell are both kept; they are replayed     *)
(*     into the instance in set-iteration order => an OLDER write can win          *)
(*   - _cell_preprocessor evaluates the cell's original method before it looks     *)
(*     at the overrides (eager dict.get default) => the error of an overridden     *)
(*     formula still surfaces                                                      *)
(* Variant = "eager_sizes": one pair per uid (newest wins), lazy default, but the  *)
(*     loop of set_cells extends the sheet sizes cell by cell BEFORE a later        *)
(*     invalid cell makes the call raise: a rejected call leaves its marks behind   *)
(* Variant = "fixed": as above, and a call is validated as a whole before anything  *)
(*     is changed.                                                                  *)
(* lastw is a ghost variable (the ideal override map) used as refinement mapping.  *)
EXTENDS Workbook4, TLC, FiniteSets

CONSTANTS WCoords, Values, MaxBatch, Variant

VARIABLES cells,     \* Executor._cells : set of <<coord, value>>
          args,      \* instance._arguments : coord -> value
          dirty,     \* Executor._cells_have_been_changed
          lastw,     \* ghost: ideal overrides
          marks,     \* Executor._sheets_size, as the set of coordinates that have extended it (max() per cell)
          obs

vars == <<cells, args, dirty, lastw, marks, obs>>
Writes == WCoords \X Values
Batches == UNION {[1..n -> Writes] : n \in 1..MaxBatch}
Range(b) == {b[i] : i \in 1..Len(b)}

Init == cells = {} /\ args = EmptyOv /\ dirty = FALSE /\ lastw = EmptyOv /\ marks = {} /\ obs = <<"nothing">>

LastPerCoord(b) == {b[i] : i \in {k \in 1..Len(b) : \A j \in (k+1)..Len(b) : b[j][1] # b[k][1]}}

SetCells(b) ==
  /\ marks' = marks \cup {w[1] : w \in Range(b)}
  /\ cells' = IF Variant \in {"fixed", "eager_sizes"}
              THEN {p \in cells : \A w \in Range(b) : w[1] # p[1]} \cup LastPerCoord(b)
              ELSE Range(b) \cup cells                               \* {*cells, *self._cells}
  /\ dirty' = TRUE /\ lastw' = Apply(lastw, b) /\ obs' = <<"set">>
  /\ UNCHANGED args

\* set_cells with an invalid cell after the valid cells `pre`: handle_cell raises inside the loop
RejectedSet(pre) ==
  /\ marks' = IF Variant = "fixed" THEN marks ELSE marks \cup pre
  /\ obs' = <<"rejected">>
  /\ UNCHANGED <<cells, args, dirty, lastw>>

\* set_arguments([cell.to_dict() for cell in self._cells]): dict built in iteration order of the set;
\* for a coord that occurs with several values ANY of them may end up last
Merged(choice) == [c \in (DOMAIN args) \cup {p[1] : p \in cells} |->
                     IF \E p \in cells : p[1] = c THEN choice[c] ELSE args[c]]
Choices == {f \in [{p[1] : p \in cells} -> Values] : \A c \in DOMAIN f : <<c, f[c]>> \in cells}

\* value computed by the instance for coord c under arguments a
RECURSIVE EvI(_, _), SumI(_, _)
SumI(S, a) == IF S = {} THEN Num(0) ELSE LET x == CHOOSE y \in S : TRUE IN Arith("add", EvI(x, a), SumI(S \ {x}, a))
EvI(c, a) ==
  LET orig == IF c \notin DOMAIN WB THEN Blank
              ELSE LET f == WB[c] IN
                   CASE f.op = "const" -> Num(f.v)
                     [] f.op = "add"   -> Arith("add", EvI(f.a, a), EvI(f.b, a))
                     [] f.op = "addk"  -> Arith("add", EvI(f.a, a), Num(f.b))
                     [] f.op = "mulk"  -> Arith("mul", EvI(f.a, a), Num(f.b))
                     [] f.op = "kdiv"  -> Arith("div", Num(f.a), EvI(f.b, a))
                     [] f.op = "wcol"  -> SumI({x \in AllCoords : Pos[x][1] = f.s /\ Pos[x][2] = f.col}, a)
  IN IF Variant \in {"fixed", "eager_sizes"}
     THEN (IF c \in DOMAIN a THEN OvVal(a[c]) ELSE orig)
     ELSE (IF orig.k = "err" THEN Err                      \* eager default: the exception escapes
           ELSE IF c \in DOMAIN a THEN OvVal(a[c]) ELSE orig)

Query(kind, arg) ==
  \E ch \in (IF dirty THEN Choices ELSE {EmptyOv}) :
    LET a == IF dirty THEN Merged(ch) ELSE args IN
    /\ args' = a /\ dirty' = FALSE
    /\ obs' = CASE kind = "get"   -> <<"get", arg, EvI(arg, a)>>
                [] kind = "sheet" -> <<"sheet", arg,
                     LET z == SizeOfDom(arg, marks) IN     \* sizes are updated eagerly in set_cells with max()
                     [r \in 1..z.rows |-> [c \in 1..z.cols |->
                        LET x == CoordAt(arg, c, r) IN IF x = "none" THEN Blank ELSE EvI(x, a)]]>>
    /\ UNCHANGED <<cells, lastw, marks>>

Next == \/ \E b \in Batches : SetCells(b)
        \/ \E pre \in {S \in SUBSET WCoords : Cardinality(S) < MaxBatch} : RejectedSet(pre)
        \/ \E c \in AllCoords : Query("get", c)
        \/ \E s \in Sheets : Query("sheet", s)

Spec == Init /\ [][Next]_vars

Ideal == INSTANCE Executor WITH ov <- lastw
Refines == Ideal!Spec
\* coherence invariant behind the refinement: once replayed, the instance arguments ARE the ideal overrides
ArgsCoherent == ~dirty => args = lastw
\* the reported sizes are those of the used range extended by the overrides in force
MarksAreOverrides == marks = DOMAIN lastw
=============================================================================
