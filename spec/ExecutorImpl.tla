----------------------------- MODULE ExecutorImpl -----------------------------
(* CODE-SHAPED executor: utilities/executor.py + the template's                   *)
(* _cell_preprocessor / set_arguments, one action per method.                     *)
(*                                                                                 *)
(* Variant = "pinned" (the code at the pinned commit):                             *)
(*   - Executor._cells is a SET of Cell objects that are equal only if uid AND     *)
(*     value agree, so two writes of one cell are both kept; they are replayed     *)
(*     into the instance in set-iteration order => an OLDER write can win          *)
(*   - _cell_preprocessor evaluates the cell's original method before it looks     *)
(*     at the overrides (eager dict.get default) => the error of an overridden     *)
(*     formula still surfaces                                                      *)
(* Variant = "fixed": one pair per uid (newest wins), lazy default.                *)
(* lastw is a ghost variable (the ideal override map) used as refinement mapping.  *)
EXTENDS Workbook4, TLC

CONSTANTS WCoords, Values, MaxBatch, Variant

VARIABLES cells,     \* Executor._cells : set of <<coord, value>>
          args,      \* instance._arguments : coord -> value
          dirty,     \* Executor._cells_have_been_changed
          lastw,     \* ghost: ideal overrides
          obs

vars == <<cells, args, dirty, lastw, obs>>
Writes == WCoords \X Values
Batches == UNION {[1..n -> Writes] : n \in 1..MaxBatch}
Range(b) == {b[i] : i \in 1..Len(b)}

Init == cells = {} /\ args = EmptyOv /\ dirty = FALSE /\ lastw = EmptyOv /\ obs = <<"nothing">>

LastPerCoord(b) == {b[i] : i \in {k \in 1..Len(b) : \A j \in (k+1)..Len(b) : b[j][1] # b[k][1]}}

SetCells(b) ==
  /\ cells' = IF Variant = "fixed"
              THEN {p \in cells : \A w \in Range(b) : w[1] # p[1]} \cup LastPerCoord(b)
              ELSE Range(b) \cup cells                               \* {*cells, *self._cells}
  /\ dirty' = TRUE /\ lastw' = Apply(lastw, b) /\ obs' = <<"set">>
  /\ UNCHANGED args

\* set_arguments([cell.to_dict() for cell in self._cells]): dict built in iteration order of the set;
\* for a coord that occurs with several values ANY of them may end up last
Merged(choice) == [c \in (DOMAIN args) \cup {p[1] : p \in cells} |->
                     IF \E p \in cells : p[1] = c THEN choice[c] ELSE args[c]]
Choices == {f \in [{p[1] : p \in cells} -> Values] : \A c \in DOMAIN f : <<c, f[c]>> \in cells}

\* value computed by the instance for coord c under arguments a
RECURSIVE EvI(_, _)
EvI(c, a) ==
  LET orig == IF c \notin DOMAIN WB THEN Blank
              ELSE LET f == WB[c] IN
                   CASE f.op = "const" -> Num(f.v)
                     [] f.op = "add"   -> Arith("add", EvI(f.a, a), EvI(f.b, a))
                     [] f.op = "addk"  -> Arith("add", EvI(f.a, a), Num(f.b))
                     [] f.op = "mulk"  -> Arith("mul", EvI(f.a, a), Num(f.b))
                     [] f.op = "kdiv"  -> Arith("div", Num(f.a), EvI(f.b, a))
  IN IF Variant = "fixed"
     THEN (IF c \in DOMAIN a THEN OvVal(a[c]) ELSE orig)
     ELSE (IF orig.k = "err" THEN Err                      \* eager default: the exception escapes
           ELSE IF c \in DOMAIN a THEN OvVal(a[c]) ELSE orig)

Query(kind, arg) ==
  \E ch \in (IF dirty THEN Choices ELSE {EmptyOv}) :
    LET a == IF dirty THEN Merged(ch) ELSE args IN
    /\ args' = a /\ dirty' = FALSE
    /\ obs' = CASE kind = "get"   -> <<"get", arg, EvI(arg, a)>>
                [] kind = "sheet" -> <<"sheet", arg,
                     LET z == SizeOf(arg, lastw) IN     \* sizes are updated eagerly in set_cells with max()
                     [r \in 1..z.rows |-> [c \in 1..z.cols |->
                        LET x == CoordAt(arg, c, r) IN IF x = "none" THEN Blank ELSE EvI(x, a)]]>>
    /\ UNCHANGED <<cells, lastw>>

Next == \/ \E b \in Batches : SetCells(b)
        \/ \E c \in AllCoords : Query("get", c)
        \/ \E s \in Sheets : Query("sheet", s)

Spec == Init /\ [][Next]_vars

Ideal == INSTANCE Executor WITH ov <- lastw
Refines == Ideal!Spec
\* coherence invariant behind the refinement: once replayed, the instance arguments ARE the ideal overrides
ArgsCoherent == ~dirty => args = lastw
=============================================================================
