------------------------------- MODULE C10Grid -------------------------------
(* the value grids of C10 (quick / thorough) *)
EXTENDS XlCompare
CONSTANT Fine
\* numbers as n/20 (so 1.2 = 24/20, 0.25 = 5/20) reduced by hand is not needed: Cmp3 cross-multiplies
Twentieths == IF Fine THEN {Num(n, 20) : n \in -60..60} ELSE {Num(n, 20) : n \in {-40, -30, -24, -20, -10, 0, 5, 10, 20, 24, 30, 40}}
Nums == Twentieths \cup {Num(10, 1), Num(2000001, 2), Num(2000003, 2), Num(-2000001, 2), Num(1000000, 1), Num(7, 8), Num(1001, 1000), Num(1002, 1000)}
Texts == {TextV(<<>>), TextV(<<97>>), TextV(<<66>>), TextV(<<97, 98>>), TextV(<<49, 48>>), TextV(<<57>>), TextV(<<49, 46, 48>>),
          TextV(<<65>>), TextV(<<98>>), TextV(<<110, 97, 110>>), TextV(<<78, 97, 78>>), TextV(<<105, 110, 102>>),
          \* one number spelled in several ways: "1" beside "1.0", "1e1" beside "10", "09" beside "9" - whatever order the texts get, the laws hold
          TextV(<<49>>), TextV(<<49, 101, 49>>), TextV(<<48, 57>>)}
Days == IF Fine THEN {36525, 36526, 45291, 45292, 45350, 1, 2958465} ELSE {36526, 45291, 45292}
Dates == {DateV(d, t) : d \in Days, t \in {0, 4210}} \cup {DayV(d) : d \in Days}
NumUps == {[k |-> "numup", n |-> n, d |-> 20] : n \in {6, 24, -30, 5}} \cup {[k |-> "numup", n |-> 3, d |-> 1]}
Grid == Nums \cup NumUps \cup Texts \cup Dates \cup {Blank, BoolV(FALSE)}
SmallGrid == {Num(n, 20) : n \in {-30, 0, 5, 24}} \cup {DateV(45291, 0), DateV(45291, 4210), DayV(45292), Blank}
=============================================================================
