------------------------------ MODULE XlCompare ------------------------------
(* C10: comparison of two operands of one kind, and the blank clauses.            *)
(* Values:  [k |-> "num", n, d]  exact rational, d > 0                            *)
(*          [k |-> "numup", n, d] the double just above the double nearest to n/d  *)
(*                               (two numbers that agree in their first 15 digits) *)
(*          [k |-> "text", c]    sequence of character codes                      *)
(*          [k |-> "date", d, t] date-time: day serial d, t seconds after midnight *)
(*          [k |-> "day", d]     a pure date (no time of day)                     *)
(*          [k |-> "bool", b]    [k |-> "blank"]                                  *)
(* Cmp3(a, b) is -1 / 0 / 1 where the statement pins the order, LAWS where it only *)
(* demands the algebraic laws (texts; blank against a negative number), OOS where *)
(* it says nothing (cross-kind pairs, blank against TRUE).                        *)
EXTENDS Integers, Sequences, FiniteSets, TLC

Num(n, d) == [k |-> "num", n |-> n, d |-> d]
TextV(c) == [k |-> "text", c |-> c]
DateV(d, t) == [k |-> "date", d |-> d, t |-> t]
DayV(d) == [k |-> "day", d |-> d]
BoolV(b) == [k |-> "bool", b |-> b]
Blank == [k |-> "blank"]
LAWS == 2
OOS == 3
OpNames == <<"LT", "EQ", "GT", "NE", "LE", "GE">>

Sign(x) == IF x < 0 THEN -1 ELSE IF x = 0 THEN 0 ELSE 1
\* a date equals the date-time at its midnight
Norm(v) == IF v.k = "day" THEN DateV(v.d, 0) ELSE v
BlankVs(b) ==   \* Cmp3(blank, b)
  CASE b.k = "blank" -> 0
    [] b.k = "num"   -> IF b.n = 0 THEN 0 ELSE IF b.n > 0 THEN -1 ELSE LAWS
    [] b.k = "numup" -> IF b.n >= 0 THEN -1 ELSE LAWS
    [] b.k = "text"  -> IF b.c = <<>> THEN 0 ELSE -1
    [] b.k = "date"  -> -1
    [] b.k = "bool"  -> IF b.b THEN OOS ELSE 0
    [] OTHER -> OOS
Flip(c) == IF c \in {-1, 0, 1} THEN -c ELSE c
IsNum(v) == v.k \in {"num", "numup"}
Cmp3(x, y) == LET a == Norm(x) b == Norm(y) IN
  CASE a.k = "blank" -> BlankVs(b)
    [] b.k = "blank" -> Flip(BlankVs(a))
    [] IsNum(a) /\ IsNum(b) -> LET r == Sign(a.n * b.d - b.n * a.d) IN
                                 IF a.k = b.k THEN r                       \* both exact, or both one step up
                                 ELSE IF a.k = "num" THEN (IF r <= 0 THEN -1 ELSE 1)      \* x <= y < up(y)
                                 ELSE (IF r >= 0 THEN 1 ELSE -1)
    [] a.k = "date" /\ b.k = "date" -> IF a.d # b.d THEN Sign(a.d - b.d) ELSE Sign(a.t - b.t)
    [] a.k = "text" /\ b.k = "text" -> LAWS
    [] OTHER -> OOS
\* the six booleans <, =, >, <>, <=, >= of a pinned three-way result
Six(c) == [LT |-> c < 0, EQ |-> c = 0, GT |-> c > 0, NE |-> c # 0, LE |-> c <= 0, GE |-> c >= 0]

\* ---- the laws, on six observed booleans o of (a,b) and w of (b,a) ----
ExactlyOne(p, q, r) == (p /\ ~q /\ ~r) \/ (~p /\ q /\ ~r) \/ (~p /\ ~q /\ r)
Trichotomy(o) == ExactlyOne(o.LT, o.EQ, o.GT)
Negations(o) == (o.NE = ~o.EQ) /\ (o.LE = ~o.GT) /\ (o.GE = ~o.LT)
Mirror(o, w) == (o.LT = w.GT) /\ (o.GT = w.LT) /\ (o.EQ = w.EQ)
Lawful(o, w) == Trichotomy(o) /\ Negations(o) /\ Trichotomy(w) /\ Negations(w) /\ Mirror(o, w)
FailedLaw(o, w) == IF ~Trichotomy(o) \/ ~Trichotomy(w) THEN "trichotomy: not exactly one of <, =, > holds"
                   ELSE IF ~Negations(o) \/ ~Negations(w) THEN "negation: <> / <= / >= is not the negation of = / > / <"
                   ELSE IF ~Mirror(o, w) THEN "mirror: a<b differs from b>a (or a=b from b=a)" ELSE ""
=============================================================================
