---------------------------- MODULE MC_XlCriteria ----------------------------
(* Laws of the criteria oracle over all (criterion, cell) pairs of the grid.          *)
EXTENDS XlCriteria, C12Grid, FiniteSets
VARIABLES crit, cell, ph
Init == crit \in Crits /\ cell = [k |-> "blank"] /\ ph = "shard"
Next == ph = "shard" /\ ph' = "case" /\ crit' = crit /\ cell' \in Cells
A == Accepts(crit, cell)
Neg(op) == CASE op = "EQ" -> "NE" [] op = "NE" -> "EQ" [] op = "GT" -> "LE" [] op = "LE" -> "GT" [] op = "LT" -> "GE" [] op = "GE" -> "LT"
\* <> is the complement of = on every cell; an ordering criterion and its negation partition the NUMERIC cells only
Flip(x) == IF x = "yes" THEN "no" ELSE IF x = "no" THEN "yes" ELSE x
Complement == (crit.op \in {"EQ", "NE"}) => Accepts([crit EXCEPT !.op = Neg(crit.op)], cell) = Flip(A)
OrderingOnlyNumbers == (crit.op \in Ordering /\ crit.operand.k = "num") =>
                         /\ (cell.k # "num" => A = "no")
                         /\ (cell.k = "num" => Accepts([crit EXCEPT !.op = Neg(crit.op)], cell) = Flip(A))
NumberCriterionRejectsText == (crit.operand.k = "num" /\ crit.op = "EQ" /\ cell.k # "num") => A = "no"
TextCriterionRejectsNumbers == (crit.operand.k = "text" /\ crit.op = "EQ" /\ cell.k = "num") => A = "no"
\* wildcard laws
PlainIsCaseInsensitiveEquality == (crit.operand.k = "text" /\ ~HasWildcard(crit.operand.c) /\ \A i \in 1..Len(crit.operand.c) : crit.operand.c[i] # TILDE
                                    /\ crit.op = "EQ" /\ cell.k = "text")
                                    => A = YN([i \in 1..Len(cell.c) |-> Lower(cell.c[i])] = [i \in 1..Len(crit.operand.c) |-> Lower(crit.operand.c[i])])
WildcardLaws == cell.k = "text" =>
   /\ TextEq(<<STAR>>, cell.c)
   /\ TextEq(<<QM, QM>>, cell.c) = (Len(cell.c) = 2)
   /\ TextEq(<<TILDE, STAR>>, cell.c) = (cell.c = <<STAR>>)
   /\ TextEq(<<STAR>> \o <<cell.c[Len(cell.c)]>>, cell.c)
\* selection is the conjunction over pairs
SelectionIsConjunction == LET col == <<cell, [k |-> "num", q |-> 20], [k |-> "blank"]>> c2 == [op |-> "GT", operand |-> [k |-> "num", q |-> 4]] IN
   LET s1 == Sel(<<col>>, <<crit>>, 3) s2 == Sel(<<col>>, <<c2>>, 3) s12 == Sel(<<col, col>>, <<crit, c2>>, 3) IN
   (s1 # {-1}) => s12 = s1 \cap s2
=============================================================================
