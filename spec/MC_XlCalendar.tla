---------------------------- MODULE MC_XlCalendar ----------------------------
(* The calendar oracle is validated against definitions that do not share its era   *)
(* arithmetic: stepping day by day and month by month.                               *)
EXTENDS XlCalendar
CONSTANTS Y0, Y1
VARIABLES s, k, ph
Lo == Serial(Y0, 1, 1)
Hi == Serial(Y1, 12, 31)
\* shard idiom: TLC computes initial states in one thread, successors in parallel
Init == s \in Lo..Hi /\ k = 0 /\ ph = "shard"
Next == ph = "shard" /\ ph' = "case" /\ s' = s /\ k' \in -14..27
c == Civil(s)
\* the day after (y,m,d), by the month-length table only
NextCivil(x) == IF x.d < DaysInMonth(x.y, x.m) THEN [x EXCEPT !.d = x.d + 1]
                ELSE IF x.m < 12 THEN [y |-> x.y, m |-> x.m + 1, d |-> 1] ELSE [y |-> x.y + 1, m |-> 1, d |-> 1]
CivilRoundTrip == Serial(c.y, c.m, c.d) = s /\ c.m \in 1..12 /\ c.d \in 1..DaysInMonth(c.y, c.m)
ConsecutiveDays == Civil(s + 1) = NextCivil(c)
Anchors == Serial(1899, 12, 30) = 0 /\ Serial(1900, 3, 1) = 61 /\ Serial(2024, 1, 1) = 45292 /\ Serial(9999, 12, 31) = 2958465
           /\ Weekday(Serial(2024, 1, 1)) = 2 /\ Weekday(Serial(2000, 1, 1)) = 0
\* DATE: the three defining laws (first of month, one more day, twelve more months)
DateNormLaws == /\ (k \in 1..12) => DateNorm(c.y, k, 1) = Serial(c.y, k, 1)
                /\ DateNorm(c.y, k, c.d + 1) = DateNorm(c.y, k, c.d) + 1
                /\ DateNorm(c.y, k + 12, c.d - 40) = DateNorm(c.y + 1, k, c.d - 40)
                /\ DateNorm(c.y, c.m, c.d) = s
YmdInvert == LET r == Civil(DateNorm(c.y, k, c.d - 35)) IN DateNorm(r.y, r.m, r.d) = DateNorm(c.y, k, c.d - 35)
\* EDATE / EOMONTH
EoMonthIsLast == LET e == Civil(EoMonth(s, k)) IN e.d = DaysInMonth(e.y, e.m) /\ Civil(EoMonth(s, k) + 1).d = 1
                 /\ 12 * e.y + e.m = 12 * c.y + c.m + k
EDateClamps == LET e == Civil(EDate(s, k)) IN 12 * e.y + e.m = 12 * c.y + c.m + k /\ e.d = Min(c.d, DaysInMonth(e.y, e.m))
EDateStepwise == (c.d <= 28) => EDate(EDate(s, k), 1) = EDate(s, k + 1)
\* DATEDIF: M is the largest k whose un-clamped anniversary is not after the end date
DateDifDefinitions == LET t == s + 17 * (k + 14) IN
   /\ DateDif("D", s, t) = t - s
   /\ LET mth == DateDif("M", s, t) a == Civil(s) IN
        /\ mth >= 0
        /\ DateNorm(a.y, a.m + mth, a.d) <= t \/ AmbiguousMonths(s, t) \/ a.d > 28
        /\ DateNorm(a.y, a.m + mth + 1, a.d) > t
        /\ DateDif("Y", s, t) * 12 + DateDif("YM", s, t) = mth /\ DateDif("YM", s, t) \in 0..11
\* NETWORKDAYS
H3 == {s + 2, s + 3, s + 11}
NetworkDaysLaws == LET t == s + (k + 14) IN
   /\ NetworkDays(s, t, H3) = -NetworkDays(t, s, H3) \/ s = t
   /\ NetworkDays(s, s + 6, {}) = 5
   /\ NetworkDays(s, t + 7, {}) = NetworkDays(s, t, {}) + 5
   /\ NetworkDays(s, t, H3) = NetworkDays(s, t, {}) - Cardinality({h \in H3 : h <= t /\ IsWorkday(h)})
=============================================================================
