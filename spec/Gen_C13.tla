------------------------------- MODULE Gen_C13 -------------------------------
(* Direction A for C13: all nests of depth <= 1 and the depth-2 nests with exactly   *)
(* one nested child (the other children leaves), each with its value under every      *)
(* truth assignment of the 3 conditions, bare and embedded in a larger expression.    *)
(* TLC also checks on every enumerated nest the laws of the statement:                 *)
(*   UntakenBranchIrrelevant, IfErrorPassThrough, IfsFirstTrue, IfsNoneIsNA.            *)
EXTENDS XlLogic, Json
CONSTANTS Depth, Sample
VARIABLE st
Conds == {[t |-> "cond", i |-> 1], [t |-> "cond", i |-> 2], [t |-> "cond", i |-> 3]}
Leaves == {[t |-> "num", n |-> 7], [t |-> "num", n |-> 9], [t |-> "fail"], [t |-> "na"], [t |-> "blank"], [t |-> "text"], [t |-> "failref"], [t |-> "failcat"], [t |-> "failcmp"]}
If3(c, a, b) == [t |-> "if3", c |-> c, a |-> a, b |-> b]
If2(c, a) == [t |-> "if2", c |-> c, a |-> a]
Ifs(ps) == [t |-> "ifs", ps |-> ps]
IfErr(x, f) == [t |-> "iferror", x |-> x, f |-> f]
\* nests whose children are taken from S (conditions are always condition cells)
Over(S) == {If3(c, a, b) : c \in Conds, a \in S, b \in S} \cup {If2(c, a) : c \in Conds, a \in S}
           \cup {Ifs(<<<<c, a>>>>) : c \in Conds, a \in S}
           \cup {Ifs(<<<<c, a>>, <<d, b>>>>) : c \in Conds, d \in Conds, a \in S, b \in S}
           \cup {IfErr(x, f) : x \in S, f \in S}
T1 == Over(Leaves)
\* the nested child of a depth-2 nest: all of T1, or (Sample) the nests over two leaves only
InnerSet(sample) == IF sample THEN Over({[t |-> "num", n |-> 7], [t |-> "failref"]}) ELSE T1
OuterLeaves == IF Sample THEN {[t |-> "num", n |-> 9], [t |-> "na"]} ELSE Leaves
\* exactly one nested child
\* (an operator with a parameter: TLC evaluates zero-arity constant definitions eagerly at start-up, which costs minutes for the full set)
OneNestedOf(Inner) == {If3(c, a, b) : c \in Conds, a \in Inner, b \in OuterLeaves} \cup {If3(c, a, b) : c \in Conds, a \in OuterLeaves, b \in Inner}
             \cup {If2(c, a) : c \in Conds, a \in Inner}
             \cup {Ifs(<<<<c, a>>, <<d, b>>>>) : c \in Conds, d \in Conds, a \in Inner, b \in OuterLeaves}
             \cup {Ifs(<<<<c, a>>, <<d, b>>>>) : c \in Conds, d \in Conds, a \in OuterLeaves, b \in Inner}
             \cup {IfErr(x, f) : x \in Inner, f \in OuterLeaves} \cup {IfErr(x, f) : x \in OuterLeaves, f \in Inner}
Envs == [1..3 -> BOOLEAN]
EnvSeq == <<<<FALSE, FALSE, FALSE>>, <<FALSE, FALSE, TRUE>>, <<FALSE, TRUE, FALSE>>, <<FALSE, TRUE, TRUE>>,
            <<TRUE, FALSE, FALSE>>, <<TRUE, FALSE, TRUE>>, <<TRUE, TRUE, FALSE>>, <<TRUE, TRUE, TRUE>>>>
Vals(a) == [e \in 1..8 |-> Eval(a, EnvSeq[e])]
Row(a) == [ast |-> a, vals |-> Vals(a), emb |-> [k \in 1..(Len(EmbKinds) - 1) |-> [e \in 1..8 |-> Embed(EmbKinds[k + 1], Eval(a, EnvSeq[e]))]]]
\* ---- the statement's laws on the enumerated nest (checked as invariants on every case state) ----
Swap(a) == CASE a.t = "if3" -> <<If3(a.c, a.a, [t |-> "fail"]), If3(a.c, [t |-> "fail"], a.b)>> [] OTHER -> <<a, a>>
UntakenBranchIrrelevant(a) == a.t = "if3" =>
   \A e \in 1..8 : LET c == Eval(a.c, EnvSeq[e]) IN
      IF Truthy(c) THEN Eval(Swap(a)[1], EnvSeq[e]) = Eval(a, EnvSeq[e]) ELSE Eval(Swap(a)[2], EnvSeq[e]) = Eval(a, EnvSeq[e])
IfErrorPassThrough(a) == a.t = "iferror" =>
   \A e \in 1..8 : LET x == Eval(a.x, EnvSeq[e]) IN IF IsErr(x) THEN Eval(a, EnvSeq[e]) = Eval(a.f, EnvSeq[e])
                                                      ELSE Eval(a, EnvSeq[e]) = x /\ Eval(IfErr(a.x, [t |-> "fail"]), EnvSeq[e]) = x
IfsFirstTrue(a) == a.t = "ifs" =>
   \A e \in 1..8 : LET T == {i \in 1..Len(a.ps) : EnvSeq[e][a.ps[i][1].i]} IN
      IF T = {} THEN Eval(a, EnvSeq[e]) = Err("NA") ELSE Eval(a, EnvSeq[e]) = Eval(a.ps[CHOOSE i \in T : \A j \in T : i <= j][2], EnvSeq[e])
Laws == st.ph = "case" => (UntakenBranchIrrelevant(st.a) /\ IfErrorPassThrough(st.a) /\ IfsFirstTrue(st.a))
Init == \E c \in Conds : st = [ph |-> "shard", c |-> c]
Mentions(a, c) == (a.t \in {"if3", "if2"} /\ a.c = c) \/ (a.t = "ifs" /\ a.ps[1][1] = c) \/ (a.t = "iferror" /\ c.i = 1)
Next == /\ st.ph = "shard"
        /\ \E a \in (IF Depth = 1 THEN T1 ELSE OneNestedOf(InnerSet(Sample))) :
             /\ Mentions(a, st.c)
             /\ st' = [ph |-> "case", a |-> a]
             /\ PrintT(ToJson(Row(a)))
=============================================================================
