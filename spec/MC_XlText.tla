------------------------------ MODULE MC_XlText ------------------------------
(* The substring algebra of the statement, checked on the oracle for every text up   *)
(* to length L over the alphabet and every n, k in -1..L+2; SEARCH against a naive   *)
(* definition; VALUE inverts the text form on the numeric grid.                       *)
EXTENDS XlText
CONSTANTS Alphabet, L
VARIABLES t, f, n, k, ph
RECURSIVE Texts(_)
Texts(len) == IF len = 0 THEN {<<>>} ELSE LET S == Texts(len - 1) IN S \cup {Append(x, a) : x \in {y \in S : Len(y) = len - 1}, a \in Alphabet}
\* shard idiom: TLC computes initial states in one thread, successors in parallel
Init == t \in Texts(L) /\ f = <<>> /\ n = 0 /\ k = 0 /\ ph = "shard"
Next == ph = "shard" /\ ph' = "case" /\ t' = t /\ f' \in Texts(2) /\ n' \in -1..(L + 2) /\ k' \in -1..(L + 2)
Rev(x) == [i \in 1..Len(x) |-> x[Len(x) + 1 - i]]
LeftMidRebuild == (0 <= n /\ n < Len(t)) => Left(t, n).c \o Mid(t, n + 1, Len(t)).c = t
LeftLen == (n >= 0) => (Len(Left(t, n).c) = Min(n, Len(t)) /\ \A i \in 1..Len(Left(t, n).c) : Left(t, n).c[i] = t[i])
RightMirror == (n >= 0) => Right(t, n).c = Rev(Left(Rev(t), n).c)
MidBounds == /\ (k < 1 \/ n < 0) => Mid(t, k, n) = Err
             /\ (k >= 1 /\ n >= 0 /\ k <= Len(t) + 1) => Mid(t, k, n).c = Left(Right(t, Len(t) - k + 1).c, n).c
             /\ (k > Len(t) /\ n >= 0) => Mid(t, k, n).c = <<>>
NegativeIsError == (n < 0) => (Left(t, n) = Err /\ Right(t, n) = Err)
\* SEARCH
HasWild(p) == \E i \in 1..Len(p) : p[i] \in {QM, STAR, TILDE}
LowerSeq(x) == [i \in 1..Len(x) |-> Lower(x[i])]
NaiveAt(p, x, pos) == pos + Len(p) - 1 <= Len(x) /\ LowerSeq(SubSeq(x, pos, pos + Len(p) - 1)) = LowerSeq(p)
SearchPlain == (~HasWild(f) /\ t # <<>> /\ n \in 1..Len(t)) =>
                 LET P == {p \in n..Len(t) : NaiveAt(f, t, p)} r == Search(f, t, n) IN
                 IF P = {} THEN r = Err ELSE r.k = "num" /\ r.n \in P /\ \A q \in P : r.n <= q
SearchStar == (t # <<>> /\ n \in 1..Len(t)) => (Search(<<STAR>>, t, n) = N(n) /\ Search(<<QM>>, t, n) = N(n)
                                              /\ Search(<<QM, QM>>, t, n) = IF n < Len(t) THEN N(n) ELSE Err)
SearchStartRange == (t # <<>> /\ (n < 1 \/ n > Len(t)) /\ TildesOk(f, 1)) => Search(f, t, n) = Err
SearchTilde == (t # <<>> /\ n \in 1..Len(t)) =>
                 LET r == Search(<<TILDE, STAR>>, t, n) P == {p \in n..Len(t) : t[p] = STAR} IN IF P = {} THEN r = Err ELSE r.n \in P
\* VALUE o text form = identity on the numeric grid
ValueInverts == \A m \in {-1205, -30, -7, 0, 5, 12, 125, 1001, 99999} : \A s \in 0..3 :
                  LET v == Normalize(m, s) IN Value(DecText(v.m, v.s)) = v
=============================================================================
