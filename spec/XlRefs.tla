------------------------------- MODULE XlRefs -------------------------------
(* C02: the text of a reference and the cells it denotes.                            *)
(* A reference (structured):                                                          *)
(*   [pre, c1, r1, c2, r2, shape, d]   pre: 0 = no prefix, otherwise index into Titles *)
(*   shape in "cell" | "area" | "wcol" (whole columns c1..c2, rows unused)             *)
(*   d = <<dc1, dr1, dc2, dr2>> booleans: $ before column / row of each endpoint        *)
(* Titles: sequence of [t |-> text (sequence of codes), q |-> must be quoted].           *)
(* Denote gives the coordinates <<sheet, col, row>> in row-major order; for whole        *)
(* columns the rows 1..nrows[sheet] of the sheet's used range.                           *)
EXTENDS XlLookup
\* ---- printing (as sequences of character codes, the form the parser below reads) ----
RECURSIVE ColCodes(_)
ColCodes(n) == IF n <= 26 THEN <<64 + n>> ELSE ColCodes((n - 1) \div 26) \o <<65 + ((n - 1) % 26)>>
RECURSIVE NatCodes(_)
NatCodes(n) == IF n < 10 THEN <<48 + n>> ELSE NatCodes(n \div 10) \o <<48 + (n % 10)>>
Dollar(b) == IF b THEN <<36>> ELSE <<>>
EndCodes(c, r, dc, dr) == Dollar(dc) \o ColCodes(c) \o Dollar(dr) \o NatCodes(r)
BodyCodes(ref) == CASE ref.shape = "cell" -> EndCodes(ref.c1, ref.r1, ref.d[1], ref.d[2])
                    [] ref.shape = "area" -> EndCodes(ref.c1, ref.r1, ref.d[1], ref.d[2]) \o <<58>> \o EndCodes(ref.c2, ref.r2, ref.d[3], ref.d[4])
                    [] ref.shape = "wcol" -> Dollar(ref.d[1]) \o ColCodes(ref.c1) \o <<58>> \o Dollar(ref.d[3]) \o ColCodes(ref.c2)
\* titles: sequence of [t |-> codes, q |-> BOOLEAN (needs quotes)]; quoteAnyway spells a word title in quotes too
\* inside a quoted title an apostrophe is written twice ('It''s'!A1 names the sheet It's)
RECURSIVE Doubled(_)
Doubled(t) == IF t = <<>> THEN <<>> ELSE (IF Head(t) = 39 THEN <<39, 39>> ELSE <<Head(t)>>) \o Doubled(Tail(t))
PrefixCodes(ref, titles, quoteAnyway) == IF ref.pre = 0 THEN <<>>
   ELSE IF titles[ref.pre].q \/ quoteAnyway THEN <<39>> \o Doubled(titles[ref.pre].t) \o <<39, 33>> ELSE titles[ref.pre].t \o <<33>>
RefCodes(ref, titles, quoteAnyway) == PrefixCodes(ref, titles, quoteAnyway) \o BodyCodes(ref)
\* ---- denotation ----
SheetOf(ref, own) == IF ref.pre = 0 THEN own ELSE ref.pre
Denote(ref, own, nrows) ==
  LET s == SheetOf(ref, own)
      ra == IF ref.shape = "wcol" THEN 1 ELSE ref.r1
      rb == IF ref.shape = "wcol" THEN nrows[s] ELSE IF ref.shape = "cell" THEN ref.r1 ELSE ref.r2
      cb == IF ref.shape = "cell" THEN ref.c1 ELSE ref.c2
      w == cb - ref.c1 + 1
      n == (rb - ra + 1) * w
  IN [i \in 1..n |-> <<s, ref.c1 + ((i - 1) % w), ra + (i - 1) \div w>>]
Rows(ref, own, nrows) == IF ref.shape = "wcol" THEN nrows[SheetOf(ref, own)] ELSE IF ref.shape = "cell" THEN 1 ELSE ref.r2 - ref.r1 + 1
ColsOf(ref) == IF ref.shape = "cell" THEN 1 ELSE ref.c2 - ref.c1 + 1

\* ---- parsing the text of a reference (sequence of character codes) ----
\* grammar:  [ 'title' ! | word ! ]  [$] LETTERS [$] DIGITS  [ : [$] LETTERS [$] DIGITS ]   |   [prefix] [$] LETTERS : [$] LETTERS
IsUpper(c) == c \in 65..90
IsDigit(c) == c \in 48..57
RECURSIVE TakeUpper(_, _), TakeDigits(_, _)
TakeUpper(t, i) == IF i <= Len(t) /\ IsUpper(t[i]) THEN TakeUpper(t, i + 1) ELSE i
TakeDigits(t, i) == IF i <= Len(t) /\ IsDigit(t[i]) THEN TakeDigits(t, i + 1) ELSE i
RECURSIVE LettersVal(_, _, _)
LettersVal(t, i, j) == IF i >= j THEN 0 ELSE LettersVal(t, i, j - 1) * 26 + (t[j - 1] - 64)
RECURSIVE DigitsVal(_, _, _)
DigitsVal(t, i, j) == IF i >= j THEN 0 ELSE DigitsVal(t, i, j - 1) * 10 + (t[j - 1] - 48)
Bad == [ok |-> FALSE]
\* one endpoint starting at i: -> [ok, dc, c, dr, r (0 = no row), next]
Endpoint(t, i) ==
  LET dc == i <= Len(t) /\ t[i] = 36
      a == IF dc THEN i + 1 ELSE i
      b == TakeUpper(t, a)
      dr == b <= Len(t) /\ t[b] = 36 /\ b + 1 <= Len(t) /\ IsDigit(t[b + 1])
      e == IF dr THEN b + 1 ELSE b
      f == TakeDigits(t, e)
  IN IF b = a \/ b - a > 3 THEN Bad ELSE [ok |-> TRUE, dc |-> dc, c |-> LettersVal(t, a, b), dr |-> dr, r |-> DigitsVal(t, e, f), next |-> f]
RECURSIVE FindFrom(_, _, _)
FindFrom(t, i, ch) == IF i > Len(t) THEN 0 ELSE IF t[i] = ch THEN i ELSE FindFrom(t, i + 1, ch)
\* prefix: -> [ok, title (sequence of codes; <<>> = none), next]
\* end of a quoted title that starts at i: the first apostrophe that is not followed by another one (a doubled one stands for itself)
RECURSIVE CloseQuote(_, _)
CloseQuote(t, i) == IF i > Len(t) THEN 0 ELSE IF t[i] # 39 THEN CloseQuote(t, i + 1)
                    ELSE IF i < Len(t) /\ t[i + 1] = 39 THEN CloseQuote(t, i + 2) ELSE i
RECURSIVE Undoubled(_)
Undoubled(t) == IF t = <<>> THEN <<>> ELSE IF Len(t) >= 2 /\ t[1] = 39 /\ t[2] = 39 THEN <<39>> \o Undoubled(SubSeq(t, 3, Len(t))) ELSE <<Head(t)>> \o Undoubled(Tail(t))
Prefix(t) ==
  IF Len(t) > 0 /\ t[1] = 39
  THEN LET q == CloseQuote(t, 2) IN IF q = 0 \/ q = Len(t) \/ t[q + 1] # 33 THEN Bad ELSE [ok |-> TRUE, title |-> Undoubled(SubSeq(t, 2, q - 1)), has |-> TRUE, next |-> q + 2]
  ELSE LET b == FindFrom(t, 1, 33) IN IF b = 0 THEN [ok |-> TRUE, title |-> <<>>, has |-> FALSE, next |-> 1]
                                       ELSE [ok |-> TRUE, title |-> SubSeq(t, 1, b - 1), has |-> TRUE, next |-> b + 1]
TitleIndex(titles, tt) == IF \E i \in 1..Len(titles) : titles[i] = tt THEN CHOOSE i \in 1..Len(titles) : titles[i] = tt ELSE 0
\* -> [ok |-> FALSE] (not a reference), [ok |-> TRUE, unknown |-> TRUE] (title not in the workbook), or the structured reference
ParseRef(t, titles) ==
  LET p == Prefix(t) IN
  IF ~p.ok THEN Bad
  ELSE LET e1 == Endpoint(t, p.next) IN
    IF ~e1.ok THEN Bad
    ELSE LET pre == IF p.has THEN TitleIndex(titles, p.title) ELSE 0 IN
      IF p.has /\ pre = 0 THEN [ok |-> TRUE, unknown |-> TRUE]
      ELSE IF e1.next > Len(t)
           THEN IF e1.r = 0 THEN Bad ELSE [ok |-> TRUE, unknown |-> FALSE, pre |-> pre, c1 |-> e1.c, r1 |-> e1.r, c2 |-> e1.c, r2 |-> e1.r, shape |-> "cell"]
      ELSE IF t[e1.next] # 58 THEN Bad
      ELSE LET e2 == Endpoint(t, e1.next + 1) IN
           IF ~e2.ok \/ e2.next # Len(t) + 1 THEN Bad
           ELSE IF e1.r = 0 /\ e2.r = 0 THEN [ok |-> TRUE, unknown |-> FALSE, pre |-> pre, c1 |-> e1.c, r1 |-> 0, c2 |-> e2.c, r2 |-> 0, shape |-> "wcol"]
           ELSE IF e1.r = 0 \/ e2.r = 0 THEN Bad
           ELSE [ok |-> TRUE, unknown |-> FALSE, pre |-> pre, c1 |-> e1.c, r1 |-> e1.r, c2 |-> e2.c, r2 |-> e2.r, shape |-> "area"]
=============================================================================
