------------------------------ MODULE XlLookup ------------------------------
(* C14: lookup and reference functions.  Keys are integers or texts (sequences of  *)
(* codes); results are positions / table values as integers, NA (-1) for #N/A,      *)
(* REF (-3) for #REF!, ERR (-4) for "some error value", OOS (-2) where the statement *)
(* pins nothing (approximate matching on keys that are not ascending, text keys that *)
(* differ only in case, INDEX with a zero index).                                    *)
EXTENDS Integers, Sequences, FiniteSets, TLC
NA == -1  OOS == -2  REF == -3  ERR == -4

Lower(c) == IF c \in 65..90 THEN c + 32 ELSE c
IsText(k) == k \in Seq(Int) \/ k = <<>>
LowerSeq(x) == [i \in 1..Len(x) |-> Lower(x[i])]
\* keys of one kind only: integers, or texts
CaseClash(v, keys) == \E i \in 1..Len(keys) : keys[i] # v /\ LowerSeq(keys[i]) = LowerSeq(v)
Ascending(keys) == \A i \in 1..(Len(keys) - 1) : keys[i] <= keys[i + 1]
Hits(v, keys) == {i \in 1..Len(keys) : keys[i] = v}
\* text keys: equal when they differ in case only (Excel's equality of texts)
HitsT(v, keys) == {i \in 1..Len(keys) : LowerSeq(keys[i]) = LowerSeq(v)}
MinOf(S) == CHOOSE x \in S : \A y \in S : x <= y
MaxOf(S) == CHOOSE x \in S : \A y \in S : x >= y
\* exact matching: first (or, searching from the end, last) row whose key equals v
ExactFirst(v, keys) == IF Hits(v, keys) = {} THEN NA ELSE MinOf(Hits(v, keys))
ExactLast(v, keys) == IF Hits(v, keys) = {} THEN NA ELSE MaxOf(Hits(v, keys))
ExactFirstT(v, keys) == IF HitsT(v, keys) = {} THEN NA ELSE MinOf(HitsT(v, keys))
ExactLastT(v, keys) == IF HitsT(v, keys) = {} THEN NA ELSE MaxOf(HitsT(v, keys))
\* approximate matching on ascending integer keys: last row whose key is not greater than v
ApproxRow(v, keys) == IF ~Ascending(keys) THEN OOS
                      ELSE LET S == {i \in 1..Len(keys) : keys[i] <= v} IN IF S = {} THEN NA ELSE MaxOf(S)
\* ---- numeric key columns with blank cells: the key value 0 marks a blank cell of the key range; a blank is never a key ----
IsKeyB(k) == k # 0
AscendingB(keys) == \A i \in 1..Len(keys), j \in 1..Len(keys) : (i < j /\ IsKeyB(keys[i]) /\ IsKeyB(keys[j])) => keys[i] <= keys[j]
HitsB(v, keys) == {i \in 1..Len(keys) : IsKeyB(keys[i]) /\ keys[i] = v}
ExactFirstB(v, keys) == IF HitsB(v, keys) = {} THEN NA ELSE MinOf(HitsB(v, keys))
ExactLastB(v, keys) == IF HitsB(v, keys) = {} THEN NA ELSE MaxOf(HitsB(v, keys))
ApproxRowB(v, keys) == IF ~AscendingB(keys) THEN OOS
                       ELSE LET S == {i \in 1..Len(keys) : IsKeyB(keys[i]) /\ keys[i] <= v} IN IF S = {} THEN NA ELSE MaxOf(S)
\* table value of row i, column c: position dependent, so that the partner is identifiable
Cell(i, c) == 100 * i + c
ValueAt(row, c) == IF row < 0 THEN row ELSE Cell(row, c)
\* INDEX on an area of rows x cols holding Cell(r, c)
Index(rows, cols, r, c) == IF r = 0 \/ c = 0 THEN OOS ELSE IF r < 0 \/ c < 0 THEN ERR ELSE IF r > rows \/ c > cols THEN REF ELSE Cell(r, c)

\* ---- column letters (bijective base 26) and ADDRESS ----
Letters == <<"A", "B", "C", "D", "E", "F", "G", "H", "I", "J", "K", "L", "M", "N", "O", "P", "Q", "R", "S", "T", "U", "V", "W", "X", "Y", "Z">>
RECURSIVE ColLetters(_)
ColLetters(n) == IF n <= 26 THEN Letters[n] ELSE ColLetters((n - 1) \div 26) \o Letters[((n - 1) % 26) + 1]
Digit == <<"0", "1", "2", "3", "4", "5", "6", "7", "8", "9">>
RECURSIVE NatStr(_)
NatStr(n) == IF n < 10 THEN Digit[n + 1] ELSE NatStr(n \div 10) \o Digit[(n % 10) + 1]
Address(r, c) == "$" \o ColLetters(c) \o "$" \o NatStr(r)
\* column number of a column spelled by 1..3 letter indices
ColNumber(ls) == IF Len(ls) = 1 THEN ls[1] ELSE IF Len(ls) = 2 THEN 26 * ls[1] + ls[2] ELSE 676 * ls[1] + 26 * ls[2] + ls[3]
\* COLUMN(reference): the number of the reference's first column; a cell evaluates to ONE value (no spilling: the cells beside the
\* formula keep their own content - the frame condition the generator exports as "neighbours unchanged")
ColumnOfArea(c1, c2) == c1
=============================================================================
