------------------------------ MODULE Trace_C20 ------------------------------
(* Direction B for C20: a names event {ev |-> "names", a, b} and call events            *)
(* {ev |-> "call", h, da, db} (digests of the two outcomes); every event must satisfy     *)
(* Runtime2.Agree / SameHelpers.  <<"V", l, helper>> is printed for every disagreement.   *)
EXTENDS Runtime2, Json, IOUtils
VARIABLE l
Log == JsonDeserialize(IOEnv.TRACE_FILE).events
Init == l = 1
Step == /\ l <= Len(Log)
        /\ LET e == Log[l] IN
             IF e.ev = "names" THEN (IF SameHelpers(e.a, e.b) THEN TRUE ELSE PrintT(<<"N", l, OnlyIn(e.a, e.b), OnlyIn(e.b, e.a)>>))
             ELSE (IF Agree(e) THEN TRUE ELSE PrintT(<<"V", l, e.h>>))
        /\ l' = l + 1
        /\ (l' = Len(Log) + 1) => PrintT(<<"DONE", l'>>)
Spec == Init /\ [][Step]_l
=============================================================================
