------------------------------ MODULE Gen_C01Lit ------------------------------
(* C01, numeric-literal clause: a literal denotes the double nearest to its decimal *)
(* text.  The specification enumerates literal texts  int[.frac][e[-]x]  and states  *)
(* the exact decimal  m * 10^-s  each denotes (s may be negative for positive       *)
(* exponents); "nearest double" is then decided exactly by the abstraction function *)
(* (decimal mode).                                                                  *)
EXTENDS Integers, Sequences, TLC, Json
CONSTANT Thorough
VARIABLE c

D == <<"0", "1", "2", "3", "4", "5", "6", "7", "8", "9">>
RECURSIVE DigitsStr(_, _)
\* decimal digits of n, left-padded with zeros to width w
DigitsStr(n, w) == IF w = 0 THEN "" ELSE DigitsStr(n \div 10, w - 1) \o D[(n % 10) + 1]
RECURSIVE Nat2Str(_)
Nat2Str(n) == IF n < 10 THEN D[n + 1] ELSE Nat2Str(n \div 10) \o D[(n % 10) + 1]
Pow10(k) == CASE k = 0 -> 1 [] k = 1 -> 10 [] k = 2 -> 100 [] k = 3 -> 1000 [] k = 4 -> 10000 [] k = 5 -> 100000

Ints == IF Thorough THEN {0, 1, 2, 7, 9, 10, 19, 99, 100, 123, 999} ELSE {0, 1, 7, 19, 123}
\* fractional part: w digits, value f (so ".0f" with leading zeros); w = 0: no fraction
Fracs == {<<0, 0>>} \cup {<<w, f>> : w \in 1..(IF Thorough THEN 4 ELSE 3), f \in 0..999} \cup
         (IF Thorough THEN {<<4, f>> : f \in {1, 131, 1313, 2999, 4375, 5001, 7001, 9999, 125, 3125}} ELSE {})
NoExp == 99
Exps == {NoExp, 0, 1, 2, -1, -2, -3, -14, 16, 23}     \* 16, 23: beyond 2^53 - the literal is still the nearest DOUBLE, not an exact integer; -14: tiny magnitudes (their hundredth is below 1e-15)
FracOk(fr) == fr[2] < Pow10(fr[1]) \/ fr = <<0, 0>>

TextOf(i, fr, e) == Nat2Str(i) \o (IF fr[1] > 0 THEN "." \o DigitsStr(fr[2], fr[1]) ELSE "")
                    \o (IF e = NoExp THEN "" ELSE "e" \o (IF e < 0 THEN "-" \o Nat2Str(-e) ELSE Nat2Str(e)))
\* exact value m * 10^-s
MOf(i, fr) == i * Pow10(fr[1]) + fr[2]
SOf(fr, e) == fr[1] - (IF e = NoExp THEN 0 ELSE e)

Init == \E i \in Ints, fr \in Fracs, e \in Exps :
          /\ FracOk(fr)
          /\ c = [text |-> TextOf(i, fr, e), m |-> MOf(i, fr), s |-> SOf(fr, e)]
          /\ PrintT(ToJson(c))
Next == UNCHANGED c
\* the value law of the notation: appending "e1" multiplies by ten (s decreases by one); m stays below 2^31
ValueLaw == c.m >= 0 /\ c.m < 1000000000
=============================================================================
