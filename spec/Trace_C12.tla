------------------------------ MODULE Trace_C12 ------------------------------
(* Direction B for C12: events {cols, crits, n, obs (accepted positions as observed    *)
(* through a SUMIFS over a power-of-two target column, or <<-2>> = error outcome)}      *)
(* on random longer columns with 1..3 (range, criterion) pairs are judged by the         *)
(* specification: obs must be the conjunction of the per-pair acceptances.               *)
EXTENDS XlCriteria, Json, IOUtils
VARIABLE l
Log == JsonDeserialize(IOEnv.TRACE_FILE).events
SetOf(s) == {s[i] : i \in 1..Len(s)}
Init == l = 1
Step == /\ l <= Len(Log)
        /\ LET e == Log[l] sel == Sel(e.cols, e.crits, e.n) IN
             IF sel = {-1} \/ sel = SetOf(e.obs) THEN TRUE
             ELSE PrintT(<<"V", l, UNION {Guards(e.cols[p], e.crits[p], e.sps[p]) : p \in 1..Len(e.cols)}>>)
        /\ l' = l + 1
        /\ (l' = Len(Log) + 1) => PrintT(<<"DONE", l'>>)
Spec == Init /\ [][Step]_l
=============================================================================
