------------------------------ MODULE XlFormula ------------------------------
(* IDEAL operator grammar and evaluation (C01, C10, C13 share it).                *)
(* Precedence, tightest first:  postfix %  >  unary + -  >  * /  >  + -  >  &  >  *)
(* comparisons; equal levels associate to the left.                               *)
(* Values (XlValues, the universe shared with the harness' abstraction function): *)
(*   [k |-> "num", n, d]  exact rational        [k |-> "text", s]  Seq of 1-char strings *)
(*   [k |-> "bool", b]    [k |-> "blank"]       [k |-> "err", e]   e = OOS marks "outside  *)
(*   the scope the property pins down" (the harness skips such cases)             *)
EXTENDS Integers, Sequences, FiniteSets, TLC

RECURSIVE Gcd(_, _)
Gcd(a, b) == IF b = 0 THEN a ELSE Gcd(b, a % b)
Abs(x) == IF x < 0 THEN -x ELSE x
Rat(n, d) == LET g == Gcd(Abs(n), Abs(d)) s == IF d < 0 THEN -1 ELSE 1 IN
             IF n = 0 THEN [k |-> "num", n |-> 0, d |-> 1] ELSE [k |-> "num", n |-> s * (n \div g), d |-> s * (d \div g)]
IntV(n) == [k |-> "num", n |-> n, d |-> 1]
Text(s) == [k |-> "text", s |-> s]
Bool(b) == [k |-> "bool", b |-> b]
Blank == [k |-> "blank"]
Err(e) == [k |-> "err", e |-> e]
OOS == Err("OOS")
IsErr(v) == v.k = "err"
Big(v) == v.k = "num" /\ (Abs(v.n) > 1000000 \/ v.d > 10000)     \* keep every intermediate far below 2^31

RECURSIVE Digits(_)
Digits(n) == IF n < 10 THEN <<CASE n = 0 -> "0" [] n = 1 -> "1" [] n = 2 -> "2" [] n = 3 -> "3" [] n = 4 -> "4"
                                 [] n = 5 -> "5" [] n = 6 -> "6" [] n = 7 -> "7" [] n = 8 -> "8" [] n = 9 -> "9">>
             ELSE Digits(n \div 10) \o Digits(n % 10)
IntText(n) == IF n < 0 THEN <<"-">> \o Digits(-n) ELSE Digits(n)

\* ---- coercions ----
\* number of a value in arithmetic: blank counts as 0, TRUE/FALSE as 1/0, text is out of scope
XNum(v) == CASE v.k = "num" -> v [] v.k = "blank" -> IntV(0) [] v.k = "bool" -> IntV(IF v.b THEN 1 ELSE 0) [] OTHER -> OOS
XArith(op, a, b) ==
  IF IsErr(a) THEN a ELSE IF IsErr(b) THEN b
  ELSE LET x == XNum(a) y == XNum(b) IN
    IF IsErr(x) \/ IsErr(y) THEN OOS
    ELSE LET r == CASE op = "PLUS"  -> Rat(x.n * y.d + y.n * x.d, x.d * y.d)
                    [] op = "MINUS" -> Rat(x.n * y.d - y.n * x.d, x.d * y.d)
                    [] op = "MUL"   -> Rat(x.n * y.n, x.d * y.d)
                    [] op = "DIV"   -> IF y.n = 0 THEN Err("DIV0") ELSE Rat(x.n * y.d, x.d * y.n)
         IN IF Big(r) THEN OOS ELSE r
\* text form of an operand of & : integer -> digits, text -> itself, blank -> "", TRUE/FALSE -> upper-case words
XText(v) == CASE v.k = "text" -> v.s
              [] v.k = "num" -> IF v.d = 1 THEN IntText(v.n) ELSE <<"OOS">>
              [] v.k = "blank" -> <<>>
              [] v.k = "bool" -> IF v.b THEN <<"T", "R", "U", "E">> ELSE <<"F", "A", "L", "S", "E">>
XAmp(a, b) == IF IsErr(a) THEN a ELSE IF IsErr(b) THEN b
              ELSE LET s == XText(a) \o XText(b) IN IF \E i \in 1..Len(s) : s[i] = "OOS" THEN OOS ELSE Text(s)
\* comparison inside one kind (cross-kind comparisons are out of scope); blank is 0 / ""
Lt(a, b) == a.n * b.d < b.n * a.d
Eq(a, b) == a.n * b.d = b.n * a.d
CmpNum(op, a, b) == CASE op = "EQ" -> Eq(a, b) [] op = "NE" -> ~Eq(a, b) [] op = "LT" -> Lt(a, b) [] op = "GT" -> Lt(b, a)
                      [] op = "LE" -> ~Lt(b, a) [] op = "GE" -> ~Lt(a, b)
\* Comparisons across kinds follow Excel's order of kinds: every number < every text < FALSE < TRUE; a blank takes the kind of the
\* other side (0, "", FALSE).  Texts are equal when they differ in case only; the ORDER of two different texts is a collation
\* question and stays out of scope, except that the empty text precedes every other text.
LowerCh(ch) == CASE ch = "A" -> "a" [] ch = "B" -> "b" [] ch = "C" -> "c" [] OTHER -> ch
Fold(s) == [i \in 1..Len(s) |-> LowerCh(s[i])]
ByOrder(op, c) == CASE op = "EQ" -> c = 0 [] op = "NE" -> c # 0 [] op = "LT" -> c < 0 [] op = "GT" -> c > 0 [] op = "LE" -> c <= 0 [] op = "GE" -> c >= 0
KindRank(v) == CASE v.k = "num" -> 1 [] v.k = "text" -> 2 [] v.k = "bool" -> 3
BoolNum(v) == IF v.b THEN 1 ELSE 0
XCmp(op, a0, b0) ==
  IF IsErr(a0) THEN a0 ELSE IF IsErr(b0) THEN b0
  ELSE LET a == IF a0.k = "blank" /\ b0.k = "text" THEN Text(<<>>) ELSE IF a0.k = "blank" /\ b0.k = "bool" THEN Bool(FALSE) ELSE a0
           b == IF b0.k = "blank" /\ a0.k = "text" THEN Text(<<>>) ELSE IF b0.k = "blank" /\ a0.k = "bool" THEN Bool(FALSE) ELSE b0 IN
    IF a.k \in {"num", "blank"} /\ b.k \in {"num", "blank"} THEN Bool(CmpNum(op, XNum(a), XNum(b)))
    ELSE IF a.k = "text" /\ b.k = "text" THEN
         IF Fold(a.s) = Fold(b.s) THEN Bool(ByOrder(op, 0))
         ELSE IF op \in {"EQ", "NE"} THEN Bool(op = "NE")
         ELSE IF a.s = <<>> THEN Bool(ByOrder(op, -1)) ELSE IF b.s = <<>> THEN Bool(ByOrder(op, 1)) ELSE OOS
    ELSE IF a.k = "bool" /\ b.k = "bool" THEN Bool(ByOrder(op, BoolNum(a) - BoolNum(b)))
    ELSE Bool(ByOrder(op, KindRank(a) - KindRank(b)))

\* ---- tokens: strings. Operand tokens are looked up in env (a function on DOMAIN env); ----
\* operators: PLUS MINUS MUL DIV AMP PCT EQ NE LT GT LE GE LP RP
CmpOps == {"EQ", "NE", "LT", "GT", "LE", "GE"}
Fail == [ok |-> FALSE, v |-> IntV(0), p |-> 0]
Ok(v, p) == [ok |-> TRUE, v |-> v, p |-> p]
RECURSIVE PCmp(_, _, _), PCmpR(_, _, _, _), PCat(_, _, _), PCatR(_, _, _, _), PAdd(_, _, _), PAddR(_, _, _, _),
          PMul(_, _, _), PMulR(_, _, _, _), PUn(_, _, _), PPostR(_, _, _, _), PPrim(_, _, _)
PPrim(t, i, env) == IF i > Len(t) THEN Fail
  ELSE IF t[i] \in DOMAIN env THEN Ok(env[t[i]], i + 1)
  ELSE IF t[i] = "LP" THEN LET r == PCmp(t, i + 1, env) IN IF r.ok /\ r.p <= Len(t) /\ t[r.p] = "RP" THEN Ok(r.v, r.p + 1) ELSE Fail
  ELSE Fail
PPostR(t, i, v, env) == IF i <= Len(t) /\ t[i] = "PCT" THEN PPostR(t, i + 1, XArith("DIV", v, IntV(100)), env) ELSE Ok(v, i)
PPost(t, i, env) == LET r == PPrim(t, i, env) IN IF r.ok THEN PPostR(t, r.p, r.v, env) ELSE Fail
PUn(t, i, env) == IF i > Len(t) THEN Fail
  ELSE IF t[i] = "MINUS" THEN LET r == PUn(t, i + 1, env) IN IF r.ok THEN Ok(XArith("MINUS", IntV(0), r.v), r.p) ELSE Fail
  ELSE IF t[i] = "PLUS" THEN LET r == PUn(t, i + 1, env) IN IF r.ok THEN Ok(XArith("PLUS", IntV(0), r.v), r.p) ELSE Fail
  ELSE PPost(t, i, env)
PMulR(t, i, v, env) == IF i <= Len(t) /\ t[i] \in {"MUL", "DIV"}
  THEN LET r == PUn(t, i + 1, env) IN IF r.ok THEN PMulR(t, r.p, XArith(t[i], v, r.v), env) ELSE Fail ELSE Ok(v, i)
PMul(t, i, env) == LET r == PUn(t, i, env) IN IF r.ok THEN PMulR(t, r.p, r.v, env) ELSE Fail
PAddR(t, i, v, env) == IF i <= Len(t) /\ t[i] \in {"PLUS", "MINUS"}
  THEN LET r == PMul(t, i + 1, env) IN IF r.ok THEN PAddR(t, r.p, XArith(t[i], v, r.v), env) ELSE Fail ELSE Ok(v, i)
PAdd(t, i, env) == LET r == PMul(t, i, env) IN IF r.ok THEN PAddR(t, r.p, r.v, env) ELSE Fail
PCatR(t, i, v, env) == IF i <= Len(t) /\ t[i] = "AMP"
  THEN LET r == PAdd(t, i + 1, env) IN IF r.ok THEN PCatR(t, r.p, XAmp(v, r.v), env) ELSE Fail ELSE Ok(v, i)
PCat(t, i, env) == LET r == PAdd(t, i, env) IN IF r.ok THEN PCatR(t, r.p, r.v, env) ELSE Fail
PCmpR(t, i, v, env) == IF i <= Len(t) /\ t[i] \in CmpOps
  THEN LET r == PCat(t, i + 1, env) IN IF r.ok THEN PCmpR(t, r.p, XCmp(t[i], v, r.v), env) ELSE Fail ELSE Ok(v, i)
PCmp(t, i, env) == LET r == PCat(t, i, env) IN IF r.ok THEN PCmpR(t, r.p, r.v, env) ELSE Fail
\* value of a complete formula; [acc |-> FALSE] when the token sequence is not a formula of the operator grammar
Ideal(t, env) == LET r == PCmp(t, 1, env) IN IF r.ok /\ r.p = Len(t) + 1 THEN [acc |-> TRUE, v |-> r.v] ELSE [acc |-> FALSE, v |-> IntV(0)]

\* ---- Guards of open C01 findings: none.  (C01-F1 / C01-F2 - comparisons and & grouping only the operand to their left - were
\* repaired in the translator: operands and operators of one bracket level are collected first and grouped by Excel's precedence.)
Guards(t) == {}
=============================================================================
