----------------------------- MODULE TokenTables -----------------------------
(* Thread schedules for C09: the lazily initialised class-level token tables   *)
(* (BaseToken.subclasses / _SUBCLASSES, base_token.py:33-43) under concurrent  *)
(* first use.  Each thread executes, step by step,                              *)
(*    Check   : if cls._SUBCLASSES (non-empty) -> return it                     *)
(*    Compute : local list of all first-rank subclasses                         *)
(*    Assign  : cls._SUBCLASSES = local list                                    *)
(*    AppendUndef : cls._SUBCLASSES.append(UndefinedToken)  (re-reads the attr) *)
(*    Use     : membership test "token in CompositeBaseToken.subclasses()"      *)
(*              (composite_base_token.py:39)                                    *)
(* List objects are modelled by identity (one per computing thread): the class  *)
(* attribute points to one of them and appends go to whichever it points to.    *)
(* Claim checked for every interleaving: every membership answer a user thread  *)
(* can compute equals the answer on the completed table, so translation results *)
(* cannot depend on the schedule.                                               *)
EXTENDS Naturals, FiniteSets, TLC

CONSTANTS Threads, Composite      \* Composite: the composite token classes (what Use asks about)

VARIABLES pc,        \* pc[t] \in {"check","compute","assign","append","use","done"}
          attr,      \* which list object the class attribute points to ("empty" = the initial [] of BaseToken)
          lists,     \* lists[t]: content of the list object created by thread t: [members, undef count]
          ret,       \* ret[t]: list object returned to thread t
          answers    \* answers[t]: set of classes the thread found to be members

vars == <<pc, attr, lists, ret, answers>>
NoList == [members |-> {}, undef |-> 0]

Init == /\ pc = [t \in Threads |-> "check"] /\ attr = "empty"
        /\ lists = [t \in Threads |-> NoList]
        /\ ret = [t \in Threads |-> "empty"] /\ answers = [t \in Threads |-> {}]

Content(o) == IF o = "empty" THEN NoList ELSE lists[o]

Check(t) == /\ pc[t] = "check"
            /\ IF Content(attr).members # {} \/ Content(attr).undef > 0      \* "if not cls._SUBCLASSES"
               THEN pc' = [pc EXCEPT ![t] = "use"] /\ ret' = [ret EXCEPT ![t] = attr]
               ELSE pc' = [pc EXCEPT ![t] = "compute"] /\ ret' = ret
            /\ UNCHANGED <<attr, lists, answers>>

Compute(t) == /\ pc[t] = "compute"
              /\ lists' = [lists EXCEPT ![t] = [members |-> Composite, undef |-> 0]]
              /\ pc' = [pc EXCEPT ![t] = "assign"] /\ UNCHANGED <<attr, ret, answers>>

Assign(t) == /\ pc[t] = "assign" /\ attr' = t
             /\ pc' = [pc EXCEPT ![t] = "append"] /\ UNCHANGED <<lists, ret, answers>>

\* cls._SUBCLASSES.append(UndefinedToken): the attribute is read again, so the append lands in
\* whichever list object is current; then "return cls._SUBCLASSES" reads it once more
AppendUndef(t) == /\ pc[t] = "append" /\ attr # "empty"
                  /\ lists' = [lists EXCEPT ![attr].undef = @ + 1]
                  /\ ret' = [ret EXCEPT ![t] = attr]
                  /\ pc' = [pc EXCEPT ![t] = "use"] /\ UNCHANGED <<attr, answers>>

Use(t) == /\ pc[t] = "use"
          /\ answers' = [answers EXCEPT ![t] = {c \in Composite : c \in Content(ret[t]).members}]
          /\ pc' = [pc EXCEPT ![t] = "done"] /\ UNCHANGED <<attr, lists, ret>>

Next == \E t \in Threads : Check(t) \/ Compute(t) \/ Assign(t) \/ AppendUndef(t) \/ Use(t)
Spec == Init /\ [][Next]_vars /\ WF_vars(Next)

TypeOK == /\ pc \in [Threads -> {"check", "compute", "assign", "append", "use", "done"}]
          /\ attr \in Threads \cup {"empty"}

\* every answer a finished user has computed is the answer of the completed table
UsersSeeEquivalentTable == \A t \in Threads : pc[t] = "done" => answers[t] = Composite
\* all threads finish and the published table is complete (it may hold UndefinedToken more than once,
\* which no lookup can observe)
Converges == <>[](\A t \in Threads : pc[t] = "done") /\ <>[](attr # "empty" /\ Content(attr).members = Composite /\ Content(attr).undef >= 1)
=============================================================================
