------------------------------ MODULE XlRounding ------------------------------
(* C16: ROUND / ROUNDUP / ROUNDDOWN and postfix % on exact decimals.                *)
(* A decimal is <<m, s>> = m * 10^-s  (m integer, s >= 0).  n is the digit count    *)
(* (negative: to the left of the decimal point).  Results are exact decimals; which *)
(* double a decimal denotes is the abstraction function's business (DESIGN 4).       *)
EXTENDS Integers, Sequences, TLC

RECURSIVE Pow10(_)
Pow10(k) == IF k <= 0 THEN 1 ELSE 10 * Pow10(k - 1)
Abs(x) == IF x < 0 THEN -x ELSE x
Sgn(x) == IF x < 0 THEN -1 ELSE 1
RECURSIVE Normalize(_, _)
Normalize(m, s) == IF s > 0 /\ m % 10 = 0 THEN Normalize(m \div 10, s - 1) ELSE <<m, s>>

\* quantum of n digits in units of 10^-s; 1 when the value already has at most n digits
Quantum(s, n) == Pow10(s - n)
RoundDownM(m, s, n) == LET q == Quantum(s, n) IN Sgn(m) * ((Abs(m) \div q) * q)
RoundUpM(m, s, n)   == LET q == Quantum(s, n) IN Sgn(m) * (((Abs(m) + q - 1) \div q) * q)
RoundM(m, s, n)     == LET q == Quantum(s, n) IN IF q = 1 THEN m ELSE Sgn(m) * (((Abs(m) + q \div 2) \div q) * q)
Apply(f, m, s, n) == CASE f = "ROUND" -> Normalize(RoundM(m, s, n), s)
                       [] f = "ROUNDUP" -> Normalize(RoundUpM(m, s, n), s)
                       [] f = "ROUNDDOWN" -> Normalize(RoundDownM(m, s, n), s)
                       [] f = "PCT" -> Normalize(m, s + 2)
Funs == {"ROUND", "ROUNDUP", "ROUNDDOWN"}
=============================================================================
