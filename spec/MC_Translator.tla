---- MODULE MC_Translator ----
EXTENDS Translator
====
