-------------------------------- MODULE E2P --------------------------------
(* END-TO-END SESSIONS (ideal): one translation of the generator workbook, used   *)
(* by SEVERAL executors at a time - bound to the class object (all of them share   *)
(* one Python class) or to the written file (every load builds a class of its      *)
(* own).  The properties speak of "an executor"; here it is said of all of them    *)
(* at once: what an executor reports is a function of the workbook and of the      *)
(* overrides supplied TO THAT EXECUTOR, whatever the other executors of the same   *)
(* translation were told before, in between or afterwards (C04), a new executor    *)
(* starts from the workbook itself - values, grids and sizes (C06: class object     *)
(* and file behave the same; C18: the class carries the workbook's sizes), and      *)
(* queries of one executor change nothing for any of them (C08).                    *)
EXTENDS Workbook4, TLC

CONSTANTS Execs,       \* executor identities
          WCoords,     \* coordinates a client may override
          Values       \* values it may write

VARIABLES live,        \* executors created so far
          ovs,         \* per executor: the overrides supplied to it
          obs          \* the last reply

vars == <<live, ovs, obs>>
Hows == {"object", "file"}

Sizes(o) == [s \in Sheets |-> SizeOf(s, o)]

Init == live = {} /\ ovs = [x \in Execs |-> EmptyOv] /\ obs = <<"nothing">>

\* Executor().set_executed_class(executed_class=K | class_file=F): a new instance of the translation
New(x, how) == /\ x \notin live
               /\ live' = live \cup {x} /\ ovs' = [ovs EXCEPT ![x] = EmptyOv]
               /\ obs' = <<"new", x, how, Sizes(EmptyOv)>>
\* the executor is forgotten (its instance with it)
Drop(x) == /\ x \in live /\ live' = live \ {x} /\ ovs' = [ovs EXCEPT ![x] = EmptyOv] /\ obs' = <<"drop", x>>
Set(x, c, v) == /\ x \in live /\ ovs' = [ovs EXCEPT ![x] = Apply(@, <<<<c, v>>>>)] /\ obs' = <<"set", x>> /\ UNCHANGED live
Get(x, c) == /\ x \in live /\ obs' = <<"get", x, c, Ev(c, ovs[x])>> /\ UNCHANGED <<live, ovs>>
GetSizes(x) == /\ x \in live /\ obs' = <<"sizes", x, Sizes(ovs[x])>> /\ UNCHANGED <<live, ovs>>
GetSheet(x, s) == /\ x \in live /\ obs' = <<"sheet", x, s, Grid(s, ovs[x])>> /\ UNCHANGED <<live, ovs>>
\* K() without an executor: a bare instance of the class object reports the workbook's sizes
Bare == obs' = <<"bare", Sizes(EmptyOv)>> /\ UNCHANGED <<live, ovs>>

Next == \/ \E x \in Execs, h \in Hows : New(x, h)
        \/ \E x \in Execs : Drop(x)
        \/ \E x \in Execs, c \in WCoords, v \in Values : Set(x, c, v)
        \/ \E x \in Execs, c \in AllCoords : Get(x, c)
        \/ \E x \in Execs : GetSizes(x)
        \/ \E x \in Execs, s \in Sheets : GetSheet(x, s)
        \/ Bare

Spec == Init /\ [][Next]_vars

\* ---- what the properties say, for several executors at once
\* C04 / isolation: a step of one executor leaves the overrides of every other executor alone
Isolation == [][\A x \in Execs : (ovs'[x] # ovs[x]) => (\A y \in Execs \ {x} : ovs'[y] = ovs[y])]_vars
\* a new executor starts from the workbook: nothing an earlier executor (alive or dropped) was told is visible
NewStartsFromWorkbook == [][\A x \in Execs : (x \notin live /\ x \in live') => ovs'[x] = EmptyOv]_vars
\* C08: queries change nothing
QueriesArePure == [][obs'[1] \in {"get", "sizes", "sheet", "bare"} => UNCHANGED <<live, ovs>>]_vars
\* an executor that was told nothing reports exactly the workbook, at any time
UntoldReportsWorkbook == \A x \in live : ovs[x] = EmptyOv => Sizes(ovs[x]) = [s \in Sheets |-> UsedSize[s]]
\* the whole-column cell follows the executor's OWN appended rows (Workbook4!S2D1 = SUM(S2!C:C))
WholeColumnFollowsOwnRows == \A x \in live : "S2C3" \in DOMAIN ovs[x] =>
                                Ev("S2D1", ovs[x]) = Arith("add", OvVal(ovs[x]["S2C3"]), Num(0))
=============================================================================
