------------------------------ MODULE Trace_C14 ------------------------------
(* Direction B for C14: events {f, keys, v, o} on random longer key columns:          *)
(*  f in EXACT (o = position of the first match), LAST (XMATCH from the end),           *)
(*  APPROX (ascending keys; position), VEXACT / VAPPROX (o = looked-up value of column  *)
(*  2), PARTNER (INDEX(values, MATCH(v, keys, 0))).  o: integer, NA = -1, other = -9.    *)
EXTENDS XlLookup, Json, IOUtils
VARIABLE l
Log == JsonDeserialize(IOEnv.TRACE_FILE).events
Ideal(e) == CASE e.f = "EXACT" -> ExactFirst(e.v, e.keys) [] e.f = "LAST" -> ExactLast(e.v, e.keys)
              [] e.f = "APPROX" -> ApproxRow(e.v, e.keys)
              [] e.f = "VEXACT" -> ValueAt(ExactFirst(e.v, e.keys), 2) [] e.f = "VAPPROX" -> ValueAt(ApproxRow(e.v, e.keys), 2)
              [] e.f = "PARTNER" -> LET r == ExactFirst(e.v, e.keys) IN IF r = NA THEN OOS ELSE ValueAt(r, 2)
Init == l = 1
Step == /\ l <= Len(Log)
        /\ LET e == Log[l] r == Ideal(e) IN IF r = OOS \/ r = e.o THEN TRUE ELSE PrintT(<<"V", l, r>>)
        /\ l' = l + 1
        /\ (l' = Len(Log) + 1) => PrintT(<<"DONE", l'>>)
Spec == Init /\ [][Step]_l
=============================================================================
