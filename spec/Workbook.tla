------------------------------ MODULE Workbook ------------------------------
(* C18 / C19: what the reader must deliver for a workbook, and what the safety gate  *)
(* must report.                                                                       *)
(* A workbook is a sequence of sheets; a sheet is [title, cells] with cells a set of   *)
(* [c, r, k] (1-based column, row, content kind).  Read gives the size of each sheet    *)
(* (bounding box of the stored cells) and the content seen at every coordinate.         *)
EXTENDS Integers, Sequences, FiniteSets, TLC
MaxOr0(S) == IF S = {} THEN 0 ELSE CHOOSE x \in S : \A y \in S : x >= y
SizeOf(sheet) == [cols |-> MaxOr0({x.c : x \in sheet.cells}), rows |-> MaxOr0({x.r : x \in sheet.cells})]
At(sheet, c, r) == IF \E x \in sheet.cells : x.c = c /\ x.r = r THEN (CHOOSE x \in sheet.cells : x.c = c /\ x.r = r).k ELSE "blank"
\* The tabs of a workbook file may also hold chart sheets: they are not worksheets, carry no cells and take no part in the
\* titles, indices and sizes the reader delivers.  chartAt = 0: no chart sheet; k > 0: one chart sheet just before the k-th worksheet.
Tabs(wb, chartAt) == IF chartAt = 0 THEN [i \in 1..Len(wb) |-> [chart |-> FALSE, title |-> wb[i].title]]
                     ELSE [i \in 1..(Len(wb) + 1) |-> IF i < chartAt THEN [chart |-> FALSE, title |-> wb[i].title]
                                                     ELSE IF i = chartAt THEN [chart |-> TRUE, title |-> "Chart"]
                                                     ELSE [chart |-> FALSE, title |-> wb[i - 1].title]]
WorksheetTitles(tabs) == LET ws == SelectSeq(tabs, LAMBDA t : ~t.chart) IN [i \in 1..Len(ws) |-> ws[i].title]
WellFormed(sheet) == \A x, y \in sheet.cells : (x.c = y.c /\ x.r = y.r) => x = y

\* ---- the safety gate (C19): texts are sequences of character codes ----
IsIdentCh(ch) == ch \in 48..57 \/ ch \in 65..90 \/ ch \in 97..122 \/ ch = 95
IsUpperCh(ch) == ch \in 65..90
RECURSIVE FindClose(_, _)
FindClose(t, i) == IF i > Len(t) THEN 0 ELSE IF t[i] = 41 THEN i ELSE FindClose(t, i + 1)
RECURSIVE IdentStart(_, _)
\* start of the identifier run ending at position i (i itself is an identifier character)
IdentStart(t, i) == IF i > 1 /\ IsIdentCh(t[i - 1]) THEN IdentStart(t, i - 1) ELSE i
\* call syntax: identifier characters immediately followed by "(" ... ")" ; fragments are found left to right, not overlapping
RECURSIVE Fragments(_, _)
Fragments(t, from) ==
  LET opens == {i \in from..Len(t) : t[i] = 40 /\ i > from - 0 /\ i > 1 /\ IsIdentCh(t[i - 1]) /\ IdentStart(t, i - 1) >= from /\ FindClose(t, i + 1) # 0}
  IN IF opens = {} THEN <<>>
     ELSE LET o == CHOOSE i \in opens : \A j \in opens : IdentStart(t, i - 1) <= IdentStart(t, j - 1)
              a == IdentStart(t, o - 1)
              z == FindClose(t, o + 1)
          IN <<SubSeq(t, a, z)>> \o Fragments(t, z + 1)
\* a fragment is an upper-case (Excel) function call when the identifier it starts with - the function's own name - consists of
\* upper-case letters and digits only and starts with a letter (SUM, LOG10, SUMX2MY2; not getX, not Sum, not eval)
IsDigitCh(ch) == ch \in 48..57
RECURSIVE NameEnd(_, _)
NameEnd(f, i) == IF i <= Len(f) /\ f[i] # 40 THEN NameEnd(f, i + 1) ELSE i        \* position of the first "("
HasUpperCall(f) == LET e == NameEnd(f, 1) IN
  e > 1 /\ e <= Len(f) /\ IsUpperCh(f[1]) /\ \A i \in 1..(e - 1) : IsUpperCh(f[i]) \/ IsDigitCh(f[i])
\* "listed" / "clean" / "oos" (a cell mixing upper-case calls with other call syntax is not pinned by the statement)
Judge(t) == LET fs == Fragments(t, 1) up == {i \in 1..Len(fs) : HasUpperCall(fs[i])} IN
  IF fs = <<>> THEN [v |-> "clean", fs |-> <<>>]
  ELSE IF up = {} THEN [v |-> "listed", fs |-> fs]
  ELSE IF up = 1..Len(fs) THEN [v |-> "clean", fs |-> <<>>]
  ELSE [v |-> "oos", fs |-> <<>>]
=============================================================================
