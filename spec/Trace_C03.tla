------------------------------ MODULE Trace_C03 ------------------------------
(* Direction B for C03: records {deps, entry, outcome, members} observed on real *)
(* translations of randomly generated (larger) dependency graphs are judged by   *)
(* the specification's own Closure / CyclicFrom.                                 *)
EXTENDS Naturals, Sequences, FiniteSets, TLC, Json, IOUtils
VARIABLES l
Log == JsonDeserialize(IOEnv.TRACE_FILE).events
T == INSTANCE Translator WITH Nodes <- {}, Variant <- "fixed", DepthCap <- 99, deps <- <<>>, entry <- 0,
                              stack <- <<>>, todo <- <<>>, ctx <- {}, status <- "run"
SeqToSet(s) == {s[i] : i \in 1..Len(s)}
Deps(ev) == [n \in 1..Len(ev.deps) |-> SeqToSet(ev.deps[n])]
Verdict(ev) ==
  LET d == Deps(ev) cyc == T!CyclicFrom(d, ev.entry) IN
  IF cyc THEN (IF ev.outcome = "lib" THEN "" ELSE "cyclic slice not rejected with the parser exception")
  ELSE IF ev.outcome # "ok" THEN "acyclic slice was not translated"
  ELSE IF SeqToSet(ev.members) # T!Closure(d, ev.entry) THEN "members differ from the dependency closure of the entry"
  ELSE ""
Init == l = 1
Step == /\ l <= Len(Log)
        /\ LET v == Verdict(Log[l]) IN IF v = "" THEN TRUE ELSE PrintT(<<"REJECT", l, 0, v>>)
        /\ l' = l + 1
        /\ (l' = Len(Log) + 1) => PrintT(<<"DONE", l'>>)
Spec == Init /\ [][Step]_l
=============================================================================
