------------------------- MODULE MC_ParserFacadeImpl -------------------------
EXTENDS ParserFacadeImpl
\* the workbooks whose translation raises: w3 holds a python-like cell, so it raises iff safety is on
McRaises == {<<"w3", e, TRUE>> : e \in Entries}
=============================================================================
