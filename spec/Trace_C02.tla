------------------------------ MODULE Trace_C02 ------------------------------
(* Direction B for C02: events {text (codes), titles, own, nrows, obs} recorded on     *)
(* random reference texts: obs is the sequence of coordinates <<sheet, col, row>> the    *)
(* real code read (in the order INDEX exposes them), or <<<<-1>>>> when the reference was *)
(* rejected.  The specification parses the text itself and computes the denotation.      *)
EXTENDS XlRefs, Json, IOUtils
VARIABLE l
Log == JsonDeserialize(IOEnv.TRACE_FILE).events
Verdict(e) == LET p == ParseRef(e.text, e.titles) IN
  IF ~p.ok THEN "oos"
  ELSE IF p.unknown THEN (IF e.obs = <<<<-1>>>> THEN "" ELSE "UNKNOWN_TITLE_RESOLVED")
  ELSE LET ref == [pre |-> p.pre, c1 |-> p.c1, r1 |-> p.r1, c2 |-> p.c2, r2 |-> p.r2, shape |-> p.shape] IN
       IF e.obs = Denote(ref, e.own, e.nrows) THEN "" ELSE "WRONG_CELLS"
Init == l = 1
Step == /\ l <= Len(Log)
        /\ LET v == Verdict(Log[l]) IN IF v = "" \/ v = "oos" THEN TRUE ELSE PrintT(<<"V", l, v>>)
        /\ l' = l + 1
        /\ (l' = Len(Log) + 1) => PrintT(<<"DONE", l'>>)
Spec == Init /\ [][Step]_l
=============================================================================
