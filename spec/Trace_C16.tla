------------------------------ MODULE Trace_C16 ------------------------------
(* Direction B for C16: events {f, m, s, n, om, os} recorded from the real code on   *)
(* random decimals (any scale <= 6, up to 9 significant digits); <<om, os>> is the    *)
(* observed result as an exact decimal (os = -1: not a finite decimal in range).      *)
EXTENDS XlRounding, Json, IOUtils
VARIABLE l
Log == JsonDeserialize(IOEnv.TRACE_FILE).events
Verdict(e) == LET r == Apply(e.f, e.m, e.s, e.n) IN
  IF e.os >= 0 /\ Normalize(e.om, e.os) = r THEN "" ELSE "DIFFERS"
Init == l = 1
Step == /\ l <= Len(Log)
        /\ LET v == Verdict(Log[l]) IN IF v = "" THEN TRUE ELSE PrintT(<<"V", l, v, Apply(Log[l].f, Log[l].m, Log[l].s, Log[l].n)>>)
        /\ l' = l + 1
        /\ (l' = Len(Log) + 1) => PrintT(<<"DONE", l'>>)
Spec == Init /\ [][Step]_l
=============================================================================
