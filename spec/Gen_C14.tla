------------------------------- MODULE Gen_C14 -------------------------------
(* Direction A for C14.                                                              *)
(*  LOOKUP : every key column (<= L over Keys) x every lookup value: rows for exact   *)
(*           VLOOKUP/MATCH/XMATCH (first), XMATCH from the end (last), approximate      *)
(*           VLOOKUP/MATCH (ascending keys only), INDEX(values, MATCH(.,.,0))           *)
(*  TEXT   : the same exact modes over text keys                                        *)
(*  INDEX  : rows x cols areas x every (r, c) in -1..rows+1 x -1..cols+1                *)
(*  ADDRESS: every column 1..16384 x rows {1, 10, 1048576}                              *)
EXTENDS XlLookup, Json
CONSTANTS Kind, Keys, L, Vals
VARIABLE st
RECURSIVE Seqs(_, _)
Seqs(K, n) == IF n = 0 THEN {<<>>} ELSE LET S == Seqs(K, n - 1) IN S \cup {Append(x, a) : x \in {y \in S : Len(y) = n - 1}, a \in K}
SetToSeq(S) == LET RECURSIVE F(_)
                   F(R) == IF R = {} THEN <<>> ELSE LET x == MinOf(R) IN <<x>> \o F(R \ {x})
               IN F(S)
ValSeq == SetToSeq(Vals)
TextKeys == {<<97>>, <<66>>, <<99>>}
TextVals == <<<<97>>, <<66>>, <<99>>, <<100>>, <<65>>, <<98>>>>
Row(keys, v, isText) ==
  LET ef == IF isText THEN ExactFirstT(v, keys) ELSE ExactFirst(v, keys)     \* text keys differing in case only ARE hits
      el == IF isText THEN ExactLastT(v, keys) ELSE ExactLast(v, keys)
      ap == IF isText THEN OOS ELSE ApproxRow(v, keys)
  IN [ef |-> ef, el |-> el, ap |-> ap, v2 |-> ValueAt(ef, 2), v3 |-> ValueAt(ef, 3), a2 |-> ValueAt(ap, 2)]
RowB(keys, v) ==
  LET ef == ExactFirstB(v, keys) el == ExactLastB(v, keys) ap == ApproxRowB(v, keys)
  IN [ef |-> ef, el |-> el, ap |-> ap, v2 |-> ValueAt(ef, 2), v3 |-> ValueAt(ef, 3), a2 |-> ValueAt(ap, 2)]
Init == st = [ph |-> "root"]
Next == /\ st.ph = "root"
        /\ \/ /\ Kind = "LOOKUP"
              /\ \E keys \in Seqs(Keys, L) \ {<<>>} :
                   /\ st' = [ph |-> "LOOKUP", keys |-> keys]
                   /\ PrintT(ToJson([f |-> "LOOKUP", keys |-> keys, vals |-> ValSeq, asc |-> Ascending(keys),
                                     rows |-> [i \in 1..Len(ValSeq) |-> Row(keys, ValSeq[i], FALSE)]]))
           \/ /\ Kind = "LOOKUPB"          \* numeric key columns with blank cells (0 = blank), at least one blank
              /\ \E keys \in Seqs(Keys \cup {0}, L) \ {<<>>} :
                   /\ \E i \in 1..Len(keys) : keys[i] = 0
                   /\ st' = [ph |-> "LOOKUPB", keys |-> keys]
                   /\ PrintT(ToJson([f |-> "LOOKUPB", keys |-> keys, vals |-> ValSeq, asc |-> AscendingB(keys),
                                     rows |-> [i \in 1..Len(ValSeq) |-> RowB(keys, ValSeq[i])]]))
           \/ /\ Kind = "TEXT"
              /\ \E keys \in Seqs(TextKeys, 3) \ {<<>>} :
                   /\ st' = [ph |-> "TEXT", keys |-> keys]
                   /\ PrintT(ToJson([f |-> "TEXT", keys |-> keys, vals |-> TextVals, asc |-> FALSE,
                                     rows |-> [i \in 1..Len(TextVals) |-> Row(keys, TextVals[i], TRUE)]]))
           \/ /\ Kind = "INDEX"
              /\ \E rows \in 1..3, cols \in 1..3 :
                   /\ st' = [ph |-> "INDEX", rows |-> rows, cols |-> cols]
                   /\ PrintT(ToJson([f |-> "INDEX", rows |-> rows, cols |-> cols,
                                     m |-> [a \in 1..(rows + 3) |-> [b \in 1..(cols + 3) |-> Index(rows, cols, a - 2, b - 2)]]]))
           \/ /\ Kind = "COLAREA"
              /\ \E c1 \in 1..5, w \in 1..3, h \in 1..2, own \in 1..3 :
                   /\ st' = [ph |-> "COLAREA", c1 |-> c1, w |-> w, h |-> h, own |-> own]
                   /\ PrintT(ToJson([f |-> "COLAREA", c1 |-> c1, c2 |-> c1 + w - 1, h |-> h, own |-> own, col |-> ColumnOfArea(c1, c1 + w - 1)]))
           \/ /\ Kind = "ADDRESS"
              /\ \E blk \in 0..163 :
                   /\ st' = [ph |-> "ADDRESS", blk |-> blk]
                   /\ PrintT(ToJson([f |-> "ADDRESS", c0 |-> blk * 100 + 1,
                                     a |-> [i \in 1..100 |-> IF blk * 100 + i <= 16384 THEN
                                              <<Address(1, blk * 100 + i), Address(10, blk * 100 + i), Address(1048576, blk * 100 + i), ColLetters(blk * 100 + i)>>
                                            ELSE <<>>]]))
=============================================================================
