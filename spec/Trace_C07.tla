------------------------------ MODULE Trace_C07 ------------------------------
(* Direction B for C07: one event per planted text:                                  *)
(*  {pos, s, gate, outcome, value, taint, canary}; Verdict (PyString) names the clause *)
EXTENDS PyString, Json, IOUtils
VARIABLE l
Log == JsonDeserialize(IOEnv.TRACE_FILE).events
Init == l = 1
Step == /\ l <= Len(Log)
        /\ LET v == Verdict(Log[l]) IN IF v = "" THEN TRUE ELSE PrintT(<<"V", l, v>>)
        /\ l' = l + 1
        /\ (l' = Len(Log) + 1) => PrintT(<<"DONE", l'>>)
Spec == Init /\ [][Step]_l
=============================================================================
