------------------------------ MODULE ImplGrammar ------------------------------
(* The formula grammar of the library, read in two ways (C05, C06):               *)
(*  (i)  as a CONTEXT-FREE GRAMMAR: Accept(toks) iff EntryPointToken derives the  *)
(*       ENTIRE token sequence.  This is "the supported grammar" of the property. *)
(*  (ii) as the CODE reads it (composite_base_token.py): ordered first match      *)
(*       returning (tree, REST), with the control-construction flag that turns a  *)
(*       failed function shape into the parser exception, followed by the         *)
(*       AstBuilder step:                                                         *)
(*         Variant "pinned": the rest is thrown away and a failed match (None) is *)
(*                           dereferenced  => silent truncation / AttributeError  *)
(*         Variant "fixed" : a non-empty rest or a failed match raises the parser *)
(*                           exception                                            *)
EXTENDS Naturals, Sequences, FiniteSets, TLC, TokenSetsData

NT == DOMAIN TS

\* ---------------- (ii) first-match interpreter ----------------
RECURSIVE Get(_, _), TrySets(_, _, _, _), TrySyms(_, _, _, _, _, _)
NoneR(toks) == [st |-> "none", rest |-> toks]
ExcR == [st |-> "exc", rest |-> <<>>]
Get(nt, toks) == TrySets(nt, 1, toks, FALSE)
TrySets(nt, k, toks, flag) ==
  IF k > Len(TS[nt]) THEN (IF flag THEN ExcR ELSE NoneR(toks))            \* composite_base_token.py:49-52
  ELSE LET r == TrySyms(nt, TS[nt][k], 1, toks, 0, flag) IN
       IF r.st = "ok" THEN [st |-> "ok", rest |-> r.cur]
       ELSE IF r.st = "exc" THEN ExcR
       ELSE TrySets(nt, k + 1, toks, r.flag)
\* n = number of matched symbols; returns [st: ok|fail|exc, cur, flag]
TrySyms(nt, set, j, cur, n, flag) ==
  IF j > Len(set) THEN [st |-> "ok", cur |-> cur, flag |-> flag]
  ELSE IF cur = <<>> THEN [st |-> "fail", cur |-> cur, flag |-> flag]     \* "if not len(_expression): break"
  ELSE IF set[j] = Head(cur) THEN TrySyms(nt, set, j + 1, Tail(cur), n + 1, nt \in CCs)
  ELSE IF set[j] \in NT THEN
       LET r == Get(set[j], cur) IN
       IF r.st = "exc" THEN [st |-> "exc", cur |-> cur, flag |-> flag]
       ELSE IF r.st = "none" THEN [st |-> "fail", cur |-> cur, flag |-> flag]
       ELSE TrySyms(nt, set, j + 1, r.rest, n + 1, flag)
  ELSE [st |-> "fail", cur |-> cur, flag |-> flag]

\* raw result of EntryPointToken.get: whole | truncated | none | exc
Raw(toks) == LET r == Get("EntryPointToken", toks) IN
   IF r.st = "exc" THEN "exc" ELSE IF r.st = "none" THEN "none" ELSE IF r.rest # <<>> THEN "truncated" ELSE "whole"

\* outcome class of AstBuilder.parse under a variant: whole | lib | truncated | foreign
ImplOutcome(variant, toks) == LET r == Raw(toks) IN
   CASE r = "whole" -> "whole"
     [] r = "exc"   -> "lib"
     [] r = "none"  -> IF variant = "fixed" THEN "lib" ELSE "foreign"
     [] r = "truncated" -> IF variant = "fixed" THEN "lib" ELSE "truncated"

\* ---------------- (i) the same data as a CFG: set of end positions ----------------
RECURSIVE Ends(_, _, _), EndsSeq(_, _, _, _)
Ends(nt, toks, i) == UNION { EndsSeq(TS[nt][k], 1, toks, {i}) : k \in 1..Len(TS[nt]) }
EndsSeq(set, j, toks, P) ==
  IF j > Len(set) \/ P = {} THEN P
  ELSE IF set[j] \in NT THEN EndsSeq(set, j + 1, toks, UNION { Ends(set[j], toks, p) : p \in P })
  ELSE EndsSeq(set, j + 1, toks, { p + 1 : p \in { q \in P : q <= Len(toks) /\ toks[q] = set[j] } })
Accept(toks) == (Len(toks) + 1) \in Ends("EntryPointToken", toks, 1)

\* ---------------- design-level obligations ----------------
\* C05 on the design: the parser step either covers the whole sequence or raises the library exception
WholeOrLib(variant, toks) == ImplOutcome(variant, toks) \in {"whole", "lib"}
\* soundness of first match w.r.t. the grammar: what the code accepts whole, the grammar derives whole
WholeImpliesCFG(toks) == (Raw(toks) = "whole") => Accept(toks)
=============================================================================
