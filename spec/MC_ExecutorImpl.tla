---- MODULE MC_ExecutorImpl ----
EXTENDS ExecutorImpl
====
