---------------------------- MODULE XlRoundingBig ----------------------------
(* C16 on decimals of up to 15 significant digits (TLC integers are 32-bit, so the     *)
(* mantissa of XlRounding stops at 9 digits).  A decimal is [neg, d, s]: d a sequence  *)
(* of decimal digits (most significant first, leading zeros allowed), value            *)
(* (-1)^neg * d * 10^-s.  The operators work on the DIGITS - drop k = s - n digits,    *)
(* look at what was dropped, carry - a formulation independent of XlRounding's         *)
(* quantum arithmetic; AgreeSmall (an ASSUME of Trace_C16B) ties the two together.     *)
EXTENDS Integers, Sequences, FiniteSets, TLC

Zeros(k) == [i \in 1..k |-> 0]
IsZero(d) == \A i \in 1..Len(d) : d[i] = 0
Incr(d) == IF \A i \in 1..Len(d) : d[i] = 9 THEN <<1>> \o Zeros(Len(d))
           ELSE LET j == CHOOSE j \in 1..Len(d) : d[j] # 9 /\ \A i \in (j + 1)..Len(d) : d[i] = 9
                IN [i \in 1..Len(d) |-> IF i < j THEN d[i] ELSE IF i = j THEN d[j] + 1 ELSE 0]
MaxOf(S) == CHOOSE x \in S : \A y \in S : y <= x
MinOf(S) == CHOOSE x \in S : \A y \in S : x <= y
\* canonical form: no leading zeros, no trailing zeros behind the point, zero = [neg FALSE, <<>>, 0]
Canon(neg, d, s) ==
  LET nz == {i \in 1..Len(d) : d[i] # 0} IN
  IF nz = {} THEN [neg |-> FALSE, d |-> <<>>, s |-> 0]
  ELSE LET t == Len(d) - MaxOf(nz)
           cut == IF t < s THEN t ELSE s
       IN [neg |-> neg, d |-> SubSeq(d, MinOf(nz), Len(d) - cut), s |-> s - cut]
\* f in ROUND / ROUNDUP / ROUNDDOWN to n digits
RoundBig(f, neg, d0, s, n) ==
  LET k == s - n IN
  IF k <= 0 THEN Canon(neg, d0, s)
  ELSE LET d == IF Len(d0) < k + 1 THEN Zeros(k + 1 - Len(d0)) \o d0 ELSE d0
           kept == SubSeq(d, 1, Len(d) - k)
           drop == SubSeq(d, Len(d) - k + 1, Len(d))
           inc == CASE f = "ROUND" -> drop[1] >= 5
                    [] f = "ROUNDUP" -> ~IsZero(drop)
                    [] f = "ROUNDDOWN" -> FALSE
           r == IF inc THEN Incr(kept) ELSE kept
       IN IF n >= 0 THEN Canon(neg, r, n) ELSE Canon(neg, r \o Zeros(-n), 0)
ApplyBig(f, neg, d, s, n) == IF f = "PCT" THEN Canon(neg, d, s + 2) ELSE RoundBig(f, neg, d, s, n)
=============================================================================
