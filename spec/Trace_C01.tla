------------------------------ MODULE Trace_C01 ------------------------------
(* Direction B for C01: events {t (token sequence), env (index of the valuation),   *)
(* obs (observed value)} recorded from the real pipeline on random formulas are      *)
(* re-parsed and re-evaluated by the ideal grammar.  For every event the verdict and *)
(* the Guard set of the open findings are printed:  <<"V", l, status, guards>>.      *)
EXTENDS C01Envs, Json, IOUtils
VARIABLES l
Log == JsonDeserialize(IOEnv.TRACE_FILE).events

SetToSeq(S) == LET RECURSIVE F(_)
                   F(R) == IF R = {} THEN <<>> ELSE LET x == CHOOSE y \in R : TRUE IN <<x>> \o F(R \ {x})
               IN F(S)
Same(ideal, obs) ==
  CASE ideal.k = "num"   -> obs.k = "num" /\ obs.n * ideal.d = ideal.n * obs.d
    [] ideal.k = "text"  -> obs.k = "text" /\ obs.s = ideal.s
    [] ideal.k = "bool"  -> obs.k = "bool" /\ obs.b = ideal.b
    [] ideal.k = "blank" -> obs.k = "blank"
    [] OTHER -> FALSE
Status(ev) == LET r == Ideal(ev.t, McEnvs[ev.env]) IN
  IF ~r.acc THEN "notformula"
  ELSE IF r.v.k = "err" THEN "oos"
  ELSE IF Same(r.v, ev.obs) THEN "ok" ELSE "differs"
Init == l = 1
Step == /\ l <= Len(Log)
        /\ LET s == Status(Log[l]) IN
             IF s = "ok" THEN TRUE ELSE PrintT(<<"V", l, s, SetToSeq(Guards(Log[l].t))>>)
        /\ l' = l + 1
        /\ (l' = Len(Log) + 1) => PrintT(<<"DONE", l'>>)
Spec == Init /\ [][Step]_l
=============================================================================
