----------------------------- MODULE Trace_C04 -----------------------------
(* Direction B for C04 and C08: traces of set_cells / get_cell / get_cells /     *)
(* get_sheet calls recorded from the real Executor are validated against the     *)
(* ideal executor.  set events drive the spec's override map; every query event  *)
(* must carry exactly the reply the specification computes by evaluating         *)
(* (workbook (+) overrides) itself; size events must equal SizeOf.               *)
EXTENDS Workbook4, TLC, Json, IOUtils

VARIABLES ov, tid, l
Traces == JsonDeserialize(IOEnv.TRACE_FILE).traces

Init == ov = EmptyOv /\ tid = 1 /\ l = 1
Ev0 == Traces[tid][l]

\* JSON value -> spec value
V(j) == IF j.k = "num" THEN Num(j.n) ELSE IF j.k = "bool" THEN Bool(j.b) ELSE IF j.k = "blank" THEN Blank ELSE IF j.k = "err" THEN Err ELSE Other
ToBatch(b) == [i \in 1..Len(b) |-> <<b[i][1], b[i][2]>>]
SameGrid(g, exp) ==
  /\ Len(g) = Len(exp)
  /\ \A r \in 1..Len(exp) : Len(g[r]) = Len(exp[r]) /\ \A c \in 1..Len(exp[r]) : V(g[r][c]) = exp[r][c]
HasErr(exp) == \E r \in 1..Len(exp) : \E c \in 1..Len(exp[r]) : exp[r][c] = Err

Verdict(e) ==   \* "" = explained by the specification, otherwise the failed clause
  CASE e.ev = "set"   -> ""
    [] e.ev = "rejected" -> IF e.raised THEN "" ELSE "a set_cells call naming an invalid cell was accepted"     \* changes nothing: ov stays
    [] e.ev = "get"   -> IF V(e.res) = Ev(e.c, ov) THEN "" ELSE "get: value differs from (workbook (+) overrides)"
    [] e.ev = "many"  -> IF Len(e.res) = Len(e.cs) /\ \A i \in 1..Len(e.cs) : V(e.res[i]) = Ev(e.cs[i], ov)
                         THEN "" ELSE "get_cells: some value differs from the single-cell value"
    [] e.ev = "sheet" -> LET exp == Grid(e.s, ov) IN
                         IF e.raised THEN (IF HasErr(exp) THEN "" ELSE "get_sheet raised although no cell of the grid fails")
                         ELSE IF SameGrid(e.res, exp) THEN "" ELSE "get_sheet: grid differs from used range (+) overrides / single-cell values"
    [] e.ev = "sizes" -> IF \A s \in 1..2 : e.res[s].rows = SizeOf(s, ov).rows /\ e.res[s].cols = SizeOf(s, ov).cols
                         THEN "" ELSE "sizes differ from used range (+) overrides"
    [] e.ev = "ovmap" -> \* the executor's own override map after a query (purity): must equal the spec's ov
                         IF /\ {e.res[i][1] : i \in 1..Len(e.res)} = DOMAIN ov
                            /\ \A i \in 1..Len(e.res) : ov[e.res[i][1]] = e.res[i][2]
                         THEN "" ELSE "override map differs from the overrides in force"

Step ==
  /\ tid <= Len(Traces)
  /\ LET e == Ev0 v == Verdict(Ev0) last == (l = Len(Traces[tid])) IN
     IF v = ""
     THEN /\ tid' = IF last THEN tid + 1 ELSE tid
          /\ l' = IF last THEN 1 ELSE l + 1
          /\ ov' = IF last THEN EmptyOv ELSE IF e.ev = "set" THEN Apply(ov, ToBatch(e.batch)) ELSE ov
     ELSE /\ PrintT(<<"REJECT", tid, l, v>>)
          /\ tid' = tid + 1 /\ l' = 1 /\ ov' = EmptyOv
  /\ ((tid' = Len(Traces) + 1) => PrintT(<<"DONE", tid'>>))

Spec == Init /\ [][Step]_<<ov, tid, l>>
=============================================================================
