----------------------------- MODULE Trace_C09 -----------------------------
(* Direction B for C09: call traces recorded from the real Parser are checked   *)
(* against the ideal facade.  The set-calls drive the spec's settings; every    *)
(* get/write event must carry the result the spec's T assigns to the settings   *)
(* currently in force.  T is interpreted by a table measured with brand-new     *)
(* Parser objects (one per settings triple), delivered in the trace file.       *)
(* Many traces per TLC run (tid); a rejected event is printed, the trace is     *)
(* abandoned and the run continues with the next one (total verdicts).          *)
EXTENDS Naturals, Sequences, TLC, Json, IOUtils

VARIABLES path, entry, safety, out, file, tid, l
vars == <<path, entry, safety, out, file>>

Input == JsonDeserialize(IOEnv.TRACE_FILE)
Traces == Input.traces
Tbl == Input.tbl                         \* sequence of [p, e, s, id]
NoPath == "nopath"
Paths == {Tbl[i].p : i \in 1..Len(Tbl)}
Entries == {Tbl[i].e : i \in 1..Len(Tbl)}

F == INSTANCE ParserFacade

Interp(res) == \* interpretation of an ideal result as an observable id
  IF res = F!NoPathError THEN "lib:nopath"
  ELSE LET i == CHOOSE i \in 1..Len(Tbl) : Tbl[i].p = res[1] /\ Tbl[i].e = res[2] /\ Tbl[i].s = res[3] IN Tbl[i].id

Init == F!Init /\ tid = 1 /\ l = 1

Ev == Traces[tid][l]

Advance == IF l < Len(Traces[tid]) THEN tid' = tid /\ l' = l + 1 ELSE tid' = tid + 1 /\ l' = 1
Abandon(clause) == /\ PrintT(<<"REJECT", tid, l, clause>>)
                   /\ tid' = tid + 1 /\ l' = 1
                   /\ path' = NoPath /\ entry' = "whole" /\ safety' = TRUE /\ out' = F!Nothing /\ file' = F!Nothing

\* at the start of each trace the facade is fresh
Reset == IF l' = 1 THEN path' = NoPath /\ entry' = "whole" /\ safety' = TRUE /\ out' = F!Nothing /\ file' = F!Nothing
         ELSE TRUE

Step ==
  /\ tid <= Len(Traces)
  /\ LET e == Ev IN
     CASE e.call = "path"    -> /\ Advance
                                /\ IF l' = 1 THEN Reset ELSE F!SetPath(e.arg)
       [] e.call = "entry"   -> /\ Advance
                                /\ IF l' = 1 THEN Reset ELSE F!SetEntry(e.arg)
       [] e.call = "enable"  -> /\ Advance
                                /\ IF l' = 1 THEN Reset ELSE F!Enable
       [] e.call = "disable" -> /\ Advance
                                /\ IF l' = 1 THEN Reset ELSE F!Disable
       [] e.call = "get"     -> IF e.res = Interp(F!Result)
                                THEN Advance /\ (IF l' = 1 THEN Reset ELSE F!Get)
                                ELSE Abandon("get: result does not correspond to the settings in force")
       [] e.call = "write"   -> IF e.res # Interp(F!Result)
                                THEN Abandon("write: result does not correspond to the settings in force")
                                ELSE IF e.file # "unchanged" /\ e.file # e.res
                                THEN Abandon("write: file content differs from the returned text")
                                ELSE Advance /\ (IF l' = 1 THEN Reset
                                                 ELSE /\ out' = F!Result
                                                      /\ file' = IF e.file = "unchanged" THEN file ELSE F!Result
                                                      /\ UNCHANGED <<path, entry, safety>>)

StepD == Step /\ ((tid' = Len(Traces) + 1) => PrintT(<<"DONE", tid'>>))
Spec == Init /\ [][StepD]_<<vars, tid, l>>

\* acceptance (checked by the harness): the line <<"DONE", n+1>> was printed, i.e. every trace
\* was consumed to its end or abandoned with a printed REJECT
=============================================================================
