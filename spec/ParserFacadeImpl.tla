-------------------------- MODULE ParserFacadeImpl --------------------------
(* CODE-SHAPED facade: excel2pycl/src/utilities/parser.py, one action per      *)
(* method, with the code's own state: the cached text, the two dirty flags and *)
(* the client's entry Cell *object* (its "handled" bit and retained value).    *)
(*                                                                             *)
(* Variant = "pinned": the code at the pinned commit:                          *)
(*    - set_entrypoint_cell / enable / disable do not invalidate the cache     *)
(*    - CellTranslator skips fill_cell for a Cell whose identifiers were       *)
(*      already handled, so a re-used entry object keeps the formula text of   *)
(*      the workbook it was first filled from                                  *)
(* Variant = "fixed": after the fix commits (every setter raises a dirty flag; *)
(*    the entry cell is re-filled from the current workbook on every           *)
(*    translation).                                                            *)
(* TLC checks  Impl => Ideal  (refinement).  It fails for "pinned" (the        *)
(* counterexamples were replayed on the real Parser) and must hold for "fixed".*)
EXTENDS Naturals, Sequences, TLC

CONSTANTS Paths, Entries, NoPath, Objs, Variant, Raises

VARIABLES path, safety,
          entryObj,          \* the Cell object held by the parser, or "none"
          ids,               \* ids[o]: which entry cell object o addresses (objects are created by the client)
          handled,           \* handled[o]: Cell._handled_identifiers
          value,             \* value[o]: workbook the object's .value (formula text) was filled from
          cache,             \* Parser._translation
          pathDirty, entryDirty,   \* the two *_has_been_changed flags
          out, file

vars == <<path, safety, entryObj, ids, handled, value, cache, pathDirty, entryDirty, out, file>>

Nothing == <<"nothing">>
NoPathError == <<"lib", "nopath">>
NoValue == "novalue"

Init == /\ path = NoPath /\ safety = TRUE /\ entryObj = "none"
        /\ ids \in [Objs -> Entries \ {"whole"}]
        /\ handled = [o \in Objs |-> FALSE]
        /\ value = [o \in Objs |-> NoValue]
        /\ cache = Nothing /\ pathDirty = TRUE /\ entryDirty = TRUE
        /\ out = Nothing /\ file = Nothing

SetPath(p) == /\ path' = p /\ pathDirty' = TRUE
              /\ UNCHANGED <<safety, entryObj, ids, handled, value, cache, entryDirty, out, file>>

\* parser.py set_entrypoint_cell: stores the object; "pinned" raises no flag
SetEntry(o) == /\ entryObj' = o
               /\ entryDirty' = IF Variant = "fixed" THEN TRUE ELSE entryDirty
               /\ UNCHANGED <<path, safety, ids, handled, value, cache, pathDirty, out, file>>

SetSafety(b) == /\ safety' = b
                /\ entryDirty' = IF Variant = "fixed" THEN TRUE ELSE entryDirty
                /\ UNCHANGED <<path, entryObj, ids, handled, value, cache, pathDirty, out, file>>

EntryOf == IF entryObj = "none" THEN "whole" ELSE ids[entryObj]

\* Parser._translate.  Returns the result in res and the new object/cache state.
\* Raises(p, e, s): the environment's choice whether translating (p,e,s) raises (safety / parser exception);
\* a raise leaves cache and flags untouched (the assignments come after the translation).
Translate(isWrite) ==
  IF ~pathDirty /\ ~entryDirty
  THEN /\ out' = cache
       /\ file' = IF isWrite THEN cache ELSE file
       /\ UNCHANGED <<path, safety, entryObj, ids, handled, value, cache, pathDirty, entryDirty>>
  ELSE IF path = NoPath
  THEN /\ out' = NoPathError
       /\ UNCHANGED <<path, safety, entryObj, ids, handled, value, cache, pathDirty, entryDirty, file>>
  ELSE LET o == entryObj
           refill == (Variant = "fixed") \/ (o # "none" /\ ~handled[o])
           src == IF o = "none" THEN path ELSE IF refill THEN path ELSE value[o]
           res == <<path, EntryOf, safety, src>>
       IN /\ handled' = IF o = "none" THEN handled ELSE [handled EXCEPT ![o] = TRUE]
          /\ value' = IF o = "none" \/ ~refill THEN value ELSE [value EXCEPT ![o] = path]
          /\ \/ /\ <<path, EntryOf, safety>> \notin Raises
                /\ cache' = res /\ out' = res
                /\ pathDirty' = FALSE /\ entryDirty' = FALSE
                /\ file' = IF isWrite THEN res ELSE file
             \/ /\ <<path, EntryOf, safety>> \in Raises       \* exception: nothing cached, flags stay dirty
                /\ out' = res
                /\ UNCHANGED <<cache, pathDirty, entryDirty, file>>
          /\ UNCHANGED <<path, safety, entryObj, ids>>

Get == Translate(FALSE)
Write == Translate(TRUE)

Next == \/ \E p \in Paths : SetPath(p)
        \/ \E o \in Objs \cup {"none"} : SetEntry(o)
        \/ \E b \in BOOLEAN : SetSafety(b)
        \/ Get \/ Write

Spec == Init /\ [][Next]_vars

\* ---- refinement mapping to the ideal facade ----
Ideal == INSTANCE ParserFacade WITH entry <- EntryOf
Refines == Ideal!Spec

\* the cache coherence invariant behind the refinement (also discharged inductively by Apalache)
CacheCoherent == (~pathDirty /\ ~entryDirty) => cache = <<path, EntryOf, safety, path>>
=============================================================================
