----------------------------- MODULE MC_PyString -----------------------------
(* QuoteRoundTrip / NoEarlyClose for the ideal emitter over every text up to length L *)
(* over the adversarial alphabet; the naive emitter fails exactly on the anchors.      *)
EXTENDS PyString
CONSTANTS Alphabet, L
VARIABLES s, ph
RECURSIVE Texts(_)
Texts(n) == IF n = 0 THEN {<<>>} ELSE LET S == Texts(n - 1) IN S \cup {Append(x, a) : x \in {y \in S : Len(y) = n - 1}, a \in Alphabet}
Init == s \in Texts(1) /\ ph = "shard"
Next == ph = "shard" /\ ph' = "case" /\ s' \in {s \o t : t \in Texts(L - 1)}
QuoteIsInert == Inert(Quote(s), s)
NoPrefixCloses == \A k \in 2..(Len(Quote(s)) - 1) : ~(Unquote(SubSeq(Quote(s), 1, k)).ok /\ Unquote(SubSeq(Quote(s), 1, k)).end = k)
                    \/ (Quote(s)[k] = SQ /\ Quote(s)[k - 1] = BS)
NaiveAnchors == /\ ~Inert(Naive(<<SQ>>), <<SQ>>) /\ ~Inert(Naive(<<97, BS>>), <<97, BS>>) /\ ~Inert(Naive(<<NL>>), <<NL>>)
                /\ ~Inert(Naive(<<SQ, 43, 97, 43, SQ>>), <<SQ, 43, 97, 43, SQ>>) /\ Inert(Naive(<<97, 35>>), <<97, 35>>)
NaiveSafeOnlyWithoutSpecials == Inert(Naive(s), s) => \A i \in 1..Len(s) : s[i] \notin {SQ, NL}
=============================================================================
