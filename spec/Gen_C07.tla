------------------------------- MODULE Gen_C07 -------------------------------
(* Direction A for C07: every text up to length L over the adversarial alphabet       *)
(* (shard = first character), with the ideal literal the specification would emit.     *)
EXTENDS PyString, Json
CONSTANTS Alphabet, L
VARIABLE st
RECURSIVE Texts(_)
Texts(n) == IF n = 0 THEN {<<>>} ELSE LET S == Texts(n - 1) IN S \cup {Append(x, a) : x \in {y \in S : Len(y) = n - 1}, a \in Alphabet}
Init == \E a \in Alphabet : st = [ph |-> "shard", a |-> a]
Next == /\ st.ph = "shard"
        /\ \E t \in Texts(L - 1) :
             LET s == <<st.a>> \o t IN
             /\ st' = [ph |-> "case", s |-> s]
             /\ Inert(Quote(s), s)
             /\ PrintT(ToJson([s |-> s, q |-> Quote(s)]))
=============================================================================
