--------------------------- MODULE MC_XlAggregates ---------------------------
(* The statement's own algebra on the aggregate oracle: for every assignment of     *)
(* content kinds to a 2 x 2 block (shard = first two cells).                          *)
EXTENDS XlAggregates
Kinds == {"I", "D", "N", "Z", "X", "S", "T", "F", "B", "E", "H"}
VARIABLES blk, ph
Init == \E a \in Kinds, b \in Kinds : blk = <<a, b, "B", "B">> /\ ph = "shard"
Next == ph = "shard" /\ ph' = "case" /\ \E c \in Kinds, d \in Kinds : blk' = <<blk[1], blk[2], c, d>>
A(r1, c1, r2, c2) == [area |-> <<r1, c1, r2, c2>>]
Whole == A(1, 1, 2, 2)
F(args) == Folds(args, blk)
\* SUM(X,Y) = SUM(X)+SUM(Y), COUNT likewise, MIN/MAX of a split = min/max of the parts; any split of the block
SplitInvariance ==
  /\ F(<<A(1, 1, 1, 2), A(2, 1, 2, 2)>>).sum4 = F(<<Whole>>).sum4 /\ F(<<A(1, 1, 2, 1), A(1, 2, 2, 2)>>) = F(<<Whole>>)
  /\ F(<<A(1, 1, 1, 2), A(2, 1, 2, 2)>>).count = F(<<Whole>>).count
  /\ F(<<A(1, 1, 1, 1), A(1, 2, 1, 2), A(2, 1, 2, 2)>>).min4 = F(<<Whole>>).min4
  /\ F(<<A(1, 1, 1, 2)>>).sum4 + F(<<A(2, 1, 2, 2)>>).sum4 = F(<<Whole>>).sum4
OncePerMention == F(<<Whole, Whole>>).sum4 = 2 * F(<<Whole>>).sum4 /\ F(<<Whole, A(1, 1, 1, 2)>>).count = F(<<Whole>>).count + F(<<A(1, 1, 1, 2)>>).count
NonNumeric(kd) == kd \notin Numeric
NonNumericIgnored == \A i \in 1..4 : NonNumeric(blk[i]) => Folds(<<Whole>>, [blk EXCEPT ![i] = "B"]) = F(<<Whole>>)
ScalarCounts == F(<<Whole, [lit |-> 40]>>).sum4 = F(<<Whole>>).sum4 + 40 /\ F(<<Whole, [lit |-> 40]>>).count = F(<<Whole>>).count + 1
CountBlankExact == CountBlank(<<1, 1, 2, 2>>, blk) = Cardinality({i \in 1..4 : blk[i] = "B"}) + Cardinality({i \in 1..4 : blk[i] = "E"})
MinLeMax == F(<<Whole>>).count > 0 => (F(<<Whole>>).min4 <= F(<<Whole>>).max4 /\ F(<<Whole>>).min4 * F(<<Whole>>).count <= F(<<Whole>>).sum4
                                       /\ F(<<Whole>>).sum4 <= F(<<Whole>>).max4 * F(<<Whole>>).count)
AndOrFold == \A x \in BOOLEAN, y \in BOOLEAN : AndOf(<<x, y>>) = (x /\ y) /\ OrOf(<<x, y>>) = (x \/ y) /\ AndOf(<<x>>) = x /\ OrOf(<<x, y, FALSE>>) = (x \/ y)
=============================================================================
