------------------------------ MODULE Trace_C15 ------------------------------
(* Direction B for C15: events recorded from the real code on random arguments        *)
(* (years 1901..9990, any month / day offsets, date pairs decades apart):              *)
(*   {f, a (sequence of integer arguments), u (unit text or ""), h (holiday serials), obs (integer; -999999 = not a date/number)} *)
(* are recomputed by the specification.                                                *)
EXTENDS XlCalendar, Json, IOUtils
VARIABLE l
Log == JsonDeserialize(IOEnv.TRACE_FILE).events
NA == -999999
Ideal(e) == LET a == e.a IN
  CASE e.f = "DATE"     -> DateNorm(a[1], a[2], a[3])
    [] e.f = "YEAR"     -> Civil(DateNorm(a[1], a[2], a[3])).y
    [] e.f = "MONTH"    -> Civil(DateNorm(a[1], a[2], a[3])).m
    [] e.f = "DAY"      -> Civil(DateNorm(a[1], a[2], a[3])).d
    [] e.f = "EDATE"    -> EDate(a[1], a[2])
    [] e.f = "EOMONTH"  -> EoMonth(a[1], a[2])
    [] e.f = "DATEDIF"  -> DateDif(e.u, a[1], a[2])
    [] e.f = "NWD"      -> NetworkDays(a[1], a[2], {e.h[i] : i \in 1..Len(e.h)})
Init == l = 1
Step == /\ l <= Len(Log)
        /\ LET e == Log[l] r == Ideal(e) IN IF r = NA \/ r = e.obs THEN TRUE ELSE PrintT(<<"V", l, r>>)
        /\ l' = l + 1
        /\ (l' = Len(Log) + 1) => PrintT(<<"DONE", l'>>)
Spec == Init /\ [][Step]_l
=============================================================================
