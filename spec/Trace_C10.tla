------------------------------ MODULE Trace_C10 ------------------------------
(* Direction B for C10: events {a, b, o, w} - two operand values, the six booleans  *)
(* observed for (a,b) and for (b,a) on the real code - judged by the specification: *)
(* where the order is pinned the booleans must be Six(Cmp3), and in every in-scope  *)
(* case the laws must hold.  Prints <<"V", l, clause>> for every rejected event.    *)
EXTENDS XlCompare, Json, IOUtils
VARIABLE l
Log == JsonDeserialize(IOEnv.TRACE_FILE).events
Verdict(e) == LET c == Cmp3(e.a, e.b) IN
  IF c = OOS THEN "oos"
  ELSE IF c # LAWS /\ e.o # Six(c) THEN "exact: the six results differ from the exact order of the operands"
  ELSE IF c # LAWS /\ e.w # Six(-c) THEN "exact (swapped operands): the six results differ from the exact order"
  ELSE FailedLaw(e.o, e.w)
Init == l = 1
Step == /\ l <= Len(Log)
        /\ LET v == Verdict(Log[l]) IN IF v = "" THEN TRUE ELSE PrintT(<<"V", l, v>>)
        /\ l' = l + 1
        /\ (l' = Len(Log) + 1) => PrintT(<<"DONE", l'>>)
Spec == Init /\ [][Step]_l
=============================================================================
