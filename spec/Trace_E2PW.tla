----------------------------- MODULE Trace_E2PW -----------------------------
(* Direction B for the pipeline specification: histories recorded from a real     *)
(* Parser, a workbook file that is replaced under its path, and real executors    *)
(* made from the written class file or from the returned text.  The version a     *)
(* text / class file was translated from is OBSERVED (the recorder evaluates the  *)
(* marker cell S1!A1 of a throw-away instance: 3 = version 1, 7 = version 2); the *)
(* specification says which version it must be.                                    *)
EXTENDS Workbook4, TLC, Json, IOUtils

VARIABLES file, dirty, text, written, wv, ovs, tid, l
Traces == JsonDeserialize(IOEnv.TRACE_FILE).traces
XS == 1..3
Base(v) == IF v = 1 THEN EmptyOv ELSE [c \in {"S1A1", "S2C3"} |-> IF c = "S1A1" THEN 7 ELSE 9]
Over(v, ov) == [c \in (DOMAIN Base(v)) \cup (DOMAIN ov) |-> IF c \in DOMAIN ov THEN ov[c] ELSE Base(v)[c]]
NoOvs == [x \in XS |-> EmptyOv]
NoWv == [x \in XS |-> 0]

Init == file = 1 /\ dirty = TRUE /\ text = 0 /\ written = 0 /\ wv = NoWv /\ ovs = NoOvs /\ tid = 1 /\ l = 1
Ev0 == Traces[tid][l]
V(j) == IF j.k = "num" THEN Num(j.n) ELSE IF j.k = "bool" THEN Bool(j.b) ELSE IF j.k = "blank" THEN Blank ELSE IF j.k = "err" THEN Err ELSE Other
SameSizes(res, o) == \A s \in 1..2 : res[s].rows = SizeOf(s, o).rows /\ res[s].cols = SizeOf(s, o).cols
Current == IF dirty THEN file ELSE text

Verdict(e) ==
  CASE e.ev = "replace"  -> ""
    [] e.ev = "announce" -> ""
    [] e.ev = "text"     -> IF e.ver = Current THEN ""
                            ELSE IF dirty THEN "the text returned after a setter is not the translation of the file as it is now"
                            ELSE "a repeated request without a change returned a different translation"
    [] e.ev = "write"    -> IF e.ver # Current THEN "the text returned by the write request is not the translation in force"
                            ELSE IF e.filever # e.ver THEN "the written class file is not the returned text" ELSE ""
    [] e.ev = "new"      -> IF wv[e.x] # 0 THEN "harness: executor identity reused while alive"
                            ELSE LET v == IF e.how = "file" THEN written ELSE text IN
                                 IF v = 0 THEN "harness: nothing to make an executor from"
                                 ELSE IF SameSizes(e.res, Over(v, EmptyOv)) THEN "" ELSE "a new executor does not report the sizes of the workbook of its translation"
    [] e.ev = "drop"     -> ""
    [] e.ev = "set"      -> ""
    [] e.ev = "get"      -> IF V(e.res) = Ev(e.c, Over(wv[e.x], ovs[e.x])) THEN ""
                            ELSE "get: value differs from (workbook of the executor's translation (+) its overrides)"
    [] e.ev = "sizes"    -> IF SameSizes(e.res, Over(wv[e.x], ovs[e.x])) THEN "" ELSE "sizes differ from (workbook of the executor's translation (+) its overrides)"

Step ==
  /\ tid <= Len(Traces)
  /\ LET e == Ev0 v == Verdict(Ev0) last == (l = Len(Traces[tid])) IN
     IF v = "" /\ ~last
     THEN /\ tid' = tid /\ l' = l + 1
          /\ file' = IF e.ev = "replace" THEN e.v ELSE file
          /\ dirty' = IF e.ev = "announce" THEN TRUE ELSE IF e.ev \in {"text", "write"} THEN FALSE ELSE dirty
          /\ text' = IF e.ev \in {"text", "write"} THEN Current ELSE text
          /\ written' = IF e.ev = "write" THEN Current ELSE written
          /\ wv' = IF e.ev = "new" THEN [wv EXCEPT ![e.x] = IF e.how = "file" THEN written ELSE text]
                   ELSE IF e.ev = "drop" THEN [wv EXCEPT ![e.x] = 0] ELSE wv
          /\ ovs' = IF e.ev = "set" THEN [ovs EXCEPT ![e.x] = Apply(@, <<<<e.c, e.v>>>>)]
                    ELSE IF e.ev \in {"new", "drop"} THEN [ovs EXCEPT ![e.x] = EmptyOv] ELSE ovs
     ELSE /\ (v # "" => PrintT(<<"REJECT", tid, l, v>>))
          /\ tid' = tid + 1 /\ l' = 1
          /\ file' = 1 /\ dirty' = TRUE /\ text' = 0 /\ written' = 0 /\ wv' = NoWv /\ ovs' = NoOvs
  /\ ((tid' = Len(Traces) + 1) => PrintT(<<"DONE", tid'>>))

Spec == Init /\ [][Step]_<<file, dirty, text, written, wv, ovs, tid, l>>
=============================================================================
